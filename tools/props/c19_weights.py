"""C19, sub-stream `c19_weights` — the NUMERIC half of the growing self-organising map: weights, errors, min/max tracking, distances,
measures.  Registered by `SUBSTREAMS = ['c19_weights']` in tools/props/c19.py; theorems are in Properties/C19.v.

model   : Model/GsomW.v (one model text over an abstract arithmetic) instantiated with Coq primitive floats = Model/GsomF.v
          (`run_wf`, bit-exact twin of IEEE binary64) and with exact rationals (`run_adjustQ`).
wnet    : the real gsom::Network (public API: new, smooth, store_batch, compact, set_learning_rate, iter, find, get_nodes, mse,
          max_unified_distance, node.weights / error / mse / unified_distance, get_network_state) on inputs given by their f64 bit
          patterns (small integers, dyadic, arbitrary mantissas, wide exponents, denormals, values next to f64::MAX).  The model
          starts from the map observed after Network::new; MinMaxWeights is private, so the first call is always `smooth` (its
          retrain round rebuilds min/max from observable data).  From then on the twin COMPUTES every best matching unit, every
          accumulated error, every growth decision, the grown and the adjusted weights, min/max, Node::mse, unified_distance(1),
          Network::mse and max_unified_distance; only the iteration order of the hash map after the call and the order of the
          re-trained individuals (sort_unstable + shuffle) are taken from the implementation and validated by the model.
compare : after EVERY call all numbers bit for bit (NaN as one class), in the implementation's iteration order; coordinates,
          hit counters, capacities, stored ids exactly.  In a third of the small cases (`qdec`) the EXACT instance over Q replays every
          store_batch on its own from the (exactly converted) state before the call: whenever all its decisions have a margin
          >= 2^-30 (runner-up distance, |threshold - accumulated error|) its best matching units and growth decisions — the
          resulting lattice, hit counters and stored ids — must be the implementation's (Model/GsomF.v :: run_wq).
adjust  : Node::new + Node::adjust called directly: twin bit for bit on arbitrary floats; on dyadic inputs (k/8, rate j/16: f64
          arithmetic is exact) additionally the model over Q must give exactly the value of the real result.
reldist : math::relative_distance called directly, twin bit for bit.
oracle  : the property on the implementation's own output: all weights finite and of the input dimension, node.error / Node::mse /
          unified_distance / Network::mse / max_unified_distance finite, accumulated errors and measures >= 0, NetworkState agrees
          with the nodes.  Non-finite values when an input magnitude exceeds 2^1015 (network; 2^1021 for a direct Node::adjust, the
          proved bound of C19_float_adjust_finite) are finding C19-F3; with all inputs within the bound they are a VIOLATION.
corpus  : corpus/C19/c19_weights/*.json — the finding, and a store whose accumulated error EQUALS the growing threshold bit for bit
          (`const_random`: the harness' constant Random, so that Network::new does not depend on the process-random hash order).
"""
import struct
from fractions import Fraction
from coqterm import z, nat

ID = 'C19'            # set by the driver to the parent's id
HARNESS = 'c19_weights'
COQ_IMPORTS = 'From VRP Require Import Base.Tac Model.Gsom Model.SlotF Model.GsomW Model.GsomF.'
MODEL_TARGETS = ['theories/Model/GsomF.vo']
MODEL_NEEDS_IMPL = True
SHARD = 8
SIZES = {'quick': 200, 'thorough': 2600, 'search': 400}
SEARCH_ROUNDS = 2
RULE = ('cases: (wnet, ~55%) the real gsom::Network built from 4-30 individuals of dimension 1-4 whose weights are f64 bit patterns of '
        'seven families (small integers, dyadic k/8, arbitrary mantissas, exponents 2^-40..2^40, denormals, constant/duplicated vectors, '
        'and ~4% values next to f64::MAX) under spread factor 2^-k or arbitrary, arbitrary distribution factor, learning rate 0 / 1 / '
        '0.3 / arbitrary in [0, 1], node size 1-4; calls: smooth first, then 2-7 of store_batch (1-5 inputs) / set_learning_rate / smooth / '
        'compact; the float twin of the whole numeric network is evaluated inside Coq and compared bit for bit after every call; in a third of '
        'the small cases the exact model over Q replays every store_batch and must predict best matching units and growth (margins >= 2^-30). '
        '(adjust, ~30%) Node::adjust directly (half of them dyadic: also compared exactly with the model over Q). (reldist, ~15%) '
        'relative_distance directly. non-trivial = wnet histories with at least one store_batch or compact, every adjust / reldist case.')
TRUSTED = ['c19_weights: instrumented storage of the harness (as the parent stream) and its add-order log; the iteration order of the '
           'FxHashMap after every call and the order of re-trained individuals are oracle inputs validated by the model',
           'c19_weights: growing_threshold is recomputed by the harness with the expression of Network::new (private field)',
           'c19_weights: Coq primitive floats (kernel float operations = IEEE-754 binary64 of the host), f64::min/max modelled without '
           'zeros of opposite sign (no -0.0 is fed)']

SIGN = 1 << 63
F64_MAX = 0x7FEFFFFFFFFFFFFF
SAFE_EXP = 1021          # Node::adjust: |w|, |t| <= 2^1021 is the proved finiteness bound (C19_float_adjust_finite)
NET_SAFE_EXP = 1015      # network level: inputs up to 2^1015 leave room for the extrapolating growth cases (2*w1 - w2 chains)
FINDING_BIG = 'nonfinite-map-for-inputs-near-f64-max'


def bits(x):
    x = float(x)
    if x == 0.0:
        x = 0.0
    return struct.unpack('<Q', struct.pack('<d', x))[0]


def of_bits(b):
    return struct.unpack('<d', struct.pack('<Q', int(b) & 0xFFFFFFFFFFFFFFFF))[0]


def is_nan_bits(b):
    b = int(b)
    return (b >> 52) & 0x7FF == 0x7FF and (b & ((1 << 52) - 1)) != 0


def is_finite_bits(b):
    return (int(b) >> 52) & 0x7FF != 0x7FF


def canon(b):
    b = int(b)
    return -1 if is_nan_bits(b) else b


def frac_of_bits(b):
    return Fraction(of_bits(b))


def within(b, k):
    """finite and |x| <= 2^k"""
    return is_finite_bits(b) and abs(of_bits(b)) <= 2.0 ** k


# ------------------------------------------------------------------ generators
FAMILIES = ['int', 'dyadic', 'real', 'real', 'wide', 'tiny', 'dup', 'huge']


def gen_value(rng, fam):
    if fam == 'int' or fam == 'dup':
        return float(rng.range(-60, 60))
    if fam == 'dyadic':
        return rng.range(-4000, 4000) / 8.0
    if fam == 'real':
        return rng.range(-10 ** 6, 10 ** 6) / 977.0
    if fam == 'wide':
        return (rng.range(-10 ** 6, 10 ** 6) / 977.0) * 2.0 ** rng.range(-40, 40)
    if fam == 'tiny':
        return of_bits(rng.range(0, 1 << 53) | (SIGN if rng.chance(1, 2) else 0))
    if fam == 'huge':
        k = rng.below(4)
        if k == 0:
            return of_bits(F64_MAX | (SIGN if rng.chance(1, 2) else 0))
        if k == 1:
            return of_bits((F64_MAX - rng.below(1 << 40)) | (SIGN if rng.chance(1, 2) else 0))
        return (rng.range(-10 ** 6, 10 ** 6) / 977.0) * 2.0 ** rng.range(1000, 1003)
    raise ValueError(fam)


def gen_vec(rng, fam, dim, centres):
    if fam == 'dup':
        return list(rng.choice(centres))
    if fam in ('int', 'dyadic', 'real') and rng.chance(2, 3):
        c = rng.choice(centres)
        if fam == 'int':
            return [c[i] + float(rng.range(-3, 3)) for i in range(dim)]
        return [c[i] + gen_value(rng, fam) / 16.0 for i in range(dim)]
    v = [gen_value(rng, fam) for _ in range(dim)]
    if fam == 'huge':
        # mostly ordinary coordinates with one or two extreme ones
        for i in range(dim):
            if rng.chance(1, 2):
                v[i] = gen_value(rng, 'real')
    return v


def gen_rate(rng):
    k = rng.below(8)
    if k == 0:
        return 0.0
    if k == 1:
        return 1.0
    if k == 2:
        return 0.3
    if k == 3:
        return rng.range(1, 15) / 16.0
    return rng.range(1, 10 ** 6) / float(10 ** 6 + 1)


def gen_wnet(rng, tier):
    dim = rng.range(1, 4)
    fam = rng.choice(FAMILIES)
    if fam == 'huge' and not rng.chance(1, 2):
        fam = 'real'
    cfam = 'int' if fam in ('dup', 'huge', 'tiny', 'wide') else fam
    centres = [[gen_value(rng, cfam) for _ in range(dim)] for _ in range(rng.range(2, 4))]
    ln = rng.choice([4, 5, 6, 8, 9, 12, 16, 20, 30])
    tagmode = rng.below(3)
    nid = [0]

    def item():
        i = nid[0]
        nid[0] += 1
        tag = i if tagmode == 0 else (rng.below(3) if tagmode == 1 else (rng.below(4) if rng.chance(1, 2) else 100 + i))
        f = fam if not (fam == 'huge' and rng.chance(2, 3)) else 'real'
        return [i, rng.range(0, 9), tag] + [bits(x) for x in gen_vec(rng, f, dim, centres)]

    data = [item() for _ in range(ln)]
    sfk = rng.below(6)
    sf = [0.5, 0.25, 0.0625, 0.75, 0.9][sfk] if sfk < 5 else rng.range(1, 999) / 1000.0
    cfg = {'node_size': rng.choice([1, 2, 2, 3, 4]), 'sf': bits(sf), 'df': bits(rng.choice([0.5, 0.9, 0.25, rng.range(1, 999) / 1000.0])),
           'lr': bits(rng.choice([0.3, 0.3, 0.0, 1.0, gen_rate(rng)])), 'rebalance': rng.range(1, 12)}
    ops = [{'op': 'smooth', 'count': rng.choice([1, 1, 2])}]
    g = 0
    for _ in range(rng.range(2, 5 if tier == 'quick' else 7)):
        g += 1
        k = rng.below(10)
        if k < 6:
            ops.append({'op': 'store', 'time': g, 'xs': [item() for _ in range(rng.range(1, 5))]})
        elif k < 7:
            ops.append({'op': 'lr', 'v': bits(gen_rate(rng))})
        elif k < 8:
            ops.append({'op': 'smooth', 'count': 1})
        else:
            ops.append({'op': 'compact'})
            if rng.chance(1, 2):
                ops.append({'op': 'smooth', 'count': 1})
    # a third of the small cases: the EXACT instance replays every store_batch on its own (decisions compared where margins allow)
    qdec = dim <= (2 if tier == 'quick' else 3) and ln <= 12 and fam != 'huge' and rng.chance(1, 3)
    return {'kind': 'wnet', 'seed': rng.below(1 << 30), 'cfg': cfg, 'data': data, 'ops': ops, 'family': fam, 'dim': dim, 'qdec': qdec}


def gen_adjust(rng, tier):
    dim = rng.range(1, 5)
    if rng.chance(1, 2):
        # dyadic: exact in f64 and in Q
        w = [rng.range(-2 ** 20, 2 ** 20) / 8.0 for _ in range(dim)]
        t = [rng.range(-2 ** 20, 2 ** 20) / 8.0 for _ in range(dim)]
        lr = rng.range(0, 16) / 16.0
        return {'kind': 'adjust', 'w': [bits(x) for x in w], 't': [bits(x) for x in t], 'lr': bits(lr), 'family': 'dyadic', 'dim': dim,
                'exact': True}
    fam = rng.choice(['real', 'wide', 'tiny', 'huge', 'real'])
    w = [gen_value(rng, fam if rng.chance(2, 3) else 'real') for _ in range(dim)]
    t = [gen_value(rng, fam if rng.chance(2, 3) else 'real') for _ in range(dim)]
    lr = gen_rate(rng) if rng.chance(4, 5) else gen_value(rng, 'real')
    return {'kind': 'adjust', 'w': [bits(x) for x in w], 't': [bits(x) for x in t], 'lr': bits(lr), 'family': fam, 'dim': dim, 'exact': False}


def gen_reldist(rng, tier):
    dim = rng.range(1, 5)
    fam = rng.choice(['int', 'real', 'wide', 'tiny', 'huge', 'real'])
    a = [gen_value(rng, fam if rng.chance(2, 3) else 'int') for _ in range(dim)]
    b = [x if rng.chance(1, 4) else gen_value(rng, fam if rng.chance(2, 3) else 'int') for x in a]
    return {'kind': 'reldist', 'a': [bits(x) for x in a], 'b': [bits(x) for x in b], 'family': fam, 'dim': dim}


def generate(rng, tier, n):
    cases = []
    for _ in range(n):
        k = rng.below(20)
        cases.append(gen_wnet(rng, tier) if k < 11 else (gen_adjust(rng, tier) if k < 17 else gen_reldist(rng, tier)))
    return cases


def corpus():
    one, two = bits(1.0), bits(2.0)
    return [
        {'kind': 'adjust', 'w': [one, two], 't': [two, one], 'lr': bits(0.5), 'family': 'dyadic', 'dim': 2, 'exact': True},
        {'kind': 'reldist', 'a': [one, bits(0.0)], 'b': [two, bits(0.0)], 'family': 'int', 'dim': 2},
    ]


# ------------------------------------------------------------------ model term
def it(a):
    return '(mkI %s %s %s [%s])' % (z(a[0]), z(a[1]), z(a[2]), '; '.join(z(w) for w in a[3:]))


def coords(nodes):
    return '[' + '; '.join('(%s, %s)' % (z(n[0]), z(n[1])) for n in nodes) + ']'


def zl(xs):
    return '[' + '; '.join(z(int(x)) for x in xs) + ']'


def all_items(c):
    d = {x[0]: x for x in c['data']}
    for o in c['ops']:
        for x in o.get('xs', []):
            d[x[0]] = x
    return d


def model_term(c, impl):
    if c['kind'] == 'adjust':
        f = 'run_adjustF %s %s %s' % (zl(c['w']), zl(c['t']), z(c['lr']))
        q = 'run_adjustQ %s %s %s' % (zl(c['w']), zl(c['t']), z(c['lr'])) if c.get('exact') else '[]'
        return '(%s, %s)' % (f, q)
    if c['kind'] == 'reldist':
        return 'run_reldistF %s %s' % (zl(c['a']), zl(c['b']))
    if 'panic' in impl or impl.get('created') != 0:
        return None
    tr = impl['trace']
    items = all_items(c)
    t0 = tr[0]
    obs = []
    for n in t0['nodes']:
        obs.append('(((%s, %s), (%s, %s)), %s, %s, (%s, %s), [%s])' % (
            z(n[0]), z(n[1]), z(n[2]), z(n[3]), zl(n[4]), z(int(n[5])), nat(n[6]), nat(n[7]), '; '.join(it(items[i]) for i in n[8])))
    ops = []
    prev = t0
    for k, o in enumerate(c['ops']):
        if k + 1 >= len(tr):
            break
        t = tr[k + 1]
        post = coords((prev if 'panic' in t else t)['nodes'])
        if o['op'] == 'store':
            ops.append('WStore [%s] %s' % ('; '.join(it(x) for x in o['xs']), post))
        elif o['op'] == 'smooth':
            rs = t.get('rounds', [[]] * o['count'])
            ops.append('WSmooth [%s] %s' % ('; '.join(zl(r) for r in rs), post))
        elif o['op'] == 'compact':
            ops.append('WCompact %s' % post)
        else:
            ops.append('WLr %s' % z(o['v']))
        if 'panic' in t:
            break
        prev = t
    cfg = c['cfg']
    args = '%s %s %s %s %s [%s] [%s]' % (nat(c['dim']), z(int(impl['thr'])), z(cfg['df']), z(cfg['lr']), nat(cfg['node_size']),
                                         '; '.join(obs), '; '.join(ops))
    if c.get('qdec'):
        return 'run_wfq ' + args
    return '(run_wf %s, @nil (bool * res (list ((coord * coord) * (nat * list Z)))))' % args


# ------------------------------------------------------------------ compare
def impl_nodes(t):
    return [((n[0], n[1]), (n[2], n[3]), [canon(b) for b in n[4]], canon(n[5]), n[6], n[7], list(n[8]), canon(n[9]), canon(n[10]))
            for n in t['nodes']]


def model_nodes(snap):
    out = []
    for e in snap:
        kx, ky, cc, w, er, info, ms = e
        out.append(((kx, ky), tuple(cc), list(w), er, info[0], info[1], list(info[2]), ms[0], ms[1]))
    return out


FIELDS = ['key', 'node.coordinate', 'weights', 'error', 'total_hits', 'capacity', 'stored ids', 'Node::mse', 'unified_distance(1)']


def compare(c, impl, model):
    if 'panic' in impl:
        return 'implementation panicked: %s' % impl['panic']
    if c['kind'] == 'adjust':
        mf, mq = model
        got = [canon(b) for b in impl['w']]
        if got != list(mf):
            return 'Node::adjust: impl bits %s, float twin %s' % (got, mf)
        if c.get('exact'):
            want = [Fraction(a, b) for a, b in mq]
            have = [frac_of_bits(b) for b in impl['w']]
            if want != have:
                return 'Node::adjust on dyadic input: impl %s, model over Q %s' % (have, want)
        if canon(impl['error']) != 0 or impl['coordinate'] != [0, 0]:
            return 'Node::adjust changed error / coordinate'
        return None
    if c['kind'] == 'reldist':
        if canon(impl['d']) != model:
            return 'relative_distance: impl bits %s, float twin %s' % (canon(impl['d']), model)
        return None
    if impl.get('created') != 0:
        return 'Network::new failed: %s' % impl.get('err')
    tr = impl['trace']
    model, qdec = model
    for k, o in enumerate(c['ops']):
        if k + 1 >= len(tr):
            return 'trace too short'
        t = tr[k + 1]
        if k >= len(model):
            return 'model trace too short'
        m = model[k]
        if 'panic' in t:
            if not (isinstance(m, tuple) and m[0] == 'Panic'):
                return 'call %d (%s): implementation panicked (%s), model did not' % (k + 1, o['op'], t['panic'])
            return None
        if not (isinstance(m, tuple) and m[0] == 'Ok'):
            return 'call %d (%s): model %s, implementation did not panic' % (k + 1, o['op'], m)
        snap, glob = m[1]
        a, b = impl_nodes(t), model_nodes(snap)
        if len(a) != len(b):
            return 'call %d (%s): %d nodes, model %d' % (k + 1, o['op'], len(a), len(b))
        for x, y in zip(a, b):
            for i, name in enumerate(FIELDS):
                if x[i] != y[i]:
                    return 'call %d (%s): node %s: %s impl %s model %s' % (k + 1, o['op'], x[0], name, x[i], y[i])
        if canon(t['mse']) != glob[0]:
            return 'call %d (%s): Network::mse impl %s model %s' % (k + 1, o['op'], canon(t['mse']), glob[0])
        mu = canon(t['max_ud'])
        # max_by(total_cmp): the position of a NaN in the total order depends on its sign bit, which the twin does not track
        if mu != glob[1] and mu != -1 and glob[1] != -1 and not any(x[8] == -1 for x in a):
            return 'call %d (%s): max_unified_distance impl %s model %s' % (k + 1, o['op'], mu, glob[1])
        if o['op'] == 'lr' and int(t['lr']) != int(o['v']):
            return 'call %d: get_learning_rate differs from the value set' % (k + 1)
        if o['op'] == 'store' and t.get('rounds') and [i for r in t['rounds'] for i in r] != [x[0] for x in o['xs']]:
            return 'call %d (store): inputs not stored in batch order' % (k + 1)
        # the exact instance (rationals) replayed this call on its own from the state before it: when every decision had a margin
        # >= 2^-30 its lattice (keys, coordinates, hit counters, stored ids) must be the implementation's
        if k < len(qdec) and qdec[k][0] == 'true':
            q = qdec[k][1]
            if not (isinstance(q, tuple) and q[0] == 'Ok'):
                return 'call %d (%s): exact instance %s, implementation did not panic' % (k + 1, o['op'], q)
            ql = sorted(((e[0], e[1]), tuple(e[2]), e[3][0], tuple(e[3][1])) for e in q[1])
            il = sorted((x[0], x[1], x[4], tuple(x[6])) for x in a)
            if ql != il:
                return ('call %d (%s): decisions of the exact model (best matching units / growth, margins >= 2^-30) differ from the '
                        'implementation: only exact %s only impl %s' % (k + 1, o['op'], [x for x in ql if x not in il][:3],
                                                                         [x for x in il if x not in ql][:3]))
    return None


# ------------------------------------------------------------------ oracle (the property on the implementation's own output)
def input_bits(c):
    out = []
    for x in c['data']:
        out += x[3:]
    for o in c['ops']:
        for x in o.get('xs', []):
            out += x[3:]
    return out


def oracle(c, impl):
    v = []
    if 'panic' in impl:
        return [{'class': 'panic-in-' + c['kind'], 'what': impl['panic']}]
    if c['kind'] == 'adjust':
        if len(impl['w']) != len(c['w']):
            v.append({'class': 'adjust-changed-dimension', 'what': 'Node::adjust changed the number of weights'})
        ins = c['w'] + c['t']
        bounded = all(within(b, SAFE_EXP) for b in ins)
        lr = of_bits(c['lr'])
        finite_in = all(is_finite_bits(b) for b in ins)
        if 0.0 <= lr <= 1.0 and finite_in and not all(is_finite_bits(b) for b in impl['w']):
            if bounded:
                v.append({'class': 'adjust-nonfinite-for-bounded-input',
                          'what': 'adjusted weight not finite although |w|, |t| <= 2^1021 and 0 <= rate <= 1'})
            else:
                v.append({'class': FINDING_BIG, 'what': 'Node::adjust: finite weight and target beyond 2^1021, rate in [0, 1]: adjusted weight not finite'})
        return v
    if c['kind'] == 'reldist':
        return v
    if impl.get('created') != 0:
        return [{'class': 'network-creation-failed', 'what': str(impl.get('err'))}]
    ins = input_bits(c)
    bounded = all(within(b, NET_SAFE_EXP) for b in ins)
    ops = [None] + c['ops']
    for k, t in enumerate(impl['trace']):
        name = 'new' if k == 0 else ops[k]['op']
        if 'panic' in t:
            v.append({'class': 'panic-in-' + name, 'what': t['panic']})
            break
        if t['dimension'] != c['dim'] or any(len(n[4]) != c['dim'] for n in t['nodes']):
            v.append({'class': 'weight-dimension-changed-after-' + name, 'what': 'a node has weights of another dimension'})
        if t['state_bad']:
            v.append({'class': 'network-state-disagrees-after-' + name, 'what': 'NetworkState / find / get_nodes disagree with iter()'})
        nonfin = 0
        neg = 0
        for n in t['nodes']:
            nonfin += sum(1 for b in n[4] if not is_finite_bits(b))
            for b in (n[5], n[9], n[10]):
                if not is_finite_bits(b):
                    nonfin += 1
                elif int(b) & SIGN and int(b) != SIGN:
                    neg += 1
        for b in (t['mse'], t['max_ud']):
            if not is_finite_bits(b):
                nonfin += 1
            elif int(b) & SIGN and int(b) != SIGN:
                neg += 1
        if nonfin:
            if bounded:
                v.append({'class': 'nonfinite-weight-or-measure-after-' + name,
                          'what': '%d non-finite weights / errors / measures although every input is within 2^1015' % nonfin})
            else:
                v.append({'class': FINDING_BIG, 'what': '%d non-finite weights / errors / measures after %s; an input magnitude exceeds 2^1015'
                                                         % (nonfin, name)})
        if neg:
            v.append({'class': 'negative-error-or-measure-after-' + name, 'what': 'node.error / mse / unified distance below zero'})
    return v


def nontrivial_key(c, impl):
    if 'panic' in impl:
        return None
    if c['kind'] != 'wnet':
        return (c['kind'], tuple(c.get('w', c.get('a'))), tuple(c.get('t', c.get('b'))), c.get('lr'))
    if impl.get('created') != 0:
        return None
    if any(o['op'] in ('store', 'compact') for o in c['ops']):
        return ('wnet', c['seed'], len(c['data']))
    return None


def classify(c, impl):
    labs = ['w:kind=' + c['kind'], 'w:family=' + c['family'], 'w:dim=%d' % c['dim']]
    if 'panic' in impl or c['kind'] != 'wnet' or impl.get('created') != 0:
        return labs
    tr = impl['trace']
    for k, o in enumerate(c['ops']):
        if k + 1 >= len(tr) or 'panic' in tr[k + 1]:
            break
        d = len(tr[k + 1]['nodes']) - len(tr[k]['nodes'])
        if o['op'] == 'store':
            labs.append('w:store-grew' if d > 0 else 'w:store-kept')
        elif o['op'] == 'compact':
            labs.append('w:compact-shrank' if d < 0 else 'w:compact-kept')
        else:
            labs.append('w:' + o['op'])
    if c.get('qdec'):
        labs.append('w:exact-decisions-replayed')
    last = [t for t in tr if 'panic' not in t][-1]
    if any(not is_finite_bits(b) for n in last['nodes'] for b in n[4]):
        labs.append('w:nonfinite-weights')
    return sorted(set(labs))


def shrink_candidates(c):
    if c['kind'] != 'wnet':
        for key in ('w', 'a'):
            if key in c and len(c[key]) > 1:
                d = dict(c)
                other = 't' if key == 'w' else 'b'
                d[key] = c[key][:-1]
                d[other] = c[other][:-1]
                d['dim'] = c['dim'] - 1
                yield d
        return
    ops = c['ops']
    for k in range(len(ops) - 1, 0, -1):
        d = dict(c)
        d['ops'] = ops[:k] + ops[k + 1:]
        yield d
    for k in range(len(ops) - 1, 0, -1):
        if ops[k]['op'] == 'store' and len(ops[k]['xs']) > 1:
            d = dict(c)
            d['ops'] = ops[:k] + [dict(ops[k], xs=ops[k]['xs'][:-1])] + ops[k + 1:]
            yield d
