"""C10 — problem validation is total and matches its documented rules (plugin for tools/verif.py).

Three streams of cases:
  op='doc'  reduced documents (jobs, vehicles, profiles, resources; coordinate locations; no relations/objectives): the Coq model
            (Model/Validation.v: validate, read) and the Coq spec (Spec/Rules.v) are evaluated with vm_compute and compared with the
            real `ValidationContext::validate` / `String::read_pragmatic`; the python copy of the documented rules is the oracle.
  op='full' documents that also carry relations / objectives / index locations + matrices: python reference only (no Coq term).
  op='raw'  malformed texts: E0000 / E0001 expected, never a panic.
"""
import datetime, json, copy, os, sys
from coqterm import z, zlist, lst, string, opt

sys.path.insert(0, os.path.dirname(os.path.dirname(os.path.abspath(__file__))))
import rules2coq  # noqa

ID = 'C10'
HARNESS = 'c10'
COQ_IMPORTS = 'From VRP Require Import Base.Tac Model.Validation Spec.Rules.\nFrom Coq Require Import String.'
MODEL_TARGETS = ['theories/Model/Validation.vo', 'theories/Spec/Rules.vo']
SIZES = {'quick': 2400, 'thorough': 30000, 'search': 6000}
SHARD = 100
SUBSTREAMS = ['c10_ext']     # extended documents (relations, objectives, matrices, ...): verdict from the Coq model, see c10_ext.py
RULE = ('cases: pragmatic problem documents built from a valid base (1-3 jobs of every task kind, 1-2 vehicle types with shifts, '
        'breaks of all four kinds, reloads, resources) with 0-2 targeted deviations next to a rule boundary (touching / overlapping / '
        'inverted / unparsable windows, arities, duplicate ids, demand sums, resources, profiles, ...); ~35% stay valid. '
        'A second stream adds relations / objectives / index locations + matrices (python reference), a third one malformed texts. '
        'non-trivial = distinct (outcome, reported codes, deviations applied).')
TRUSTED = ['RFC 3339 parsing (time crate) is an oracle: every time string travels with the parse result the generator assigns to it; '
           'the generator only emits strings whose status is unambiguous (validated each run: a wrong mark shows up as a disagreement)',
           'serde deserialisation of the generated JSON into format/problem/model.rs types (the reduced document of the model is mapped to JSON by tools/props/c10.py::to_json)',
           'create_transport_costs on supplied matrices is modelled (Model/Validation.v run_transport) and compared on a separate stream; matrix timestamps are not in the Coq model (python reference: an unparsable timestamp is E0002)',
           'main stream op=full: rules of the relation / objective groups and E1502/E1503 against a python reference (c10_full.py); the Coq verdict for these groups comes from the sub-stream c10_ext',
           'tools/rules2coq.py (regex / brace-matching extraction of the rule tables, fingerprints and helper lists from validation/*.rs and the error index page; message texts, comments and white space are not part of a fingerprint)']
ASSUMPTIONS = ['documents of the proved fragment: no relations, objectives, clustering, recharges, skills, limits; coordinate locations, all distinct; integer-valued numbers; |demand| small (no i32 overflow)',
               'adopted readings R1-R10 of the documentation page (Spec/Rules.v header)']

BASE = 1593820800   # 2020-07-04T00:00:00Z
FAR = 7274016000    # 2200-07-04T00:00:00Z
H = 3600

# K1-K3 (windows(2).any / E1103 skipping replacement+service tasks / check_e1303 parse_time panic) were repaired in /repo
# (c324ed4, d5aa3e7, 89050ae), K4 (unparsable start.latest), K5 (optional offset break that is not a pair) and K10 (no profile, no
# matrix) by d67b161, 7653bff, 11fbd19: no longer known classes, a recurrence is reported as a violation.
# K6 (empty capacity vector) and K8 (E1102 on empty demand vectors) were repaired in /repo (43cb71c, 302755e): no longer known classes.
KNAMES = {7: 'more-than-8-load-dimensions-unchecked-panics',
          9: 'fleet-without-any-vehicle-panics-in-reader',
          # G2: found while the reader behind validation was modelled step by step (sub-stream c10_ext); the base model got the step too
          22: 'required-breaks-of-mixed-kinds-or-intersecting-spans-rejected-as-E0002'}


# ------------------------------------------------------------------ time strings
def T(sec):
    """a valid time string (seconds relative to BASE) with its value"""
    v = BASE + int(sec)
    s = datetime.datetime.fromtimestamp(v, datetime.timezone.utc).strftime('%Y-%m-%dT%H:%M:%SZ')
    return [s, v]


def T_alt(sec):
    """same instant written with a +02:00 offset (different text, same value)"""
    v = BASE + int(sec)
    tz = datetime.timezone(datetime.timedelta(hours=2))
    s = datetime.datetime.fromtimestamp(v, tz).strftime('%Y-%m-%dT%H:%M:%S+02:00')
    return [s, v]


BAD_TIMES = ['not-a-date', '2020-07-04', '2020-07-04T10:00:00', '2020-13-40T00:00:00Z', '', '04/07/2020 10:00', '1593820800']


def BAD(rng):
    return [rng.choice(BAD_TIMES), None]


# ------------------------------------------------------------------ documents
def mk_place(rng, times='rand', lo=0, hi=20):
    if times == 'rand':
        k = rng.below(4)
        if k <= 1:
            times = None
        elif k == 2:
            a = rng.range(lo, hi - 2)
            times = [[T(a * H), T((a + rng.range(0, 2)) * H)]]
        else:
            a = rng.range(lo, hi - 6)
            b = a + rng.range(1, 2)
            c = b + rng.range(1, 2)
            w = [[T(a * H), T(b * H)], [T(c * H), T((c + 1) * H)]]
            times = w if rng.chance(1, 2) else [w[1], w[0]]
    return {'duration': rng.choice([0, 60, 300, 600]), 'times': times}


def mk_task(rng, ndim, demand=True, places=None):
    n = places if places is not None else (1 if rng.chance(3, 4) else 2)
    return {'places': [mk_place(rng) for _ in range(n)],
            'demand': [rng.range(0, 3) for _ in range(ndim)] if demand else None}


def mk_job(rng, idx, ndim):
    j = {'id': 'job%d' % idx, 'pickups': None, 'deliveries': None, 'replacements': None, 'services': None}
    k = rng.below(8)
    if k <= 2:
        j['deliveries'] = [mk_task(rng, ndim)]
    elif k == 3:
        j['pickups'] = [mk_task(rng, ndim)]
    elif k in (4, 5):
        np_, nd = rng.range(1, 2), rng.range(1, 2)
        ps = [mk_task(rng, ndim) for _ in range(np_)]
        ds = [mk_task(rng, ndim) for _ in range(nd)]
        # balance: give the last delivery what is missing (dimension-wise), shuffle pickups up when negative
        for i in range(ndim):
            sp = sum(t['demand'][i] for t in ps)
            sd = sum(t['demand'][i] for t in ds[:-1])
            if sp < sd:
                ps[0]['demand'][i] += sd - sp
                sp = sd
            ds[-1]['demand'][i] = sp - sd
        j['pickups'], j['deliveries'] = ps, ds
    elif k == 6:
        j['services'] = [mk_task(rng, ndim, demand=False)]
    else:
        j['replacements'] = [mk_task(rng, ndim)]
    if rng.chance(1, 8):
        j['services'] = (j['services'] or []) + [mk_task(rng, ndim, demand=False)]
    return j


def mk_shift(rng, lo, hi, resources, with_end=True):
    """a valid shift inside [lo, hi] hours"""
    s = {'earliest': T(lo * H), 'latest': None, 'end': T(hi * H) if with_end else None, 'breaks': None, 'reloads': None}
    k = rng.below(3)
    if k == 1:
        s['latest'] = T(lo * H)
    elif k == 2:
        s['latest'] = T((lo + 1) * H)
    if rng.chance(1, 2):
        bs = []
        kind = rng.below(5)
        mid = (lo + hi) // 2
        if kind == 0:
            bs.append(['otw', [T((lo + 1) * H), T(mid * H)]])
        elif kind == 1:
            bs.append(['rexact', T((lo + 1) * H), T((lo + 2) * H), 600])
        elif kind == 2:
            bs.append(['roff', 3600, 7200, 600])
            s['latest'] = T(lo * H)
        elif kind == 3:
            bs.append(['ooff', [3600, 7200]])
            s['latest'] = T(lo * H)
        else:
            bs.append(['otw', [T((lo + 1) * H), T((lo + 2) * H)]])
            bs.append(['rexact', T((lo + 3) * H), T((lo + 3) * H + 1200), 600])
        s['breaks'] = bs if bs else []
    elif rng.chance(1, 10):
        s['breaks'] = []
    if rng.chance(1, 3):
        rs = []
        for _ in range(rng.range(1, 2)):
            r = {'times': None, 'resource': None}
            if rng.chance(1, 2):
                a = rng.range(lo, hi - 1)
                r['times'] = [[T(a * H), T((a + 1) * H)]]
            if resources and rng.chance(1, 2):
                r['resource'] = rng.choice(resources)
            rs.append(r)
        s['reloads'] = rs
    return s


def mk_vehicle(rng, idx, ndim, profiles, resources):
    nids = rng.range(1, 2)
    v = {'type_id': 'type%d' % idx, 'vehicle_ids': ['v%d_%d' % (idx, k) for k in range(nids)], 'profile': rng.choice(profiles),
         'cost_distance': rng.choice([1, 1, 2, 0]), 'cost_time': 1, 'capacity': [10] * ndim, 'shifts': []}
    if v['cost_distance'] == 0 and rng.chance(1, 2):
        v['cost_distance'], v['cost_time'] = 1, 0
    if rng.chance(3, 4):
        v['shifts'] = [mk_shift(rng, 0, 22, resources, with_end=rng.chance(4, 5))]
    else:
        v['shifts'] = [mk_shift(rng, 0, 9, resources), mk_shift(rng, 10, 22, resources, with_end=rng.chance(4, 5))]
        if rng.chance(1, 2):
            v['shifts'].reverse()
    return v


def mk_doc(rng):
    ndim = 1 if rng.chance(2, 3) else 2
    profiles = ['car'] if rng.chance(3, 4) else ['car', 'truck']
    resources = None if rng.chance(2, 3) else ['res1', 'res2'][:rng.range(1, 2)]
    d = {'jobs': [mk_job(rng, i, ndim) for i in range(rng.range(1, 3))],
         'vehicles': [mk_vehicle(rng, i, ndim, profiles, resources or []) for i in range(rng.range(1, 2))],
         'profiles': profiles, 'resources': resources, 'ndim': ndim}
    return d


# ------------------------------------------------------------------ deviations (each returns a label or None when not applicable)
def _pd_tasks(d):
    return [t for j in d['jobs'] for k in ('pickups', 'deliveries') for t in (j[k] or [])]


def _rs_tasks(d):
    return [t for j in d['jobs'] for k in ('replacements', 'services') for t in (j[k] or [])]


def _shifts(d):
    return [(v, s) for v in d['vehicles'] for s in v['shifts']]


def _pick(rng, xs):
    return rng.choice(xs) if xs else None


def dev_dup_job_id(rng, d):
    if len(d['jobs']) < 2:
        d['jobs'].append(mk_job(rng, 7, d['ndim']))
    d['jobs'][-1]['id'] = d['jobs'][0]['id']
    return 'dup-job-id'


def dev_reserved_id(rng, d):
    rng.choice(d['jobs'])['id'] = rng.choice(['departure', 'arrival', 'break', 'reload', 'recharge', 'Break'])
    return 'reserved-or-near-reserved-id'


def dev_demand_presence(rng, d):
    j = rng.choice(d['jobs'])
    for k in rng.shuffle(['pickups', 'deliveries', 'replacements', 'services']):
        if j[k]:
            t = rng.choice(j[k])
            t['demand'] = [1] * d['ndim'] if k == 'services' else None
            return 'demand-presence-' + k
    return None


def dev_unbalance(rng, d):
    js = [j for j in d['jobs'] if j['pickups'] and j['deliveries']]
    if not js:
        j = rng.choice(d['jobs'])
        j['pickups'] = [mk_task(rng, d['ndim'])]
        j['deliveries'] = [copy.deepcopy(j['pickups'][0])]
        js = [j]
    j = rng.choice(js)
    t = rng.choice(j['pickups'] + j['deliveries'])
    if t['demand'] is None:
        return None
    k = rng.below(3)
    if k == 0 and t['demand']:
        t['demand'][rng.below(len(t['demand']))] += rng.choice([1, 2])
        return 'pd-sum-unbalanced'
    if k == 1:
        t['demand'] = t['demand'] + [0]           # extra zero dimension: still balanced
        return 'pd-extra-zero-dimension'
    t['demand'] = t['demand'] + [1]               # extra non-zero dimension on one side only
    return 'pd-extra-dimension'


def _set_times(rng, d, times, label, tasks):
    t = _pick(rng, tasks)
    if t is None or not t['places']:
        return None
    rng.choice(t['places'])['times'] = times
    return label


def window_variants(rng):
    a = rng.range(1, 10)
    return [
        ('tw-inverted', [[T((a + 1) * H), T(a * H)]]),
        ('tw-inverted-by-1s', [[T(a * H + 1), T(a * H)]]),
        ('tw-zero-length', [[T(a * H), T(a * H)]]),
        ('tw-touching', [[T(a * H), T((a + 1) * H)], [T((a + 1) * H), T((a + 2) * H)]]),
        ('tw-gap-1s', [[T(a * H), T((a + 1) * H)], [T((a + 1) * H + 1), T((a + 2) * H)]]),
        ('tw-overlap', [[T(a * H), T((a + 2) * H)], [T((a + 1) * H), T((a + 3) * H)]]),
        ('tw-overlap-reversed-order', [[T((a + 1) * H), T((a + 3) * H)], [T(a * H), T((a + 2) * H)]]),
        ('tw-nested', [[T(a * H), T((a + 4) * H)], [T((a + 1) * H), T((a + 2) * H)]]),
        ('tw-second-inverted', [[T(a * H), T((a + 1) * H)], [T((a + 3) * H), T((a + 2) * H)]]),
        ('tw-same-start', [[T(a * H), T(a * H)], [T(a * H), T((a + 1) * H)]]),
        ('tw-arity-1', [[T(a * H)]]),
        ('tw-arity-3', [[T(a * H), T((a + 1) * H), T((a + 2) * H)]]),
        ('tw-arity-0', [[]]),
        ('tw-unparsable-start', [[BAD(rng), T(a * H)]]),
        ('tw-unparsable-end', [[T(a * H), BAD(rng)]]),
        ('tw-second-unparsable', [[T(a * H), T((a + 1) * H)], [T((a + 2) * H), BAD(rng)]]),
        ('tw-empty-list', []),
        ('tw-alt-offset-text', [[T_alt(a * H), T((a + 1) * H)]]),
    ]


def dev_pd_times(rng, d):
    lab, tw = rng.choice(window_variants(rng))
    return _set_times(rng, d, tw, 'pd-' + lab, _pd_tasks(d))


def dev_rs_times(rng, d):
    if not _rs_tasks(d):
        rng.choice(d['jobs'])['services'] = [mk_task(rng, d['ndim'], demand=False)]
    lab, tw = rng.choice(window_variants(rng))
    return _set_times(rng, d, tw, 'rs-' + lab, _rs_tasks(d))


def three_windows(rng):
    a = rng.range(1, 8)
    ok = [[T(a * H), T((a + 1) * H)], [T((a + 2) * H), T((a + 3) * H)], [T((a + 4) * H), T((a + 5) * H)]]
    k = rng.below(6)
    if k == 0:
        return 'three-valid', ok
    if k == 1:
        ok[1] = [T((a + 1) * H - 60), T((a + 3) * H)]       # first two overlap, last pair fine
        return 'three-first-two-overlap', ok
    if k == 2:
        ok[2] = [T((a + 3) * H), T((a + 5) * H)]            # last two touch, first pair fine
        return 'three-last-two-touch', ok
    if k == 3:
        ok[0] = [T((a + 1) * H), T(a * H)]                  # first inverted
        return 'three-first-inverted', ok
    if k == 4:
        return 'three-all-overlap', [[T(a * H), T((a + 5) * H)], [T((a + 1) * H), T((a + 6) * H)], [T((a + 2) * H), T((a + 7) * H)]]
    ok[rng.below(3)][rng.below(2)] = BAD(rng)
    return 'three-one-unparsable', ok


def dev_pd_three(rng, d):
    lab, tw = three_windows(rng)
    if rng.chance(1, 2):
        tw = rng.shuffle(tw)
    return _set_times(rng, d, tw, 'pd-' + lab, _pd_tasks(d))


def dev_empty_job(rng, d):
    j = rng.choice(d['jobs'])
    for k in ('pickups', 'deliveries', 'replacements', 'services'):
        j[k] = None
    if rng.chance(1, 2):
        j[rng.choice(['pickups', 'deliveries', 'services'])] = []
    return 'empty-job'


def dev_empty_task_list(rng, d):
    j = rng.choice(d['jobs'])
    ks = [k for k in ('pickups', 'deliveries', 'replacements', 'services') if j[k] is None]
    if not ks:
        return None
    j[rng.choice(ks)] = []
    return 'extra-empty-task-list'


def dev_duration(rng, d):
    ts = _pd_tasks(d) + _rs_tasks(d)
    t = _pick(rng, [t for t in ts if t['places']])
    if t is None:
        return None
    v = rng.choice([-1, -600, 0])
    rng.choice(t['places'])['duration'] = v
    return 'duration-%d' % v


def dev_neg_demand(rng, d):
    t = _pick(rng, [t for t in _pd_tasks(d) + _rs_tasks(d) if t['demand']])
    if t is None:
        return None
    t['demand'][rng.below(len(t['demand']))] = rng.choice([-1, -5, 0])
    return 'demand-negative-or-zero'


def dev_empty_vectors(rng, d):
    j = rng.choice(d['jobs'])
    j['pickups'] = [mk_task(rng, 1)]
    j['deliveries'] = [mk_task(rng, 1)]
    for t in j['pickups'] + j['deliveries']:
        t['demand'] = []
    return 'pd-empty-demand-vectors'


def dev_over8(rng, d):
    if rng.chance(1, 2):
        t = _pick(rng, [t for t in _pd_tasks(d) + _rs_tasks(d) if t['demand'] is not None])
        if t is None:
            return None
        n = rng.choice([8, 9, 9, 12])
        t['demand'] = [1] * n
        for j in d['jobs']:     # keep pickups/deliveries balanced so that only the dimension count matters
            if j['pickups'] and j['deliveries'] and any(x is t for x in j['pickups'] + j['deliveries']):
                other = j['deliveries'] if any(x is t for x in j['pickups']) else j['pickups']
                for o in other:
                    o['demand'] = [0] * n
                other[0]['demand'] = [1] * n
                mine = j['pickups'] if other is j['deliveries'] else j['deliveries']
                for o in mine:
                    if o is not t:
                        o['demand'] = [0] * n
        return 'demand-%d-dims' % n
    n = rng.choice([8, 9, 10])
    rng.choice(d['vehicles'])['capacity'] = [10] * n
    return 'capacity-%d-dims' % n


def dev_capacity_empty(rng, d):
    v = rng.choice(d['vehicles'])
    v['capacity'] = []
    if rng.chance(1, 4):
        v['vehicle_ids'] = []
    return 'capacity-empty'


def dev_dup_type(rng, d):
    if len(d['vehicles']) < 2:
        d['vehicles'].append(mk_vehicle(rng, 5, d['ndim'], d['profiles'], d['resources'] or []))
    k = rng.below(3)
    if k == 0:
        d['vehicles'][1]['type_id'] = d['vehicles'][0]['type_id']
        return 'dup-type-id'
    if k == 1:
        d['vehicles'][1]['vehicle_ids'] = d['vehicles'][1]['vehicle_ids'] + [d['vehicles'][0]['vehicle_ids'][0]] if d['vehicles'][0]['vehicle_ids'] else ['x', 'x']
        return 'dup-vehicle-id-across-types'
    v = d['vehicles'][0]
    v['vehicle_ids'] = v['vehicle_ids'] + [v['vehicle_ids'][0]] if v['vehicle_ids'] else ['x', 'x']
    return 'dup-vehicle-id-within-type'


def _strip_offsets(s):
    if s['breaks']:
        s['breaks'] = [b for b in s['breaks'] if b[0] not in ('roff', 'ooff')]


def dev_shift_times(rng, d):
    v = rng.choice(d['vehicles'])
    k = rng.below(9)
    if k == 0 and v['shifts']:
        s = rng.choice(v['shifts'])
        if s['end'] is None:
            s['end'] = T(22 * H)
        s['end'] = [T(0)[0], s['earliest'][1] - rng.choice([1, 3600])] if s['earliest'][1] else s['end']
        s['end'] = T(s['end'][1] - BASE) if s['end'][1] is not None else s['end']
        s['breaks'] = None
        s['reloads'] = None
        return 'shift-end-before-start'
    if k == 1 and v['shifts']:
        s = rng.choice(v['shifts'])
        s['earliest'] = BAD(rng)
        _strip_offsets(s)
        return 'shift-start-unparsable'
    if k == 2 and v['shifts']:
        s = rng.choice(v['shifts'])
        s['end'] = BAD(rng)
        return 'shift-end-unparsable'
    if k == 3:
        v['shifts'] = [mk_shift(rng, 0, 10, []), mk_shift(rng, rng.choice([10, 9, 5]), 22, [])]
        return 'two-shifts-touch-or-overlap'
    if k == 4:
        v['shifts'] = []
        return 'no-shifts'
    if k == 5:
        lo = rng.choice([0, 2])
        v['shifts'] = [mk_shift(rng, 0, 5, []), mk_shift(rng, 6, 10, []), mk_shift(rng, 11 - lo * 3, 20, [])]
        return 'three-shifts'
    if k == 6 and v['shifts']:
        s = rng.choice(v['shifts'])
        s['end'] = T(s['earliest'][1] - BASE) if s['earliest'][1] is not None else s['end']
        s['breaks'] = None
        s['reloads'] = None
        return 'shift-zero-length'
    if k == 7:
        v['shifts'] = [mk_shift(rng, 0, 10, [], with_end=False), mk_shift(rng, rng.choice([0, 11]), 22, [])]
        return 'open-shift-plus-shift'
    if v['shifts']:
        s = rng.choice(v['shifts'])
        s['latest'] = rng.choice([BAD(rng), T(-H), T_alt(s['earliest'][1] - BASE) if s['earliest'][1] is not None else None])
        if s['latest'] is not None and s['latest'][1] is None:
            pass
        return 'shift-start-latest-variant'
    return None


def dev_breaks(rng, d):
    vs = [(v, s) for v, s in _shifts(d) if s['earliest'][1] is not None]
    if not vs:
        return None
    v, s = rng.choice(vs)
    lo = (s['earliest'][1] - BASE) // H
    hi = ((s['end'][1] - BASE) // H) if (s['end'] and s['end'][1] is not None) else lo + 20
    k = rng.below(15)
    if k == 14:
        s['breaks'] = [['otw', [T((lo + 1) * H), T((lo + 2) * H)]], ['otw', [T((hi + 1) * H), T((hi + 2) * H)]]]
        if rng.chance(1, 2):
            s['breaks'].reverse()
        return 'one-break-inside-one-after-shift'
    if k == 0:
        s['breaks'] = [['otw', [T((hi + 1) * H), T((hi + 2) * H)]]]
        return 'break-after-shift'
    if k == 1:
        s['breaks'] = [['otw', [T(hi * H), T((hi + 2) * H)]]]
        return 'break-touches-shift-end'
    if k == 2:
        s['breaks'] = [['otw', [T((lo - 3) * H), T(lo * H - 1)]]]
        return 'break-ends-1s-before-shift'
    if k == 3:
        s['breaks'] = [['otw', [T((lo + 2) * H), T((lo + 1) * H)]]]
        return 'break-inverted'
    if k == 4:
        s['breaks'] = [['otw', [T((lo + 1) * H), T((lo + 3) * H)]], ['otw', [T((lo + 2) * H), T((lo + 4) * H)]]]
        return 'two-breaks-overlap'
    if k == 5:
        s['breaks'] = [['otw', [T((lo + 1) * H), T((lo + 2) * H)]], ['rexact', T((lo + 2) * H - 300), T((lo + 3) * H), 0]]
        return 'break-and-required-overlap'
    if k == 6:
        s['breaks'] = [['rexact', T((lo + 1) * H), T((lo + 2) * H), 600], ['otw', [T((lo + 2) * H + 600), T((lo + 3) * H)]]]
        return 'required-plus-duration-touches-next'
    if k == 7:
        s['breaks'] = [['otw', rng.choice([[T((lo + 1) * H)], [T((lo + 1) * H), T((lo + 2) * H), T((lo + 3) * H)], []])]]
        return 'break-window-arity'
    if k == 8:
        s['breaks'] = [['otw', [T((lo + 1) * H), BAD(rng)]]]
        return 'break-unparsable'
    if k == 9:
        s['breaks'] = [['rexact', rng.choice([BAD(rng), T((lo + 1) * H)]), BAD(rng), 600]]
        return 'required-exact-unparsable'
    if k == 10:
        s['breaks'] = [rng.choice([['roff', 3600, 7200, 600], ['ooff', [3600, 7200]]])]
        s['latest'] = rng.choice([None, T((lo + 1) * H), T_alt(lo * H), T(lo * H)])
        return 'offset-break-rescheduling-variant'
    if k == 11:
        s['breaks'] = [['roff', (hi - lo + 1) * H, (hi - lo + 2) * H, 600]]
        s['latest'] = T(lo * H)
        return 'offset-break-after-shift'
    if k == 12:
        s['breaks'] = [['ooff', rng.choice([[3600], [3600, 7200, 9000]])]]
        s['latest'] = T(lo * H)
        return 'offset-list-arity'
    a = lo + 1
    s['breaks'] = [['otw', [T(a * H), T((a + 1) * H)]], ['otw', [T((a + 1) * H - 60), T((a + 2) * H)]],
                   ['otw', [T((a + 3) * H), T((a + 4) * H)]]]
    if rng.chance(1, 2):
        s['breaks'][1] = ['otw', [T((a + 1) * H + 60), T((a + 2) * H)]]
    return 'three-breaks'


def dev_offset_bad_start(rng, d):
    vs = _shifts(d)
    if not vs:
        return None
    v, s = rng.choice(vs)
    s['earliest'] = BAD(rng)
    s['latest'] = rng.choice([None, T(0)])
    s['breaks'] = [['roff', 3600, 7200, 600]]
    return 'required-offset-break-unparsable-start'


def dev_reloads(rng, d):
    vs = [(v, s) for v, s in _shifts(d) if s['earliest'][1] is not None]
    if not vs:
        return None
    v, s = rng.choice(vs)
    lo = (s['earliest'][1] - BASE) // H
    hi = ((s['end'][1] - BASE) // H) if (s['end'] and s['end'][1] is not None) else lo + 20
    k = rng.below(9)
    r = {'times': None, 'resource': None}
    if k == 0:
        r['times'] = [[T((hi + 1) * H), T((hi + 2) * H)]]
        lab = 'reload-after-shift'
    elif k == 1:
        r['times'] = [[T((lo + 2) * H), T((lo + 1) * H)]]
        lab = 'reload-inverted'
    elif k == 2:
        r['times'] = [[T((lo + 1) * H), T((lo + 3) * H)], [T((lo + 2) * H), T((lo + 4) * H)]]
        lab = 'reload-windows-overlap-allowed'
    elif k == 3:
        r['times'] = [[T((lo + 1) * H), BAD(rng)]]
        lab = 'reload-unparsable'
    elif k == 4:
        r['times'] = [[T((lo + 1) * H)]]
        lab = 'reload-arity'
    elif k == 5:
        r['resource'] = 'nores'
        lab = 'reload-unknown-resource'
        if rng.chance(1, 2):          # a second reload with a known resource next to it
            d['resources'] = d['resources'] or ['res1']
            other = {'times': None, 'resource': d['resources'][0]}
            s['reloads'] = [other, r] if rng.chance(1, 2) else [r, other]
            return 'reload-known-and-unknown-resource'
    elif k == 6:
        d['resources'] = ['res1', 'res1']
        r['resource'] = 'res1'
        lab = 'dup-resources'
    elif k == 7:
        r['times'] = [[T((lo + 1) * H), T((lo + 2) * H)], [T((lo + 3) * H), T((lo + 2) * H + 1800)], [T((lo + 5) * H), T((lo + 6) * H)]]
        lab = 'reload-three-windows-one-inverted'
    else:
        r['times'] = []
        lab = 'reload-empty-times'
    s['reloads'] = (s['reloads'] or []) + [r] if rng.chance(1, 2) else [r]
    return lab


def dev_costs(rng, d):
    v = rng.choice(d['vehicles'])
    v['cost_distance'], v['cost_time'] = rng.choice([(0, 0), (0, 0), (0, 1), (1, 0)])
    return 'costs-%d-%d' % (v['cost_distance'], v['cost_time'])


def dev_profiles(rng, d):
    k = rng.below(4)
    if k == 0:
        rng.choice(d['vehicles'])['profile'] = 'bike'
        return 'unknown-profile'
    if k == 1:
        d['profiles'] = d['profiles'] + [d['profiles'][0]]
        return 'dup-profile'
    if k == 2:
        d['profiles'] = []
        return 'no-profiles'
    d['vehicles'] = []
    return 'no-vehicles'


def dev_required_breaks(rng, d):
    vs = [(v, s) for v, s in _shifts(d) if s['earliest'][1] is not None]
    if not vs:
        return None
    v, s = rng.choice(vs)
    lo = (s['earliest'][1] - BASE) // H
    k = rng.below(5)
    if k == 0:
        s['breaks'] = [['rexact', T((lo + 1) * H), T((lo + 2) * H), 600], ['roff', 4 * H, 5 * H, 600]]
        lab = 'exact-and-offset'
    elif k == 1:
        s['breaks'] = [['rexact', T((lo + 1) * H), T((lo + 4) * H), -2 * H], ['rexact', T((lo + 3) * H), T((lo + 5) * H), 0]]
        lab = 'negative-duration-spans-intersect'
    elif k == 2:
        s['breaks'] = [['rexact', T((lo + 3) * H), T((lo + 4) * H), 600], ['rexact', T((lo + 1) * H), T((lo + 2) * H), 600]]
        lab = 'two-exact-unsorted'
    elif k == 3:
        s['breaks'] = [['roff', 1 * H, 2 * H, 600], ['roff', 3 * H, 4 * H, 0]]
        lab = 'two-offset'
    else:
        s['breaks'] = [['roff', 1 * H, 2 * H, 600], ['otw', [T((lo + 5) * H), T((lo + 6) * H)]], ['rexact', T((lo + 8) * H), T((lo + 9) * H), 0]]
        lab = 'offset-optional-exact'
    if any(b[0] in ('roff', 'ooff') for b in s['breaks']):
        s['latest'] = s['earliest']
    return 'required-breaks-' + lab


DEVIATIONS = [dev_dup_job_id, dev_reserved_id, dev_demand_presence, dev_unbalance, dev_unbalance, dev_pd_times, dev_pd_times, dev_pd_times,
              dev_pd_times, dev_rs_times, dev_rs_times, dev_pd_three, dev_pd_three, dev_offset_bad_start, dev_empty_job, dev_empty_task_list, dev_duration, dev_neg_demand, dev_dup_type, dev_shift_times,
              dev_shift_times, dev_shift_times, dev_breaks, dev_breaks, dev_breaks, dev_reloads, dev_reloads, dev_costs, dev_profiles]
# deviations that (mostly) land in a known deviation class: kept, but rarer
KNOWN_DEVIATIONS = [dev_empty_vectors, dev_over8, dev_capacity_empty, dev_required_breaks]


def gen_doc_case(rng):
    for _ in range(50):
        d = mk_doc(rng)
        labs = []
        r = rng.below(100)
        n = 0 if r < 33 else (1 if r < 82 else 2)
        for _ in range(n):
            try:
                lab = rng.choice(KNOWN_DEVIATIONS if rng.chance(1, 7) else DEVIATIONS)(rng, d)
            except (IndexError, KeyError, TypeError):      # the deviation does not apply to this document (e.g. no vehicle left)
                lab = None
            if lab:
                labs.append(lab)
        if len(py_known(d)) <= 1:
            return {'op': 'doc', 'doc': d, 'labels': labs, 'problem': to_json(d), 'matrices': None}
    d = mk_doc(rng)
    return {'op': 'doc', 'doc': d, 'labels': [], 'problem': to_json(d), 'matrices': None}


# ------------------------------------------------------------------ JSON
def to_json(d):
    cnt = [0]

    def loc():
        cnt[0] += 1
        return {'lat': float(cnt[0]), 'lng': 0.0}

    def times(tws):
        return [[t[0] for t in w] for w in tws]

    def place(p):
        o = {'location': loc(), 'duration': p['duration']}
        if p['times'] is not None:
            o['times'] = times(p['times'])
        return o

    def task(t):
        o = {'places': [place(p) for p in t['places']]}
        if t['demand'] is not None:
            o['demand'] = t['demand']
        if t.get('order') is not None:
            o['order'] = t['order']
        return o

    def job(j):
        o = {'id': j['id']}
        for k in ('pickups', 'deliveries', 'replacements', 'services'):
            if j[k] is not None:
                o[k] = [task(t) for t in j[k]]
        if j.get('value') is not None:
            o['value'] = j['value']
        return o

    def brk(b):
        if b[0] == 'otw':
            return {'time': [t[0] for t in b[1]], 'places': [{'duration': 600}]}
        if b[0] == 'ooff':
            return {'time': list(b[1]), 'places': [{'duration': 600}]}
        if b[0] == 'roff':
            return {'time': {'earliest': b[1], 'latest': b[2]}, 'duration': b[3]}
        return {'time': {'earliest': b[1][0], 'latest': b[2][0]}, 'duration': b[3]}

    def reload(r):
        o = {'location': loc(), 'duration': 60}
        if r['times'] is not None:
            o['times'] = times(r['times'])
        if r['resource'] is not None:
            o['resourceId'] = r['resource']
        return o

    def shift(s):
        o = {'start': {'earliest': s['earliest'][0], 'location': loc()}}
        if s['latest'] is not None:
            o['start']['latest'] = s['latest'][0]
        if s['end'] is not None:
            o['end'] = {'latest': s['end'][0], 'location': loc()}
        if s['breaks'] is not None:
            o['breaks'] = [brk(b) for b in s['breaks']]
        if s['reloads'] is not None:
            o['reloads'] = [reload(r) for r in s['reloads']]
        if s.get('recharges') is not None:           # extended documents (sub-stream c10_ext): stations come after the reloads in CoordIndex order
            o['recharges'] = {'maxDistance': s['recharges'].get('max_distance', 100000),
                              'stations': [dict({'location': loc(), 'duration': 60},
                                                **({'times': times(st['times'])} if st['times'] is not None else {}))
                                           for st in s['recharges']['stations']]}
        return o

    def vehicle(v):
        o = {'typeId': v['type_id'], 'vehicleIds': v['vehicle_ids'], 'profile': {'matrix': v['profile']},
             'costs': {'fixed': 10, 'distance': v['cost_distance'], 'time': v['cost_time']},
             'shifts': [shift(s) for s in v['shifts']], 'capacity': v['capacity']}
        if v.get('limits') is not None:               # extended documents (sub-stream c10_ext)
            o['limits'] = {k: x for k, x in v['limits'].items() if x is not None}
        return o

    plan = {'jobs': [job(j) for j in d['jobs']]}
    fleet = {'vehicles': [vehicle(v) for v in d['vehicles']], 'profiles': [{'name': p} for p in d['profiles']]}
    if d['resources'] is not None:
        dims = d.get('resource_dims') or [max(1, d.get('ndim', 1))] * len(d['resources'])     # resource_dims: extended documents (c10_ext)
        fleet['resources'] = [{'type': 'reload', 'id': r, 'capacity': [5] * k} for r, k in zip(d['resources'], dims)]
    return {'plan': plan, 'fleet': fleet}


# ------------------------------------------------------------------ Gallina
def c_tm(t):
    return '(mkTm %s %s)' % (string(t[0]), opt(t[1], z))


def c_tws(o):
    return opt(o, lambda tws: lst(tws, lambda w: lst(w, c_tm)))


def c_place(p):
    return '(mkPlace %s %s)' % (z(p['duration']), c_tws(p['times']))


def c_task(t):
    return '(mkTask %s %s)' % (lst(t['places'], c_place), opt(t['demand'], zlist))


def c_tasks(o):
    return opt(o, lambda ts: lst(ts, c_task))


def c_job(j):
    return '(mkJob %s %s %s %s %s)' % (string(j['id']), c_tasks(j['pickups']), c_tasks(j['deliveries']),
                                       c_tasks(j['replacements']), c_tasks(j['services']))


def c_brk(b):
    if b[0] == 'otw':
        return '(BOptTW %s)' % lst(b[1], c_tm)
    if b[0] == 'ooff':
        return '(BOptOff %s)' % zlist(b[1])
    if b[0] == 'roff':
        return '(BReqOff %s %s %s)' % (z(b[1]), z(b[2]), z(b[3]))
    return '(BReqExact %s %s %s)' % (c_tm(b[1]), c_tm(b[2]), z(b[3]))


def c_reload(r):
    return '(mkReload %s %s)' % (c_tws(r['times']), opt(r['resource'], string))


def c_shift(s):
    return '(mkShift %s %s %s %s %s)' % (c_tm(s['earliest']), opt(s['latest'], c_tm), opt(s['end'], c_tm),
                                         opt(s['breaks'], lambda bs: lst(bs, c_brk)), opt(s['reloads'], lambda rs: lst(rs, c_reload)))


def c_vehicle(v):
    return '(mkVehicle %s %s %s %s %s %s %s)' % (string(v['type_id']), lst(v['vehicle_ids'], string), string(v['profile']),
                                                 z(v['cost_distance']), z(v['cost_time']), zlist(v['capacity']), lst(v['shifts'], c_shift))


def c_doc(d):
    return '(mkDoc %s %s %s %s)' % (lst(d['jobs'], c_job), lst(d['vehicles'], c_vehicle), lst(d['profiles'], string),
                                    opt(d['resources'], lambda rs: lst(rs, string)))


def c_matrix(m):
    return '(mkMatrix %s %s %s %s)' % (opt(m.get('profile'), string), zlist(m['travelTimes']), zlist(m['distances']),
                                       opt(m.get('errorCodes'), zlist))


def model_term(c):
    if c['op'] == 'matrix':
        return 'run_transport %s %s' % (lst(c['doc']['profiles'], string), lst(c['matrices'], c_matrix))
    if c['op'] == 'full' and c['doc'].get('prevalidation') and c.get('matrices') is None:
        return FULL.prevalidation_term(c)
    if c['op'] != 'doc':
        return None
    return ('let d := %s in (fst (run_validate d), snd (run_validate d), fst (run_read d), snd (run_read d), run_spec d, run_known d)'
            % c_doc(c['doc']))


# ------------------------------------------------------------------ the documented rules in python (from the error index page; R1-R10 as in Spec/Rules.v)
def p_window(w):
    if len(w) == 2 and w[0][1] is not None and w[1][1] is not None:
        return (w[0][1], w[1][1])
    return None


def overlap(a, b):
    return not (a[1] < b[0] or b[1] < a[0])


def windows_ok(allow, ws):
    if any(w is None or w[0] > w[1] for w in ws):
        return False
    if allow:
        return True
    return not any(overlap(ws[i], ws[j]) for i in range(len(ws)) for j in range(i + 1, len(ws)))


def times_ok(tws):
    return len(tws) > 0 and windows_ok(False, [p_window(w) for w in tws])


def nodup(xs):
    return len(set(xs)) == len(xs)


def job_tasks(j):
    return (j['pickups'] or []) + (j['deliveries'] or []) + (j['replacements'] or []) + (j['services'] or [])


def shift_span(s):
    a = s['earliest'][1]
    b = s['end'][1] if s['end'] is not None else FAR
    return (a, b) if a is not None and b is not None else None


def break_windows(s, bs):
    out = []
    for b in bs:
        if b[0] == 'otw':
            out.append(p_window(b[1]))
        elif b[0] == 'ooff':
            if len(b[1]) != 2:          # R6: an optional offset break must be a pair of numbers; a well-formed one has no window
                out.append(None)
        elif b[0] == 'roff':
            dep = s['earliest'][1]
            out.append((dep + b[1], dep + b[2] + b[3]) if dep is not None else None)
        elif b[0] == 'rexact':
            out.append((b[1][1], b[2][1] + b[3]) if b[1][1] is not None and b[2][1] is not None else None)
    return out


def reload_windows(rs):
    return [p_window(w) for r in rs if r['times'] is not None for w in r['times']]


def inside_shift(s, ws):
    sp = shift_span(s)
    return sp is None or all(overlap(w, sp) for w in ws if w is not None)


def py_spec(d):
    """codes of the documented rules the reduced document breaks"""
    out = []
    jobs, vs = d['jobs'], d['vehicles']
    if not nodup([j['id'] for j in jobs]):
        out.append(1100)
    if any(any(t['demand'] is None for t in (j['pickups'] or []) + (j['deliveries'] or []) + (j['replacements'] or []))
           or any(t['demand'] is not None for t in (j['services'] or [])) for j in jobs):
        out.append(1101)

    def dsum(i, ts):
        return sum((t['demand'] or [])[i] if i < len(t['demand'] or []) else 0 for t in ts)
    if any(j['pickups'] and j['deliveries'] and any(dsum(i, j['pickups']) != dsum(i, j['deliveries']) for i in range(8)) for j in jobs):
        out.append(1102)
    if any(p['times'] is not None and not times_ok(p['times']) for j in jobs for t in job_tasks(j) for p in t['places']):
        out.append(1103)
    if any(j['id'] in ('departure', 'arrival', 'break', 'reload') for j in jobs):
        out.append(1104)
    if any(not job_tasks(j) for j in jobs):
        out.append(1105)
    if any(p['duration'] < 0 for j in jobs for t in job_tasks(j) for p in t['places']):
        out.append(1106)
    if any(x < 0 for j in jobs for t in job_tasks(j) for x in (t['demand'] or [])):
        out.append(1107)
    if not nodup([v['type_id'] for v in vs]):
        out.append(1300)
    if not nodup([i for v in vs for i in v['vehicle_ids']]):
        out.append(1301)

    def shift_window(s):
        a = s['earliest'][1]
        b = s['end'][1] if s['end'] is not None else a
        return (a, b) if a is not None and b is not None else None
    if any(not (len(v['shifts']) > 0 and windows_ok(False, [shift_window(s) for s in v['shifts']]))
           or any(s['latest'] is not None and s['latest'][1] is None for s in v['shifts'])       # R10: start.latest must be a date
           for v in vs):
        out.append(1302)
    e1303 = e1304 = False
    for v in vs:
        for s in v['shifts']:
            if s['breaks'] is not None:
                ws = break_windows(s, s['breaks'])
                if ws and not (windows_ok(False, ws) and inside_shift(s, ws)):
                    e1303 = True
            if s['reloads'] is not None:
                ws = reload_windows(s['reloads'])
                if ws and not (windows_ok(True, ws) and inside_shift(s, ws)):
                    e1304 = True
    if e1303:
        out.append(1303)
    if e1304:
        out.append(1304)
    if any(v['cost_distance'] == 0 and v['cost_time'] == 0 for v in vs):
        out.append(1306)
    if any(any(b[0] in ('roff', 'ooff') for b in (s['breaks'] or [])) and (s['latest'] is None or s['latest'][0] != s['earliest'][0])
           for v in vs for s in v['shifts']):
        out.append(1307)
    res = d['resources'] or []
    if not nodup(res) or any(r['resource'] is not None and r['resource'] not in res
                             for v in vs for s in v['shifts'] for r in (s['reloads'] or [])):
        out.append(1308)
    if not nodup(d['profiles']):
        out.append(1500)
    if not d['profiles']:
        out.append(1501)
    any_loc = any(t['places'] for j in jobs for t in job_tasks(j)) or any(v['shifts'] for v in vs)
    if d['profiles'] and not any_loc:
        out.append(1504)
    if any(v['profile'] not in d['profiles'] for v in vs):
        out.append(1505)
    return out


def py_known(d):
    out = []
    jobs, vs = d['jobs'], d['vehicles']
    if any(len(v['capacity']) > 8 for v in vs) or any(len(t['demand'] or []) > 8 for j in jobs for t in job_tasks(j)):
        out.append(7)
    if all(len(v['vehicle_ids']) == 0 for v in vs):
        out.append(9)
    if any(v['vehicle_ids'] and any(g2_shift(s) for s in v['shifts']) for v in vs):
        out.append(22)
    return out


def req_spans(s):
    """(is offset, (earliest, latest)) of the required breaks of a shift whose times parse (the duration is not part of the span)"""
    out = []
    for b in s['breaks'] or []:
        if b[0] == 'roff':
            out.append((True, (b[1], b[2])))
        elif b[0] == 'rexact' and b[1][1] is not None and b[2][1] is not None:
            out.append((False, (b[1][1], b[2][1])))
    return out


def g2_shift(s):
    sp = req_spans(s)
    if any(a[0] != b[0] for a in sp for b in sp):
        return True
    ws = [x[1] for x in sp]
    return any(overlap(ws[i], ws[j]) for i in range(len(ws)) for j in range(i + 1, len(ws)))


# ------------------------------------------------------------------ full documents (python reference for relations / objectives / routing)
from props import c10_full as FULL  # noqa: E402


# ------------------------------------------------------------------ raw stream
def gen_raw_case(rng):
    d = mk_doc(rng)
    txt = json.dumps(to_json(d))
    k = rng.below(8)
    if k == 0:
        return {'op': 'raw', 'raw_problem': txt[:rng.range(1, len(txt) - 2)], 'raw_matrices': None, 'expect': ['E0000'], 'labels': ['truncated']}
    if k == 1:
        return {'op': 'raw', 'raw_problem': rng.choice(['', '[]', 'null', '42', '{}', '{"plan":{}}', '{"plan":{"jobs":[]}}']),
                'raw_matrices': None, 'expect': ['E0000'], 'labels': ['wrong-shape']}
    if k == 2:
        p = to_json(d)
        p['plan']['jobs'][0]['id'] = 17
        return {'op': 'raw', 'raw_problem': json.dumps(p), 'raw_matrices': None, 'expect': ['E0000'], 'labels': ['wrong-type-id']}
    if k == 3:
        p = to_json(d)
        p['fleet']['vehicles'][0]['capacity'] = [2 ** 40]
        return {'op': 'raw', 'raw_problem': json.dumps(p), 'raw_matrices': None, 'expect': ['E0000'], 'labels': ['i32-overflow']}
    if k == 4:
        p = to_json(d)
        del p['fleet']['profiles']
        return {'op': 'raw', 'raw_problem': json.dumps(p), 'raw_matrices': None, 'expect': ['E0000'], 'labels': ['missing-field']}
    if k == 5:
        p = to_json(d)
        p['plan']['jobs'][0]['unknownField'] = {'a': [1, 2, None]}
        p['extra'] = 1
        return {'op': 'raw', 'raw_problem': json.dumps(p), 'raw_matrices': None, 'expect': None, 'labels': ['unknown-fields-ignored'], 'doc': d}
    if k == 6:
        return {'op': 'raw', 'raw_problem': txt, 'raw_matrices': [rng.choice(['', '{', '{"distances":[1]}', '{"travelTimes":"x","distances":[]}', '[]'])],
                'expect': ['E0001'], 'labels': ['bad-matrix']}
    p = to_json(d)
    p['fleet']['vehicles'][0]['shifts'] = 'none'
    return {'op': 'raw', 'raw_problem': json.dumps(p), 'raw_matrices': None, 'expect': ['E0000'], 'labels': ['wrong-type-shifts']}


# ------------------------------------------------------------------ plugin interface
def generate(rng, tier, n):
    cases = []
    for k in range(n):
        r = rng.below(100)
        if r < 70:
            cases.append(gen_doc_case(rng))
        elif r < 88:
            cases.append(FULL.gen_full_case(rng, mk_doc, to_json))
        elif r < 94:
            cases.append(FULL.gen_matrix_case(rng, mk_doc, to_json))
        else:
            cases.append(gen_raw_case(rng))
    return cases


def regenerate(repo, outdir):
    return rules2coq.generate(repo, outdir)


def codes_of(r):
    return sorted(set(int(c[1:]) for c in r.get('codes', [])))


def outcome(r):
    """('ok',) | ('err', (codes..)) | ('panic',) | ('deser',)"""
    if r['k'] == 'err':
        return ('err', tuple(codes_of(r)))
    return (r['k'],)


def model_outcome(m):
    k, cs = m
    return {0: ('ok',), 2: ('panic',)}.get(k) or ('err', tuple(sorted(set(cs))))


def compare(c, impl, model):
    if 'panic' in impl:
        return 'harness panicked outside catch_unwind: %s' % impl['panic']
    if c['op'] == 'matrix':
        return FULL.compare_matrix(c, impl, model)
    if c['op'] == 'full':
        return FULL.compare_prevalidation(c, impl, model)
    vk, vcs, rk, rcs, mspec, mknown = model
    mv, mr = (vk, vcs), (rk, rcs)
    d = c['doc']
    if outcome(impl['validate']) != model_outcome(mv):
        return 'validate: impl %s model %s' % (outcome(impl['validate']), model_outcome(mv))
    if outcome(impl['read']) != model_outcome(mr):
        return 'read: impl %s %s model %s' % (outcome(impl['read']), impl['read'].get('causes', impl['read'].get('msg', '')), model_outcome(mr))
    if sorted(py_spec(d)) != sorted(mspec):
        return 'documented rules: python copy %s, Spec/Rules.v %s' % (sorted(py_spec(d)), sorted(mspec))
    if sorted(py_known(d)) != sorted(mknown):
        return 'known classes: python copy %s, Spec/Rules.v %s' % (sorted(py_known(d)), sorted(mknown))
    return None


def _class(known, fallback):
    if len(known) == 1:
        return KNAMES[known[0]]
    if known:
        return '+'.join(KNAMES[k] for k in known)
    return fallback


def oracle(c, impl):
    if 'panic' in impl:
        return [{'class': 'harness-crash', 'what': impl['panic']}]
    rd = impl['read']
    if c['op'] == 'raw':
        if rd['k'] == 'panic':
            return [{'class': 'panic-on-malformed-text:' + '/'.join(c['labels']), 'what': rd['msg']}]
        if c['expect'] is not None:
            if outcome(rd) != ('err', tuple(int(x[1:]) for x in c['expect'])):
                return [{'class': 'malformed-text-not-reported-as-%s:%s' % (c['expect'][0], '/'.join(c['labels'])), 'what': str(rd)}]
            return []
        # unknown fields are ignored: same verdict as for the document itself
        c = dict(c, op='doc')
    if c['op'] == 'full':
        return FULL.oracle(c, impl)
    if c['op'] == 'matrix':
        return FULL.oracle_matrix(c, impl)
    d = c['doc']
    known = py_known(d)
    expected = sorted(py_spec(d))
    out = []
    if rd['k'] == 'panic':
        out.append({'class': _class(known, 'panic-unexplained'),
                    'what': 'read_pragmatic panicked (%s); documented rules broken by the input: %s' % (rd['msg'][:200], expected)})
    else:
        got = codes_of(rd) if rd['k'] == 'err' else []
        if got != expected:
            missing = [x for x in expected if x not in got]
            extra = [x for x in got if x not in expected]
            out.append({'class': _class(known, 'codes-differ-from-documented-rules:missing=%s:extra=%s' % (missing, extra)),
                        'what': 'reported %s, documented rules broken by the input %s (%s)' % (got, expected, rd.get('causes', ''))})
    v = impl['validate']
    if v['k'] == 'panic' and rd['k'] != 'panic':
        out.append({'class': 'validate-panics-but-read-does-not', 'what': v['msg']})
    return out


def nontrivial_key(c, impl):
    if 'panic' in impl:
        return None
    return (c['op'], outcome(impl['read']), tuple(c.get('labels', [])))


def classify(c, impl):
    labs = ['op=' + c['op']]
    if 'panic' in impl:
        return labs
    o = outcome(impl['read'])
    labs.append('read=' + o[0])
    if o[0] == 'err':
        labs += ['code=E%04d' % x for x in o[1]]
    for l in c.get('labels', []):
        labs.append('dev=' + l)
    if c['op'] == 'doc':
        for k in py_known(c['doc']):
            labs.append('known=K%d' % k)
    return labs


def shrink_candidates(c):
    if c['op'] != 'doc':
        return
    d = c['doc']

    def mk(nd):
        return {'op': 'doc', 'doc': nd, 'labels': c.get('labels', []), 'problem': to_json(nd), 'matrices': None}
    for i in range(len(d['jobs'])):
        nd = copy.deepcopy(d)
        del nd['jobs'][i]
        yield mk(nd)
    for i in range(len(d['vehicles'])):
        nd = copy.deepcopy(d)
        del nd['vehicles'][i]
        yield mk(nd)
    for vi, v in enumerate(d['vehicles']):
        for si, s in enumerate(v['shifts']):
            for f in ('breaks', 'reloads'):
                if s[f] is not None:
                    nd = copy.deepcopy(d)
                    nd['vehicles'][vi]['shifts'][si][f] = None
                    yield mk(nd)
            if len(v['shifts']) > 1:
                nd = copy.deepcopy(d)
                del nd['vehicles'][vi]['shifts'][si]
                yield mk(nd)
    for ji, j in enumerate(d['jobs']):
        for f in ('pickups', 'deliveries', 'replacements', 'services'):
            if j[f]:
                nd = copy.deepcopy(d)
                nd['jobs'][ji][f] = None
                yield mk(nd)


MANIFEST_TEXT = ('Machine-checked proof (Coq, no axioms) over an executable model of the pragmatic validation - every rule of all five groups as '
                 'written in validation/*.rs: jobs E11xx, vehicles E13xx, objectives E16xx (incl. job value / task order), routing E15xx in every '
                 'location mode (coordinates, indices, mixed; supplied or approximated matrices; the overwriting reverse index of CoordIndex), '
                 'relations E12xx (incl. the stateful E1204 walk), the eager evaluation of every rule and the parse_time unwraps - and of the reader '
                 'behind it, step by step in the order of map_to_problem (read_fleet, reserved times, create_transport_costs with timestamps and '
                 'errorCodes, DynamicTransportCost, required and conditional jobs incl. recharge stations, Jobs::new lookups, read_locks, the goal '
                 'reader, the cluster config) with every unwrap / assert / panic as an explicit outcome: outside structurally defined known deviation '
                 'classes (K6-K9 on jobs / vehicles, X11, X14, X16, G1, G2 on the extended document, each a recorded finding with a machine-checked '
                 'witness), reading never panics, a document is accepted iff it breaks none of the documented rules (written independently from the '
                 'error index page, every rule function proved equal to its documented rule for ALL documents in the relation, objective and routing '
                 'groups) and its matrices can become transport costs (E0002; proved away for documents read without matrices), and the reported '
                 'codes are exactly the broken rules. Nine earlier classes were repaired in /repo and are covered by the theorems now. The rule tables, '
                 'the text fingerprints of every rule function and helper of validation/*.rs and the helper predicates each rule uses are re-extracted '
                 'from the Rust sources and the documentation on every run and compared with the pinned tables by re-proved theorems. '
                 'Model and spec are tied to /repo on every run by evaluating them inside Coq (vm_compute) on generated documents and diffing '
                 'with the real ValidationContext::validate, String::read_pragmatic and (ApiProblem, Vec<Matrix>)::read_pragmatic under catch_unwind.')
MANIFEST_NOTE = ('Hierarchical-areas objectives, custom locations, skills / groups / compatibility / tags / break places are not modelled. The matrix step '
                 '(E0002) has no independent specification beyond C10_matrix_step_spec / C10_transport_ok_is_square_and_covers_distances. '
                 'RFC 3339 parsing is an oracle. Adopted readings R1-R20 of the documentation are listed in Spec/Rules.v and Spec/RulesX.v.')
MANIFEST_TECHNIQUE = 'Coq proof over executable model + vm_compute differential correspondence with the Rust implementation'
