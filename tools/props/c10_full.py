"""C10 helper: documents with relations / objectives / index locations (python reference only). Stub, filled in later."""


def gen_full_case(rng, mk_doc, to_json):
    from props import c10
    return c10.gen_doc_case(rng)


def oracle(c, impl):
    return []
