"""C10 helper (owned by C10): documents that also carry relations / objectives / job values / task orders / index locations and
routing matrices.  These parts are NOT in the Coq model; the reference below is a python transcription of
validation/{relations,objectives,routing}.rs AS WRITTEN, the job / vehicle / profile rules come from the documented-rule copy in
c10.py (the base document is valid and outside every known class, so both coincide there).

Observations on these groups (code vs documentation page), adopted by the reference and NOT reported as violations:
  * E1203 is applied to relations of every type (the page says "strict or sequence relation");
  * E1605 is only evaluated when `objectives` is present;
  * E1603 / E1604 / E1606 / E1607 look at top-level objectives only, E1601 / E1602 also inside a multi-objective;
  * E1504 requires equality of the number of distinct locations and the matrix dimension (the page: "greater/higher than");
    `max location index` is really "number of distinct locations - 1"; since 607d80d (repair of finding X12) it also rejects every
    location index that is not below the matrix dimension (the page: "max index is greater than matrix size").
Reader steps behind validation that end in E0002 and are part of the reference: an unparsable `Matrix::timestamp` (a510a8a, repair of
X13; any timestamp on a one-matrix-per-profile document is E0002: time-aware routing needs two matrices per profile) and, on the
matrix stream, `errorCodes` shorter than `distances` (f7d2f27, repair of X15) and cost vectors that are not size x size (17fc8e9).
The generator keeps away from inputs whose post-validation behaviour it cannot predict (special ids `break`/`reload` in a relation
only when no such conditional job list exists, one matrix per profile)."""
import copy, json

COST = ('minimize-cost', 'minimize-distance', 'minimize-duration')
RESERVED = ('departure', 'arrival', 'break', 'reload')


# ------------------------------------------------------------------ reference (as written)
def job_tasks(j):
    return (j['pickups'] or []) + (j['deliveries'] or []) + (j['replacements'] or []) + (j['services'] or [])


def ref_objectives(d):
    objs = d.get('objectives')
    if objs is None:
        return []
    out = []
    flat = []
    for o in objs:
        flat += o['objectives'] if o['type'] == 'multi-objective' else [o]
    jobs = d['jobs']
    if not objs:
        out.append(1600)
    if len(set(o['type'] for o in flat)) != len(flat):
        out.append(1601)
    if not any(o['type'] in COST for o in flat):
        out.append(1602)
    has_value = any((j.get('value') or 0) > 0 for j in jobs)
    if any(o['type'] == 'maximize-value' for o in objs) and not has_value:
        out.append(1603)
    has_order = any((t.get('order') or 0) > 0 for j in jobs for t in job_tasks(j))
    if any(o['type'] == 'tour-order' for o in objs) and not has_order:
        out.append(1604)
    if any(any(t.get('order') is not None and t['order'] < 1 for t in job_tasks(j))
           or (j.get('value') is not None and j['value'] < 1) for j in jobs):
        out.append(1605)
    if sum(1 for o in objs if o['type'] in COST) > 1:
        out.append(1606)
    if objs and not any(o['type'] == 'maximize-value' for o in objs) and has_value:
        out.append(1607)
    return out


def ref_relations(d):
    rels = d.get('relations')
    if rels is None:
        return []
    out = []
    job_index = {j['id']: j for j in d['jobs']}
    vmap = {}
    for v in d['vehicles']:
        for i in v['vehicle_ids']:
            vmap[i] = v
    if any(i not in RESERVED and i not in job_index for r in rels for i in r['jobs']):
        out.append(1200)
    if any(r['vehicle_id'] not in vmap for r in rels):
        out.append(1201)
    if any(not any(i not in RESERVED for i in r['jobs']) for r in rels):
        out.append(1202)
    if any(i not in RESERVED and i in job_index and any(len(t['places']) > 1 or any(p['times'] is not None and len(p['times']) > 1
                                                                                   for p in t['places'])
                                                        for t in job_tasks(job_index[i])) for r in rels for i in r['jobs']):
        out.append(1203)
    seen, bad = {}, False
    for r in rels:
        for i in r['jobs']:
            if i in RESERVED:
                continue
            if seen.setdefault(i, r['vehicle_id']) != r['vehicle_id']:
                bad = True
    if bad:
        out.append(1204)
    if any(r['vehicle_id'] in vmap and (r['shift_index'] or 0) >= len(vmap[r['vehicle_id']]['shifts']) for r in rels):
        out.append(1205)
    e1206 = False
    for r in rels:
        v = vmap.get(r['vehicle_id'])
        if v is None or (r['shift_index'] or 0) >= len(v['shifts']):
            continue
        s = v['shifts'][r['shift_index'] or 0]
        for i in r['jobs']:
            if (i == 'break' and s['breaks'] is None) or (i == 'reload' and s['reloads'] is None) or (i == 'arrival' and s['end'] is None):
                e1206 = True
    if e1206:
        out.append(1206)
    if any(i in job_index and r['jobs'].count(i) != len(job_tasks(job_index[i])) for r in rels for i in r['jobs']):
        out.append(1207)
    return out


def locations(d):
    """location descriptors in CoordIndex::new order; each is ('c', k) or ('i', index)"""
    return d['_locs']


def ref_routing(d, base_codes):
    """E15xx for a document with explicit location modes / matrices; base_codes already holds E1500/1501/1505 (from c10.py_spec)"""
    out = [c for c in base_codes if c in (1500, 1501, 1505)]
    locs = d['_locs']
    locs = [tuple(l) for l in locs]
    has_c = any(l[0] == 'c' for l in locs)
    has_i = any(l[0] == 'i' for l in locs)
    ms = d.get('matrices')
    if has_c and has_i:
        out.append(1502)
    if has_i and not ms:
        out.append(1503)
    if ms:
        n = len(set(tuple(l) for l in locs))
        size = int(round(len(ms[0]['distances']) ** 0.5))
        if max(n, 1) != size or any(l[0] == 'i' and l[1] >= size for l in locs):
            out.append(1504)
    return out


def expects_e0002(d):
    """a document that breaks no validation rule but whose supplied matrices cannot become transport costs: an unparsable timestamp
    (parse error), or any timestamp at all when every profile has a single matrix"""
    return any(m.get('timestamp') is not None for m in d.get('matrices') or [])


# ------------------------------------------------------------------ generation
def simple_job(j):
    return all(len(t['places']) == 1 and all(p['times'] is None or len(p['times']) <= 1 for p in t['places']) for t in job_tasks(j))


def gen_full_case(rng, mk_doc, to_json):
    from props import c10
    for _ in range(100):
        d = mk_doc(rng)
        if not c10.py_spec(d) and not c10.py_known(d) and all(v['vehicle_ids'] for v in d['vehicles']):
            break
    labels = []
    d['relations'] = None
    d['objectives'] = None
    d['matrices'] = None
    d['loc_mode'] = 'coord'
    area = rng.below(100)
    if area < 50:
        labels += gen_relations(rng, d)
    elif area < 85:
        labels += gen_objectives(rng, d)
    else:
        labels += gen_routing(rng, d)
    problem = full_json(d, to_json)
    return {'op': 'full', 'doc': d, 'labels': labels, 'problem': problem, 'matrices': d['matrices']}


def valid_relation(rng, d, vehicle_id=None, jobs=None):
    vs = [v for v in d['vehicles'] if v['vehicle_ids']]
    v = rng.choice(vs)
    vid = vehicle_id or rng.choice(v['vehicle_ids'])
    cands = [j for j in d['jobs'] if simple_job(j)]
    js = jobs if jobs is not None else ([rng.choice(cands)] if cands else [])
    ids = []
    for j in js:
        ids += [j['id']] * len(job_tasks(j))
    si = rng.choice([None, 0, len(v['shifts']) - 1])
    s = v['shifts'][si or 0]
    if rng.chance(1, 3):
        ids = ['departure'] + ids
    if s['end'] is not None and rng.chance(1, 4):
        ids = ids + ['arrival']
    return {'type': rng.choice(['any', 'sequence', 'strict']), 'jobs': ids, 'vehicle_id': vid, 'shift_index': si}, v


def simplify(j):
    for t in job_tasks(j):
        t['places'] = t['places'][:1]
        for p in t['places']:
            if p['times'] is not None:
                p['times'] = p['times'][:1]


def gen_relations(rng, d):
    if not any(simple_job(j) for j in d['jobs']) or rng.chance(1, 2):
        simplify(rng.choice(d['jobs']))
    r, v = valid_relation(rng, d)
    if not r['jobs'] or all(i in RESERVED for i in r['jobs']):
        d['relations'] = [r]
        return ['rel-no-simple-job']
    d['relations'] = [r]
    k = rng.below(24)
    if k >= 16:
        return gen_multi_shift_relation(rng, d, r)
    if k <= 2:
        return ['rel-valid']
    if k == 3:
        r['jobs'] = r['jobs'] + [rng.choice(['nojob', 'recharge', 'Departure'])]
        return ['rel-unknown-job']
    if k == 4:
        r['vehicle_id'] = rng.choice(['nov', v['type_id']])
        return ['rel-unknown-vehicle']
    if k == 5:
        r['jobs'] = rng.choice([[], ['departure'], ['departure', 'arrival']])
        return ['rel-empty-or-reserved-only']
    if k == 6:
        j = rng.choice(d['jobs'])
        t = job_tasks(j)[0]
        if rng.chance(1, 2):
            t['places'] = t['places'][:1] + [copy.deepcopy(t['places'][0])]
        else:
            T = c10_T()
            t['places'][0]['times'] = [[T(1), T(2)], [T(3), T(4)]]
        r['jobs'] = [j['id']] * len(job_tasks(j))
        r['type'] = rng.choice(['any', 'any', 'sequence', 'strict'])
        return ['rel-multi-place-or-window-job-type-' + r['type']]
    if k == 7:
        ids = [i for vv in d['vehicles'] for i in vv['vehicle_ids']]
        others = [i for i in ids if i != r['vehicle_id']]
        r2 = copy.deepcopy(r)
        r2['jobs'] = [i for i in r['jobs'] if i not in RESERVED]
        r2['shift_index'] = None
        if others and rng.chance(2, 3):
            r2['vehicle_id'] = rng.choice(others)
            lab = 'rel-job-on-two-vehicles'
        else:
            lab = 'rel-job-twice-same-vehicle'
        d['relations'].append(r2)
        return [lab]
    if k == 8:
        r['shift_index'] = len(v['shifts']) + rng.choice([0, 1])
        return ['rel-shift-index-too-big']
    if k == 9:
        s = v['shifts'][r['shift_index'] or 0]
        opts = [x for x, f in (('break', 'breaks'), ('reload', 'reloads'), ('arrival', 'end')) if s[f] is None]
        if not opts:
            return ['rel-valid']
        r['jobs'] = [i for i in r['jobs'] if i != 'arrival'] + [rng.choice(opts)]
        return ['rel-special-id-without-shift-property']
    if k == 10:
        js = [j for j in d['jobs'] if len(job_tasks(j)) >= 2 and simple_job(j)]
        if not js:
            j = d['jobs'][0]
            t = {'places': [{'duration': 60, 'times': None}], 'demand': [1] * d['ndim']}
            j['pickups'], j['deliveries'], j['replacements'], j['services'] = [t], [copy.deepcopy(t)], None, None
            js = [j]
        j = rng.choice(js)
        r['jobs'] = [j['id']] * (len(job_tasks(j)) - 1)
        return ['rel-incomplete-job']
    if k == 11:
        base = [i for i in r['jobs'] if i not in RESERVED]
        r['jobs'] = r['jobs'] + [base[0]]
        return ['rel-job-id-too-often']
    if k == 12:
        d['relations'] = []
        return ['rel-empty-list']
    if k == 13:
        # an optional time-window break exists: the conditional job `<vid>_break_<shift>_1` exists, `break` is legal
        s = v['shifts'][r['shift_index'] or 0]
        if s['breaks'] and s['breaks'][0][0] == 'otw' and len(s['breaks']) == 1:
            r['jobs'] = [i for i in r['jobs'] if i != 'arrival'] + ['break']
            return ['rel-break-with-optional-break']
        return ['rel-valid']
    if k == 14:
        # second relation for another job on the same vehicle: fine
        cands = [j for j in d['jobs'] if simple_job(j) and j['id'] not in r['jobs']]
        if cands:
            r2, _ = valid_relation(rng, d, vehicle_id=r['vehicle_id'], jobs=[rng.choice(cands)])
            r2['shift_index'] = r['shift_index']
            r2['jobs'] = [i for i in r2['jobs'] if i not in RESERVED]
            d['relations'].append(r2)
            return ['rel-two-relations-valid']
        return ['rel-valid']
    d['jobs'][0]['id'] = 'arrival'
    return ['rel-with-reserved-job-id-in-plan']


def gen_multi_shift_relation(rng, d, r):
    """a vehicle with two shifts that DIFFER in having a break / reloads / an end, and a relation (mostly on shiftIndex 1) that
    names the corresponding reserved id: valid when the named shift has the property, E1206 otherwise"""
    T = c10_T()
    v = [x for x in d['vehicles'] if r['vehicle_id'] in x['vehicle_ids']][0]

    def shift(lo, hi):
        return {'earliest': T(lo), 'latest': None, 'end': T(hi), 'breaks': None, 'reloads': None}
    v['shifts'] = [shift(0, 9), shift(10, 22)]
    prop = rng.choice(['break', 'reload', 'arrival', 'break', 'reload'])
    holder = rng.below(2)
    si = 1 if rng.chance(3, 4) else rng.choice([0, None])
    for k, s in enumerate(v['shifts']):
        lo = 0 if k == 0 else 10
        if prop == 'break' and k == holder:
            s['breaks'] = [['otw', [T(lo + 1), T(lo + 2)]]]
        if prop == 'reload' and k == holder:
            s['reloads'] = [{'times': None, 'resource': None}]
        if prop == 'arrival' and k != holder:
            s['end'] = None
    base = [i for i in r['jobs'] if i not in RESERVED]
    r['jobs'] = (['departure'] if rng.chance(1, 3) else []) + base + [prop]
    r['shift_index'] = si
    r['type'] = rng.choice(['any', 'sequence', 'strict'])
    ok = (si or 0) == holder
    return ['rel-multishift-%s-on-shift-%s-%s' % (prop, si, 'present' if ok else 'missing')]


def c10_T():
    from props import c10
    return lambda h: c10.T(h * c10.H)


def gen_objectives(rng, d):
    base = [{'type': 'minimize-unassigned'}, {'type': 'minimize-tours'}, {'type': 'minimize-cost'}]
    k = rng.below(18)
    d['objectives'] = base
    if k <= 1:
        return ['obj-default-like']
    if k == 2:
        d['objectives'] = []
        return ['obj-empty']
    if k == 3:
        d['objectives'] = base + [{'type': rng.choice(['minimize-unassigned', 'minimize-tours'])}]
        return ['obj-duplicate']
    if k == 4:
        d['objectives'] = base[:2] + ([{'type': 'balance-distance'}] if rng.chance(1, 2) else [])
        return ['obj-no-cost']
    if k == 5:
        d['objectives'] = base + [{'type': rng.choice(['minimize-distance', 'minimize-duration'])}]
        return ['obj-two-costs']
    if k == 6:
        d['objectives'] = [{'type': 'minimize-unassigned'},
                           {'type': 'multi-objective', 'strategy': {'name': 'sum'},
                            'objectives': [{'type': 'minimize-cost'}, {'type': rng.choice(['minimize-distance', 'minimize-tours'])}]}]
        return ['obj-costs-inside-multi']
    if k == 7:
        d['objectives'] = [{'type': 'minimize-cost'},
                           {'type': 'multi-objective', 'strategy': {'name': 'sum'},
                            'objectives': [{'type': 'minimize-cost'}, {'type': 'minimize-tours'}]}]
        return ['obj-duplicate-across-multi']
    if k == 8:
        d['objectives'] = [{'type': 'maximize-value'}] + base
        return ['obj-value-objective-without-values']
    if k == 9:
        d['objectives'] = [{'type': 'maximize-value'}] + base
        d['jobs'][0]['value'] = rng.choice([1, 5, 0, -1, 0.5])
        return ['obj-value-objective-with-value-%s' % d['jobs'][0]['value']]
    if k == 10:
        d['jobs'][0]['value'] = rng.choice([1, 3, 0, -2, 0.5])
        return ['obj-value-without-value-objective-%s' % d['jobs'][0]['value']]
    if k == 11:
        d['objectives'] = None
        d['jobs'][0]['value'] = rng.choice([1, 3, 0, 0.5])
        return ['no-objectives-job-value-%s' % d['jobs'][0]['value']]
    if k == 12:
        d['objectives'] = base[:2] + [{'type': 'tour-order'}, base[2]]
        return ['obj-tour-order-without-orders']
    if k == 13:
        d['objectives'] = base[:2] + [{'type': 'tour-order'}, base[2]]
        job_tasks(d['jobs'][0])[0]['order'] = rng.choice([1, 2, 0, -1])
        return ['obj-tour-order-with-order-%d' % job_tasks(d['jobs'][0])[0]['order']]
    if k == 14:
        job_tasks(d['jobs'][0])[0]['order'] = rng.choice([1, 0, -3])
        return ['obj-order-without-order-objective-%d' % job_tasks(d['jobs'][0])[0]['order']]
    if k == 15:
        d['objectives'] = None
        job_tasks(d['jobs'][0])[0]['order'] = rng.choice([1, 0, -3])
        return ['no-objectives-order-%d' % job_tasks(d['jobs'][0])[0]['order']]
    if k == 16:
        d['objectives'] = [{'type': 'multi-objective', 'strategy': {'name': 'sum'},
                            'objectives': [{'type': 'maximize-value'}, {'type': 'minimize-unassigned'}]}, {'type': 'minimize-cost'}]
        d['jobs'][0]['value'] = 2
        return ['obj-value-objective-inside-multi']
    d['objectives'] = [{'type': 'minimize-unassigned'}, {'type': 'minimize-cost'}, {'type': 'minimize-cost'}]
    return ['obj-same-cost-twice']


def gen_routing(rng, d):
    k = rng.below(17)
    n_loc = count_locations(d)
    profs = []
    for p in d['profiles']:
        if p not in profs:
            profs.append(p)

    def matrices(size):
        return [{'profile': p, 'travelTimes': [1] * (size * size), 'distances': [1] * (size * size)} for p in profs]
    if k == 0:
        d['loc_mode'] = 'index'
        d['matrices'] = matrices(n_loc)
        return ['routing-indices-with-matrix']
    if k == 1:
        d['loc_mode'] = 'index'
        d['matrices'] = rng.choice([None, []])
        return ['routing-indices-without-matrix']
    if k == 2:
        d['loc_mode'] = 'mixed'
        d['matrices'] = matrices(n_loc)
        return ['routing-mixed-locations']
    if k == 3:
        d['loc_mode'] = 'index'
        d['matrices'] = matrices(n_loc + rng.choice([1, -1, 2]))
        return ['routing-indices-matrix-size-off']
    if k == 4:
        d['matrices'] = matrices(n_loc)
        return ['routing-coordinates-with-matrix']
    if k == 5:
        d['matrices'] = matrices(n_loc + rng.choice([1, -1]))
        return ['routing-coordinates-matrix-size-off']
    if k == 6:
        d['loc_mode'] = 'index-shared'          # two places share one index: fewer distinct locations
        d['matrices'] = matrices(n_loc - 1)
        return ['routing-shared-index']
    if k == 7:
        d['matrices'] = matrices(n_loc)
        d['profiles'] = []
        d['vehicles'][0]['profile'] = 'car'
        return ['routing-matrix-but-no-profiles']
    if k == 13:
        # one location index lies outside the matrix (former finding X12): E1504, whether or not the NUMBER of locations fits
        d['loc_mode'] = 'index-sparse'
        d['sparse'] = [rng.below(n_loc), rng.choice([n_loc, n_loc + 4, 1000])]
        fit = rng.chance(2, 3)
        d['matrices'] = matrices(n_loc if fit else n_loc + 1)
        return ['routing-index-outside-matrix-count-%s' % ('fits' if fit else 'off')]
    if k in (14, 15):
        # matrix timestamps (former finding X13): unparsable -> E0002 (was a panic); a valid one on single matrices is E0002 as well
        d['loc_mode'] = rng.choice(['coord', 'index'])
        d['matrices'] = matrices(n_loc)
        bad = rng.choice(['nope', '', '2020-07-04', '1593820800', '2020-13-40T00:00:00Z'])
        good = '2020-07-04T00:00:00Z'
        which = rng.below(len(d['matrices']))
        for i, m in enumerate(d['matrices']):
            if k == 14:
                if i == which:
                    m['timestamp'] = bad
                elif rng.chance(1, 2):
                    m['timestamp'] = good
            else:
                m['timestamp'] = good
        return ['routing-matrix-timestamp-unparsable' if k == 14 else 'routing-matrix-timestamp-on-single-matrices']
    if k == 16:
        d['matrices'] = None                     # coordinates, no matrix, NO profile (former finding K10): E1501 (+E1505), no panic
        d['profiles'] = []
        d['prevalidation'] = True
        return ['nomatrix-coordinates-no-profiles']
    if k == 9:
        d['loc_mode'] = 'mixed'                  # both location kinds, read WITHOUT matrices: E1502 + E1503, no approximation attempted
        d['matrices'] = None
        d['prevalidation'] = True
        return ['nomatrix-mixed-locations']
    if k == 10:
        d['loc_mode'] = 'index'
        d['matrices'] = None
        d['prevalidation'] = True
        return ['nomatrix-indices']
    if k == 11:
        d['matrices'] = None                     # coordinates, approximated matrices, explicit positive speeds
        d['speeds'] = [rng.choice([1, 5, 20]) for _ in d['profiles']]
        d['prevalidation'] = True
        return ['nomatrix-coordinates-with-speed']
    if k == 12:
        d['loc_mode'] = rng.choice(['mixed', 'index'])
        d['matrices'] = None
        d['speeds'] = [rng.choice([0, -1, 5]) for _ in d['profiles']]      # speeds are not looked at when indices are present
        d['prevalidation'] = True
        return ['nomatrix-%s-with-any-speed' % d['loc_mode']]
    d['matrices'] = matrices(n_loc)
    d['profiles'] = d['profiles'] + [d['profiles'][0]]
    return ['routing-matrix-duplicate-profile']


def count_locations(d):
    n = sum(len(t['places']) for j in d['jobs'] for t in job_tasks(j))
    for v in d['vehicles']:
        for s in v['shifts']:
            n += 1 + (1 if s['end'] is not None else 0) + len(s['reloads'] or [])
    return n


def full_json(d, to_json):
    p = to_json(d)
    # locations: to_json numbers them 1..n in CoordIndex::new order (jobs first, then shifts: start, end, reloads)
    mode = d['loc_mode']
    locs = []

    def conv(loc):
        k = int(loc['lat']) - 1
        if mode == 'coord':
            locs.append(('c', k))
            return loc
        if mode == 'index':
            locs.append(('i', k))
            return {'index': k}
        if mode == 'index-shared':
            kk = max(k - 1, 0)
            locs.append(('i', kk))
            return {'index': kk}
        if mode == 'index-sparse':
            kk = d['sparse'][1] if k == d['sparse'][0] else k
            locs.append(('i', kk))
            return {'index': kk}
        if k % 2 == 0:
            locs.append(('c', k))
            return loc
        locs.append(('i', k))
        return {'index': k}
    for j in p['plan']['jobs']:
        for kind in ('pickups', 'deliveries', 'replacements', 'services'):
            for t in j.get(kind) or []:
                for pl in t['places']:
                    pl['location'] = conv(pl['location'])
    for v in p['fleet']['vehicles']:
        for s in v['shifts']:
            s['start']['location'] = conv(s['start']['location'])
            if 'end' in s:
                s['end']['location'] = conv(s['end']['location'])
            for r in s.get('reloads') or []:
                r['location'] = conv(r['location'])
    d['_locs'] = locs
    if d.get('relations') is not None:
        p['plan']['relations'] = [dict({'type': r['type'], 'jobs': r['jobs'], 'vehicleId': r['vehicle_id']},
                                       **({'shiftIndex': r['shift_index']} if r['shift_index'] is not None else {}))
                                  for r in d['relations']]
    if d.get('objectives') is not None:
        p['objectives'] = d['objectives']
    for prof, sp in zip(p['fleet']['profiles'], d.get('speeds') or []):
        prof['speed'] = sp
    return p


# ------------------------------------------------------------------ matrices with errorCodes (reader step create_transport_costs)
def ec_variants(rng, size2):
    """(label, errorCodes | None, travelTimes length, distances length) around the data length size2 = n*n"""
    def zeros(k):
        return [0] * k

    def mixed(k):
        return [1 if rng.chance(1, 3) else 0 for _ in range(k)]
    extra = rng.range(1, 3)
    return [
        ('ec-none', None, size2, size2),
        ('ec-exact-zeros', zeros(size2), size2, size2),
        ('ec-exact-some-positive', mixed(size2), size2, size2),
        ('ec-exact-negative-codes', [-1] * size2, size2, size2),
        ('ec-longer-surplus-zero', zeros(size2) + zeros(extra), size2, size2),
        ('ec-longer-surplus-zero-after-positive', mixed(size2) + [2] * (extra - 1) + [0], size2, size2),
        ('ec-longer-surplus-zero-first', zeros(size2) + [0] + [3] * (extra - 1), size2, size2),
        ('ec-longer-surplus-positive', zeros(size2) + [1] * extra, size2, size2),
        ('ec-longer-surplus-negative', zeros(size2) + [-1], size2, size2),
        ('ec-shorter-by-1', zeros(size2 - 1), size2, size2),
        ('ec-shorter', zeros(max(size2 - rng.range(2, 5), 0)), size2, size2),
        ('ec-empty', [], size2, size2),
        ('ec-exact-travel-times-short-last-zero', zeros(size2), size2 - 1, size2),
        ('ec-exact-travel-times-short-last-positive', zeros(size2 - 1) + [1], size2 - 1, size2),
        ('ec-exact-distances-short-last-positive', zeros(size2 - 1) + [5], size2, size2 - 1),
        ('ec-none-travel-times-short', None, size2 - 1, size2),
        ('ec-all-positive', [1] * size2, size2, size2),
    ]


def gen_matrix_case(rng, mk_doc, to_json):
    from props import c10
    for _ in range(100):
        d = mk_doc(rng)
        if not c10.py_spec(d) and not c10.py_known(d) and all(v['vehicle_ids'] for v in d['vehicles']):
            break
    d['relations'] = None
    d['objectives'] = None
    d['loc_mode'] = 'index' if rng.chance(1, 3) else 'coord'
    n = count_locations(d)
    profs = []
    for p in d['profiles']:
        if p not in profs:
            profs.append(p)
    ms, labels = [], []
    dev = rng.below(len(profs))
    for k, p in enumerate(profs):
        vs = ec_variants(rng, n * n)
        lab, ec, lt, ld = rng.choice(vs) if k == dev else rng.choice(vs[:3])
        m = {'profile': p, 'travelTimes': [1] * lt, 'distances': [1] * ld}
        if ec is not None:
            m['errorCodes'] = ec
        ms.append(m)
        if k == dev:
            labels.append(lab)
    d['matrices'] = ms
    problem = full_json(d, to_json)
    return {'op': 'matrix', 'doc': d, 'labels': labels, 'problem': problem, 'matrices': ms, 'profiles': profs}


def matrix_data_py(m):
    """the documented behaviour of the matrix step: None = E0002 (fewer error codes than distances, or an entry that is not marked
    unreachable has no data)"""
    tt, dd, ec = m['travelTimes'], m['distances'], m.get('errorCodes')
    if ec is None:
        return (list(tt), list(dd))
    if len(ec) < len(dd):
        return None
    if len(ec) != len(dd) or len(tt) != len(dd):          # 7d3c5fe (finding C16-F4): the three lengths must agree
        return None
    du, di = [], []
    for i, e in enumerate(ec):
        if e > 0:
            du.append(-1)
            di.append(-1)
        elif i < len(tt) and i < len(dd):
            du.append(tt[i])
            di.append(dd[i])
        else:
            return None
    return (du, di)


def round_sqrt(n):
    s = int(n ** 0.5)
    while s * s > n:
        s -= 1
    while (s + 1) * (s + 1) <= n:
        s += 1
    return s + 1 if n - s * s > s else s


def expected_transport(c):
    """'err' (E0002) | ('ok', size, [lengths])"""
    datas = [matrix_data_py(m) for m in c['matrices']]
    if any(x is None for x in datas):
        return 'err'
    if any(len(a) != len(b) for a, b in datas):
        return 'err'
    size = round_sqrt(len(datas[0][0]))
    if any(round_sqrt(len(a)) != size for a, _ in datas):
        return 'err'
    if any(len(a) != size * size for a, _ in datas):        # "square matrices of the same size" (17fc8e9)
        return 'err'
    return ('ok', size, [len(a) for a, _ in datas])


def oracle_matrix(c, impl):
    from props import c10
    rd, v = impl['read'], impl['validate']
    lab = '/'.join(c.get('labels', []))
    out = []
    if v['k'] != 'ok':
        out.append({'class': 'matrix-case-not-accepted-by-validation:' + lab, 'what': str(v)[:300]})
    exp = expected_transport(c)
    if rd['k'] == 'panic':
        out.append({'class': matrix_panic_class(c, exp), 'what': rd['msg'][:300]})
    elif exp == 'err':
        if c10.outcome(rd) != ('err', (2,)):
            out.append({'class': 'matrix-without-data-or-not-square-not-reported-as-E0002:' + lab, 'what': str(rd)[:300]})
    elif rd['k'] != 'ok':
        out.append({'class': 'consistent-matrix-rejected:' + lab, 'what': str(rd)[:300]})
    return out


def compare_matrix(c, impl, model):
    """model = run_transport: [1] = E0002, [0, size, len..] = Ok"""
    from props import c10
    exp = expected_transport(c)
    want = [1] if exp == 'err' else [0, exp[1]] + list(exp[2])
    if list(model) != want:
        return 'create_transport_costs: python copy %s, Model/Validation.v %s' % (want, model)
    got = c10.outcome(impl['read'])
    if model == [1]:
        return None if got == ('err', (2,)) else 'read: impl %s, model Err(E0002)' % (got,)
    # a successful step yields full size x size vectors that cover the distances (theorem C10_transport_ok_is_square_and_covers_distances)
    return None if got == ('ok',) else 'read: impl %s %s, model Ok' % (got, impl['read'].get('msg', impl['read'].get('causes', '')))


def prevalidation_term(c):
    """Gallina term for the step before validation when no matrix is supplied (map_to_problem_with_approx)"""
    from coqterm import lst, string, zlist, boolean
    d = c['doc']
    has_idx = any(tuple(l)[0] == 'i' for l in d['_locs'])
    return 'pre_validation_panics %s %s %s' % (boolean(has_idx), lst(d['profiles'], string), zlist(d.get('speeds') or []))


def compare_prevalidation(c, impl, model):
    panics = impl['read']['k'] == 'panic'
    if (model == 'true') != panics:
        return 'map_to_problem_with_approx: model says panic=%s, implementation %s %s' % (model, impl['read']['k'], impl['read'].get('msg', ''))
    return None


def matrix_panic_class(c, exp):
    return 'matrix-step-panics:' + '/'.join(c.get('labels', []))


# ------------------------------------------------------------------ structural causes of crashes outside the Coq-modelled fragment
def crash_causes(problem, matrices):
    """known crash classes, decided on the JSON document itself"""
    out = []
    fleet, plan = problem.get('fleet', {}), problem.get('plan', {})
    # relation naming `break` / `reload` / `recharge` more often than the shift has conditional jobs of that kind
    vmap = {}
    for v in fleet.get('vehicles', []):
        for i in v.get('vehicleIds', []):
            vmap[i] = v
    for r in plan.get('relations') or []:
        v = vmap.get(r.get('vehicleId'))
        si = r.get('shiftIndex') or 0
        if v is None or si >= len(v.get('shifts', [])):
            continue
        s = v['shifts'][si]
        have = {'break': sum(1 for b in s.get('breaks') or [] if 'places' in b), 'reload': len(s.get('reloads') or []),
                'recharge': len((s.get('recharges') or {}).get('stations', []))}
        if any(r['jobs'].count(k) > n for k, n in have.items()):
            out.append('relation-special-id-without-conditional-job-panics-in-read-locks')
            break
    # (a location index outside the matrix - former X12 - breaks E1504 now, an unparsable matrix timestamp - former X13 - is E0002:
    #  neither is a crash class of a rule-abiding document any more; a recurrence is `read-panics-unexplained` / a code mismatch)
    if not matrices and any(p.get('speed') is not None and p['speed'] <= 0 for p in fleet.get('profiles', [])):
        out.append('profile-speed-not-positive-panics-before-validation')
    return out


# ------------------------------------------------------------------ oracle
def reference(d):
    from props import c10
    base = c10.py_spec(d)
    if d.get('matrices') is not None or d['loc_mode'] != 'coord':
        base = [c for c in base if not 1500 <= c < 1600] + ref_routing(d, base)
    return sorted(set(base + ref_objectives(d) + ref_relations(d)))


def oracle(c, impl):
    from props import c10
    d = c['doc']
    ref = reference(d)
    out = []
    v, rd = impl['validate'], impl['read']
    lab = '/'.join(c.get('labels', []))
    if v['k'] == 'panic':
        out.append({'class': 'validation-panics:' + lab, 'what': v['msg'][:300]})
    elif v['k'] == 'deser':
        out.append({'class': 'generator-produced-undeserialisable-document:' + lab, 'what': str(rd)[:300]})
    else:
        got = c10.codes_of(v) if v['k'] == 'err' else []
        if got != ref:
            out.append({'class': 'validation-codes-differ-from-reference:missing=%s:extra=%s' % ([x for x in ref if x not in got], [x for x in got if x not in ref]),
                        'what': 'validate reported %s, reference (rules as documented / as transcribed) %s; %s' % (got, ref, lab)})
    if rd['k'] == 'panic':
        # the recorded crash classes describe documents that break no rule; a crash of a document the rules reject is something else
        causes = crash_causes(c['problem'], c.get('matrices')) if not ref else []
        out = [o for o in out if not (causes and o['class'].startswith('validation-panics'))]
        out.append({'class': '+'.join(causes) if causes else 'read-panics-unexplained:' + lab, 'what': rd['msg'][:300]})
    elif ref:
        got = c10.codes_of(rd) if rd['k'] == 'err' else []
        if got != ref and v['k'] != 'panic':
            out.append({'class': 'read-codes-differ-from-reference:' + lab, 'what': 'read reported %s, reference %s' % (got, ref)})
    elif rd['k'] == 'err':
        got = c10.codes_of(rd)
        if any(x >= 1000 for x in got):
            out.append({'class': 'read-reports-validation-code-not-in-reference:' + lab, 'what': str(got)})
        elif got != [2]:
            out.append({'class': 'valid-document-rejected-with-generic-code:%s:%s' % (got, lab), 'what': str(rd.get('causes'))[:300]})
    elif expects_e0002(d):
        out.append({'class': 'matrix-timestamp-not-reported-as-E0002:' + lab, 'what': 'read accepted %s' % [m.get('timestamp') for m in d['matrices']]})
    return out
