"""C06 sub-stream `c06_time` — the transport constraint over the non-trivial cost providers:
 * reserved times (required breaks: reserved_time.rs DynamicTransportCost / DynamicActivityCost / create_reserved_times_fn) and
 * time-dependent routing (costs.rs TimeAwareMatrixTransportCost, linear interpolation of durations, step-wise distances),
the real schedule / cached latest-arrival state / per-alternative verdict / eval_job_insertion_in_route vs the model
Model/TimeDep.v, and the property (accepted => the tour with the activity is feasible for an independent step-by-step simulation
that takes the break at its latest start and looks travel times up at the DEPARTURE time) on the implementation's own output.
Registered by `SUBSTREAMS = [..., 'c06_time']` in tools/props/c06.py; theorems `C06_rt_*`, `C06_td_*` in Properties/C06.v."""
from coqterm import z, zlist, lst, nat
from props import corelib as K
from props.corelib import tz, INF

ID = 'C06'            # set by the driver to the parent's id
HARNESS = 'c06_time'
COQ_IMPORTS = 'From VRP Require Import Base.Tac Model.Core Spec.Feasible Model.Eval Model.TimeDep.'
MODEL_TARGETS = ['theories/Model/TimeDep.vo']
SHARD = 25
SIZES = {'quick': 280, 'thorough': 6000, 'search': 3000}
RULE = ('cases: random worlds (3-6 locations, metric / non-metric asymmetric matrices, open / closed tours, finite / unbounded shift '
        'ends), tours of 0-5 activities, a single job with 1-2 places x 1-2 windows at position Any / Concrete / Last; half of the '
        'cases with RESERVED TIMES of the vehicle (1-2 required breaks [start, end] + duration as time windows or as offsets from the '
        'departure, the latest start placed on / next to an arrival, a departure, a service start or a window edge of the tour), the '
        'other half with TIME-DEPENDENT routing (2-4 matrices of the profile at timestamps 2^k apart, every entry changing with an '
        'integer slope in {-2 .. 2} per time unit between two timestamps: slope -1 is the FIFO boundary, -2 violates FIFO); a few with '
        'both; in a third of the cases the candidate is a pure DELAY (a service without window at the location in front of an inner '
        'leg) whose length is the largest delay the simulation still finds feasible at that leg, -1 / +0 / +1 / +2. non-trivial = distinct cases with a tour activity in which the feature is active (a break inside the tour horizon / '
        'a duration that changes inside it).')
TRUSTED = ['c06_time: the Python step-by-step simulation in tools/props/c06_time.py (break taken at its latest start: driving and '
           'service are suspended, waiting absorbs it; travel time = the interpolated duration at the departure time), cross-checked '
           'against the Coq simulation Spec/FeasibleT.v on the tour and on every alternative of every case',
           'c06_time: reserved times / time-aware matrices are installed through the vrp-core API by harness/src/bin/c06_time.rs '
           '(the pragmatic reader of required breaks / routing matrices is not in the loop); one vehicle, SingleDimLoad']
ASSUMPTIONS = ['integer-valued data below 2^40; time-dependent durations change with integer slopes between timestamps whose distance '
               'is a power of two, so that every interpolated f64 value is an integer and exact']


# ---------------------------------------------------------------- generation
def gen_reserved(rng, c):
    """1-2 required breaks inside the shift; the latest start is anchored on the timeline of the tour"""
    t = K.full_tour(c, c['tour'])
    _, _, sched, _ = K.simulate(c, t)
    ss = c['veh']['shift_start']
    pts = [x for s in sched for x in s] + [a['tws'] for a in t if a['tws'] < INF // 2] + [a['twe'] for a in t if a['twe'] < INF // 2]
    for p in c['job']['places']:
        for w in p['tws']:
            pts += [tz(x) for x in w if tz(x) < INF // 2]
    spans = []
    last_end = ss - 1
    for _ in range(rng.choice([1, 1, 1, 2])):
        e = (rng.choice(pts) + rng.range(-3, 12)) if rng.chance(3, 4) else ss + rng.range(0, 200)
        e = max(e, last_end + 1)
        s = max(last_end + 1, e - rng.range(0, 20))
        d = rng.choice([1, 5, 10, 10, 20, 40])
        spans.append([s, e, d])
        last_end = e + (d + rng.range(0, 30) if rng.chance(4, 5) else rng.range(0, d))    # sometimes the next span starts inside this break
    off = rng.chance(1, 4)
    if off:
        spans = [[s - ss, e - ss, d] for s, e, d in spans]
    if len(spans) == 2 and rng.chance(1, 3):
        spans.reverse()          # create_reserved_times_fn sorts
    return {'offset': off, 'spans': spans}


def gen_td(rng, w, decreasing_bias=False):
    """2-4 matrices, timestamps a power of two apart, integer slopes between them (duration change = slope * gap)"""
    gap = rng.choice([16, 32])
    k = rng.choice([2, 3, 3, 4])
    t0 = w['veh']['shift_start'] + rng.choice([0, 0, 8, 24])
    base = [x + (gap if x > 0 and rng.chance(1, 2) else 0) for x in w['dur']]
    r = rng.below(10)
    slopes = [0, 0, 1, 2] if r < 3 else ([-1, -1, 0, 0, 1] if r < 8 else [-2, -1, 0, 1])
    ms = [{'ts': t0, 'dur': base, 'dist': list(w['dist'])}]
    for i in range(1, k):
        cur = []
        for x in ms[-1]['dur']:
            y = x + rng.choice(slopes) * gap if x > 0 else 0
            cur.append(y if y >= 0 else x)
        dist = [d + rng.range(0, 5) if d > 0 else 0 for d in ms[-1]['dist']]
        ms.append({'ts': t0 + i * gap, 'dur': cur, 'dist': dist})
    if rng.chance(1, 25):
        # the unreachable marker (-1) in one cell of one matrix: interpolate_duration keeps the left value next to it
        m = rng.choice(ms)
        cells = [k for k, x in enumerate(m['dur']) if x > 0]
        if cells:
            m['dur'] = list(m['dur'])
            m['dur'][rng.choice(cells)] = -1
    return rng.shuffle(ms) if rng.chance(1, 4) else ms


def gen_td_trap(rng):
    """time-dependent durations that DROP (FIFO kept: slope -1) right where the cached latest arrival of a later stop is computed:
    start -> A -> B(window closes at T) with dur(A -> B) falling from T - ts0 .. to its half"""
    gap = rng.choice([16, 32])
    n = 3
    hi = gap + rng.range(4, 20)
    lo = hi - gap
    far = rng.range(5, 15)
    base = [0, far, far + hi, far, 0, hi, far + hi, hi, 0]
    late = [0, far, far + hi, far, 0, lo, far + hi, lo, 0]
    t0 = rng.choice([0, 8, 16])
    dist = [0 if i == j else 10 for i in range(n) for j in range(n)]
    closeB = t0 + gap + lo + rng.range(0, 3)          # B's window end: reachable when leaving A at t0 + gap (duration lo)
    c = {'n': n, 'dur': base, 'dist': dist,
         'veh': {'start': 0, 'end': 0, 'shift_start': 0, 'shift_end': 'inf', 'cap': 10, 'costs': [0, 1, 0, 0, 0]},
         'td': [{'ts': t0, 'dur': base, 'dist': dist}, {'ts': t0 + gap, 'dur': late, 'dist': dist}],
         'tour': [{'job': 1, 'loc': 1, 'svc': 0, 'tws': 0, 'twe': 'inf', 'dem': [0, 0, 0, 0]},
                  {'job': 2, 'loc': 2, 'svc': 0, 'tws': 0, 'twe': closeB, 'dem': [0, 0, 0, 0]}],
         'goal': 'cost', 'pos': 'any',
         'job': {'id': 90, 'places': [{'loc': 1, 'svc': rng.range(1, gap), 'tws': [[0, 'inf']]}], 'dem': [0, 0, 0, 0]}}
    return c


def generate(rng, tier, n):
    cases = []
    for _ in range(n):
        r = rng.below(20)
        if r == 0:
            # create_reserved_times_fn on random span lists (accepted / rejected)
            spans = []
            for _ in range(rng.range(1, 3)):
                s = rng.range(0, 60)
                spans.append([s, s + rng.range(0, 20), rng.choice([1, 5, 10])])
            w = K.gen_world(rng)
            cases.append(dict(w, mode='create', reserved={'offset': False, 'spans': spans}))
            continue
        if r == 1:
            cases.append(gen_td_trap(rng))
            continue
        w = K.gen_world(rng)
        c = dict(w)
        c['veh'] = dict(w['veh'])
        use_td = r >= 11 or r == 2
        use_rt = r <= 10
        if use_td:
            c['td'] = gen_td(rng, w)
            c['dur'] = sorted(c['td'], key=lambda m: m['ts'])[0]['dur']
        tour = K.gen_tour(rng, c, tight=rng.chance(1, 3))
        c['tour'] = tour
        c['goal'] = 'cost'
        c['job'] = K.gen_boundary_single(rng, c, tour) if rng.chance(2, 5) else K.gen_single(rng, c, tour)
        q = rng.below(10)
        c['pos'] = 'any' if q < 6 else ('last' if q < 7 else ['concrete', rng.below(len(tour) + 3)])
        if use_rt:
            c['reserved'] = gen_reserved(rng, c)
        if tour and rng.chance(1, 3):
            boundary_job(rng, c)
        cases.append(c)
    return cases


def boundary_job(rng, c):
    """replace the candidate by a pure delay (a service of length s at the location of the activity in front of an inner leg, no
    window, no demand) whose length sits on the TRUE boundary of that leg: the largest delay the simulation still finds feasible,
    -1 / +0 / +1 / +2 - the place where a cached latest arrival that is too late (or too early) shows"""
    t = K.full_tour(c, c['tour'])
    if not feasible_t(c, t):
        return
    legs = [i for i in range(len(t) - 1)]
    if not legs:
        return
    idx = rng.choice(legs)

    def ok(s):
        x = {'loc': t[idx]['loc'], 'svc': s, 'tws': 0, 'twe': INF, 'dem': [0, 0, 0, 0], 'term': False}
        return simulate_t(c, t[:idx + 1] + [x] + t[idx + 1:])[0]
    best = None
    for s in range(0, 260):
        if ok(s):
            best = s
    if best is None or best >= 259:
        return
    s = max(0, best + rng.choice([-1, 0, 0, 1, 1, 2]))
    c['job'] = {'id': 90, 'places': [{'loc': t[idx]['loc'], 'svc': s, 'tws': [[0, 'inf']]}], 'dem': [0, 0, 0, 0]}
    c['pos'] = ['concrete', idx] if rng.chance(2, 3) else 'any'


def corpus():
    return []


# ---------------------------------------------------------------- rendering
def g_rt(c):
    r = c.get('reserved')
    if not r:
        return 'None'
    return '(rt_create %s %s)' % ('true' if r.get('offset') else 'false',
                                  lst(r['spans'], lambda s: '(mkRS %s %s %s)' % (z(s[0]), z(s[1]), z(s[2]))))


def g_td(c):
    return lst(c.get('td') or [], lambda m: '(mkTD %s %s %s)' % (z(m['ts']), zlist(m['dur']), zlist(m['dist'])))


def model_term(c):
    if c.get('mode') == 'create':
        return 'run_rt_create %s' % lst(c['reserved']['spans'], lambda s: '(mkRS %s %s %s)' % (z(s[0]), z(s[1]), z(s[2])))
    return 'run_c06_time (mkTW %s %s %s) %s %s %s' % (K.g_world(c), g_rt(c), g_td(c), lst(c['tour'], K.g_tact), K.g_single(c['job']),
                                                     K.g_pos(c['pos']))


def canon_t(x):
    return 'inf' if x == 'inf' or (isinstance(x, (int, float)) and x >= INF // 2) else x


def canon_sched(s):
    return [[canon_t(a), canon_t(b)] for a, b in s]


def digest_vectors(digest):
    import ast
    vf = []
    for s in digest or []:
        if s.startswith('vf:'):
            xs = ast.literal_eval(s[3:].replace('inf', '1e999'))
            vf.append(['inf' if x >= 1e300 else (int(x) if x == int(x) else x) for x in xs])
    return vf


def compare(c, impl, model):
    if 'panic' in impl:
        return 'implementation panicked: %s' % impl['panic']
    if c.get('mode') == 'create':
        return None if (model == 1) == bool(impl['created']) else 'create_reserved_times_fn: impl %s model %s' % (impl['created'], model)
    sched, states, feas0, times, alts, res, after = model
    if canon_sched(impl['before']['sched']) != canon_sched(sched):
        return 'schedule: impl %s model %s' % (impl['before']['sched'], sched)
    vf = digest_vectors(impl.get('digest'))
    ms = [[canon_t(x) for x in v] for v in states]
    if sorted(map(str, vf)) != sorted(map(str, ms)):
        return 'cached latest-arrival / waiting states: impl %s model %s' % (vf, ms)
    # python simulation vs the Coq specification
    t = K.full_tour(c, c['tour'])
    ok, psched = simulate_t(c, t)
    if [list(x) for x in psched[1:]] != [list(x) for x in times]:
        return 'python simulation disagrees with the Coq specification (times): python %s coq %s' % (psched[1:], times)
    if (feas0 == 1) != (ok and load_ok(c, t)):
        return 'python simulation disagrees with the Coq specification on the tour'
    if len(alts) != len(impl['alts']):
        return 'number of alternatives: impl %d model %d' % (len(impl['alts']), len(alts))
    garbage = False
    for ia, (key, verdict, est, asched, afeas) in zip(impl['alts'], alts):
        ikey = [ia['idx'], ia['place'], canon_t(tz(ia['tws'])), canon_t(tz(ia['twe']))]
        if ikey != [canon_t(x) for x in key]:
            return 'alternative order: impl %s model %s' % (ikey, key)
        iv = [0] if ia['goal'] is None else [1, ia['goal']['code'], 1 if ia['goal']['stopped'] else 0]
        if iv != list(verdict):
            return 'verdict of alternative %s: impl %s model %s' % (ikey, iv, list(verdict))
        if canon_sched(ia['sched']) != canon_sched(asched):
            return 'schedule with alternative %s inserted: impl %s model %s' % (ikey, ia['sched'], asched)
        if ia['goal'] is None:
            if isinstance(ia['est'][0], int) and abs(est) < INF // 4:
                if ia['est'][0] != est:
                    return 'cost estimate of alternative %s: impl %s model %s' % (ikey, ia['est'], est)
            else:
                garbage = True        # an estimate computed from f64::MAX: not compared, and the choice among such alternatives neither
        t2 = alt_tour(c, t, c['job'], ia)
        if (afeas == 1) != feasible_t(c, t2):
            return 'python simulation disagrees with the Coq specification on alternative %s' % ikey
    e = impl['eval']
    if garbage:
        return None
    if e['ok']:
        a = e['acts'][0]
        got = [1, a['index'], a['place'], a['loc'], canon_t(tz(a['svc'])), canon_t(tz(a['tws'])), canon_t(tz(a['twe'])), e['cost'][0]]
        if got != [canon_t(x) for x in res]:
            return 'eval: impl %s model %s' % (got, res)
        if canon_sched(e['after']['sched']) != canon_sched(after):
            return 'schedule after the insertion: impl %s model %s' % (e['after']['sched'], after)
    else:
        got = [0, e['code'], 1 if e['stopped'] else 0]
        if got != list(res):
            return 'eval: impl %s model %s' % (got, list(res))
    return None


# ---------------------------------------------------------------- independent step-by-step simulation (oracle)
def breaks_of(c):
    """[(latest start, duration)] in absolute time, sorted"""
    r = c.get('reserved')
    if not r:
        return []
    off = c['veh']['shift_start'] if r.get('offset') else 0
    return sorted((s[1] + off, s[2]) for s in r['spans'])


def td_duration(c, i, j, t):
    """documented meaning of time-aware matrices: the matrix with timestamp ts holds the travel times of a departure at ts;
    in between, linear interpolation; before the first / after the last timestamp the first / last matrix"""
    n = c['n']
    td = c.get('td')
    if not td:
        return c['dur'][i * n + j]
    ms = sorted(td, key=lambda m: m['ts'])
    if t <= ms[0]['ts']:
        return ms[0]['dur'][i * n + j]
    for a, b in zip(ms, ms[1:]):
        if t < b['ts']:
            va, vb = a['dur'][i * n + j], b['dur'][i * n + j]
            if va < 0 or vb < 0:
                return va        # a negative value marks an unreachable location: no interpolation through the marker
            num = (t - a['ts']) * (vb - va)
            den = b['ts'] - a['ts']
            return va + num // den if num % den == 0 else va + num / den
    return ms[-1]['dur'][i * n + j]


def work(now, amount, brs, hits=None):
    """advance `amount` units of driving / service starting at `now`; a break that starts right now or before the work is complete
    suspends it (a break starting exactly when the work completes belongs to what follows)"""
    while True:
        hit = None
        for e, d in brs:
            if now == e or now < e < now + amount:
                hit = (e, d)
                break
        if hit is None:
            return now + amount
        e, d = hit
        if hits is not None:
            hits.append(e)
        amount -= e - now
        now = e + d


def wait_until(now, until, brs, hits=None):
    """waiting absorbs breaks; when the window opens while a break is running, the service starts when the break ends
    (a window that opens exactly when the break starts: the service may start first)"""
    if until <= now:
        return now
    for e, d in brs:
        if now <= e < until and hits is not None:
            hits.append(e)
        if now <= e < until < e + d:
            return e + d
    return until


def simulate_t(c, t, segs=None):
    """(time_ok, [(arrival, service start, departure)]) of the tour t (start .. end) under breaks / time-dependent durations;
    segs (optional list) receives, per drive and per stop, the breaks that touched it"""
    brs = breaks_of(c)
    loc, now = t[0]['loc'], c['veh']['shift_start']
    out = [(now, now, now)]
    ok = True
    for a in t[1:]:
        D = td_duration(c, loc, a['loc'], now)
        h1, h2 = [], []
        arr = work(now, D, brs, h1)
        if arr > a['twe']:
            ok = False
        start = wait_until(arr, a['tws'], brs, h2)
        if start > a['twe']:
            ok = False
        dep = work(start, a['svc'], brs, h2)
        if segs is not None:
            segs.append(sorted(set(h1)))
            segs.append(sorted(set(h2)))
        out.append((arr, start, dep))
        loc, now = a['loc'], dep
    return ok, out


def load_ok(c, t):
    cap = c['veh']['cap']
    load = sum(a['dem'][2] for a in t)
    ok = load <= cap
    for a in t:
        load += a['dem'][0] + a['dem'][1] - a['dem'][2] - a['dem'][3]
        ok = ok and load <= cap
    return ok


def feasible_t(c, t):
    return simulate_t(c, t)[0] and load_ok(c, t)


def alt_tour(c, t, job, alt):
    p = job['places'][alt['place']]
    x = {'loc': t[alt['idx']]['loc'] if p['loc'] is None else p['loc'], 'svc': tz(p['svc']), 'tws': tz(alt['tws']), 'twe': tz(alt['twe']),
         'dem': job['dem'] or [0, 0, 0, 0], 'term': False}
    return t[:alt['idx'] + 1] + [x] + t[alt['idx'] + 1:]


def feature_tag(c):
    return ('reserved' if c.get('reserved') else '') + ('+' if c.get('reserved') and c.get('td') else '') + ('td' if c.get('td') else '') or 'plain'


def fifo_ok(c):
    """t + dur(t) non-decreasing for every pair of locations (integer slopes >= -1)"""
    td = c.get('td')
    if not td:
        return True
    ms = sorted(td, key=lambda m: m['ts'])
    for a, b in zip(ms, ms[1:]):
        gap = b['ts'] - a['ts']
        if any(y - x < -gap for x, y in zip(a['dur'], b['dur'])):
            return False
    return True


def non_decreasing(c):
    td = c.get('td')
    if not td:
        return True
    ms = sorted(td, key=lambda m: m['ts'])
    return all(y >= x for a, b in zip(ms, ms[1:]) for x, y in zip(a['dur'], b['dur']))


def oracle(c, impl):
    if 'panic' in impl:
        return [{'class': 'panic', 'what': 'evaluator panicked: ' + impl['panic']}]
    if c.get('mode') == 'create':
        return []
    t = K.full_tour(c, c['tour'])
    if not feasible_t(c, t):
        return []          # the property speaks about feasible tours
    v = []
    tag = feature_tag(c)
    if c.get('td'):
        tag += '-fifo' if fifo_ok(c) else '-nonfifo'
        tag += '-nondecreasing' if non_decreasing(c) else '-decreasing'
    seen = set()

    def unsound_class(t2, real_sched, idx):
        segs = []
        tok, sched = simulate_t(c, t2, segs)
        if tok and load_ok(c, t2):
            return None, None
        late = [k for k, (a, x) in enumerate(zip(sched, t2)) if a[0] > x['twe'] or a[1] > x['twe']]
        where = 'capacity' if tok else ('target' if late and late[0] == idx + 1 else 'later-activity')
        # structural classes of the recorded findings first (root cause visible in the input / in the real schedule)
        if not tok and any(len(h) >= 2 for h in segs):
            return 'unsound-reserved-segment-spans-two-breaks', late
        if not tok and c.get('reserved') and real_sched is not None and any(x == 'inf' for ab in real_sched for x in ab):
            return 'unsound-reserved-accepted-schedule-holds-unbounded-time', late
        if not tok and c.get('td') and not non_decreasing(c) and where == 'later-activity':
            return 'unsound-td-decreasing-durations-later-activity', late
        return 'unsound-%s-%s' % (tag, where), late

    for alt in impl['alts']:
        if alt['goal'] is None:
            cls, late = unsound_class(alt_tour(c, t, c['job'], alt), alt.get('sched'), alt['idx'])
            if cls and cls not in seen:
                seen.add(cls)
                v.append({'class': cls, 'what': 'the goal accepts alternative %s but the simulation finds the tour infeasible (late at %s)' %
                          ({k: alt[k] for k in ('idx', 'place', 'tws', 'twe')}, late)})
    e = impl['eval']
    if e['ok']:
        a = e['acts'][0]
        cls, late = unsound_class(alt_tour(c, t, c['job'], {'idx': a['index'], 'place': a['place'], 'tws': a['tws'], 'twe': a['twe']}),
                                  e['after']['sched'], a['index'])
        if cls and cls not in seen:
            v.append({'class': cls, 'what': 'eval_job_insertion_in_route returned a position the simulation finds infeasible (late at %s)' % late})
    return v


def nontrivial_key(c, impl):
    if 'panic' in impl or c.get('mode') == 'create' or not c['tour']:
        return None
    return (str(c['tour']), str(c['job']), str(c['pos']), str(c['veh']), str(c.get('reserved')), str(c.get('td')))


def classify(c, impl):
    if c.get('mode') == 'create':
        return ['mode=create'] + ([] if 'panic' in impl else ['created=%s' % impl['created']])
    labs = ['feature=' + feature_tag(c), 'tour_len=%d' % len(c['tour']), 'closed' if c['veh']['end'] is not None else 'open',
            'pos=' + (c['pos'] if isinstance(c['pos'], str) else 'concrete')]
    if c.get('reserved'):
        labs.append('breaks=%d%s' % (len(c['reserved']['spans']), '-offset' if c['reserved'].get('offset') else ''))
    if c.get('td'):
        labs.append('td=' + ('fifo' if fifo_ok(c) else 'nonfifo') + ('-nondecreasing' if non_decreasing(c) else '-decreasing'))
    if 'panic' not in impl:
        t = K.full_tour(c, c['tour'])
        segs = []
        ok, _ = simulate_t(c, t, segs)
        labs.append('tour_feasible=%s' % (ok and load_ok(c, t)))
        if c.get('reserved'):
            labs.append('break_inside_tour=%s' % any(segs))
            if any(x == 'inf' for ab in impl['before']['sched'] for x in ab):
                labs.append('cached-schedule-holds-unbounded-time')
        e = impl['eval']
        labs.append('verdict=' + ('success' if e['ok'] else 'fail(code=%s,stopped=%s)' % (e['code'], e['stopped'])))
        labs.append('accepted_alternatives=%d' % min(3, sum(1 for a in impl['alts'] if a['goal'] is None)))
    return labs


def shrink_candidates(c):
    if c.get('mode') == 'create':
        return
    for i in range(len(c['tour'])):
        d = dict(c)
        d['tour'] = c['tour'][:i] + c['tour'][i + 1:]
        yield d
    r = c.get('reserved')
    if r and len(r['spans']) > 1:
        for k in range(len(r['spans'])):
            d = dict(c)
            d['reserved'] = dict(r, spans=r['spans'][:k] + r['spans'][k + 1:])
            yield d
    for pi, p in enumerate(c['job']['places']):
        if len(c['job']['places']) > 1:
            d = dict(c)
            d['job'] = dict(c['job'], places=c['job']['places'][:pi] + c['job']['places'][pi + 1:])
            yield d
        for wi in range(len(p['tws'])):
            if len(p['tws']) > 1:
                d = dict(c)
                ps = [dict(q) for q in c['job']['places']]
                ps[pi]['tws'] = p['tws'][:wi] + p['tws'][wi + 1:]
                d['job'] = dict(c['job'], places=ps)
                yield d
