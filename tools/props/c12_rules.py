"""C12, sub-stream `c12_rules`: the STRUCTURAL tie of the bundled checker (vrp-pragmatic/src/checker/*.rs) to its Coq model
Model/Checker.v, rule group by rule group.

generate : the (problem, solution, breach, site) cases of the parent plugin (props/c12.py `generate`: real solver output, every
           breach class of Spec/Mutations.v at systematically enumerated sites), from this stream's own random stream; corpus: the
           parent's corpus (one case per recorded finding).  Every case is op "check" of the binary `c12`: the REAL checker, whose
           full error list comes back.
model    : Checker.run_rules_t evaluated by vm_compute on the rendered pair - the very documents, base or breached, that the real
           checker gets: per rule group the model's result  COk | CErr [[error classes]] | CPanic tag.
compare  : every error string of the real checker is projected to its error class (message prefix).  The set of classes must be
           EXACTLY the set the model's rule functions produce: one class per failing rule function (capacity, relations, breaks
           first part, vehicles, jobs presence, groups, routing, shift limits, shift time, recharge); where the code's message
           depends on HashMap iteration order the model lists the candidates and exactly one of them must occur.  Not modelled and
           therefore taken out of the comparison: `cannot match activities to jobs` (check_jobs_match / activity_matcher.rs) and
           `amount of breaks does not match` (needs the break policy and the document's `violations`; when it occurs nothing is
           said about the breaks group, whose loop it may have cut short).  A panic of the real checker must be the model's Panic.
oracle   : none (the property is judged by the parent stream); a disagreement here is a broken correspondence.
"""
import glob
import json
import os
import re
from props import c12, e2e

ID = 'C12'
HARNESS = 'c12'
COQ_IMPORTS = 'From VRP Require Import Base.Tac Model.Core Spec.Valid Spec.Relations Model.Checker.'
MODEL_TARGETS = ['theories/Model/Checker.vo']
SHARD = 24
SIZES = {'quick': 20, 'thorough': 150, 'search': 10}      # number of solved pairs (see c12.SIZES)
RULE = ('the cases of the parent stream (own seed): solver output and the same documents with each breach of Spec/Mutations.v '
        'injected; per case the error classes of the real checker = the error classes of Model/Checker.v, rule group by rule group '
        '(capacity, relations, breaks first part, assignment without check_jobs_match, routing, limits). non-trivial = distinct '
        '(P, S, class, site) with at least one tour.')
TRUSTED = ['c12_rules: projection of the real checker\'s messages to error classes by message prefix (tools/props/c12_rules.py '
           'PREFIXES); rendering assumptions listed in the header of Model/Checker.v']

GROUPS = ['load', 'relations', 'breaks', 'assignment', 'routing', 'limits']
NOT_MODELLED = {'EJobsMatch', 'EBreakAmount'}

# message prefix -> error class of Model/Checker.v (first match wins)
PREFIXES = [
    ('cannot find vehicle with id', 'ENoVehicle'),
    ('cannot find shift for tour', 'ENoShift'),
    ('cannot get first activity', 'ENoFirstActivity'), ('cannot get last activity', 'ENoFirstActivity'),
    ("cannot find job with id '", 'ENoJob'),
    ('cannot find job with id ', 'EUsedJobUnknown'),
    ('cannot find break for tour', 'ENoBreak'), ('cannot find reload for tour', 'ENoReload'),
    ('cannot find recharge for tour', 'ENoRecharge'), ('unknown activity type', 'EUnknownActivityType'),
    ('checker requires that multi job activity must have tag', 'EMultiJobTag'),
    ('cannot match activity to job place', 'ENoJobPlace'),
    ('cannot find coordinate in coord index', 'ENoCoordinate'), ('attempt to get value out of bounds', 'EMatrixBounds'),
    ('load exceeds capacity', 'ELoadExceeds'), ('load mismatch', 'ELoadMismatch'),
    ('max distance limit violation', 'EMaxDistance'), ('shift time limit violation', 'EMaxDuration'),
    ('tour size limit violation', 'ETourSize'), ('tour time is outside shift time', 'EShiftTime'), ('empty tour', 'EEmptyTour'),
    ('no activities in first stop', 'ENoActivities'), ('arrival time mismatch', 'EArrival'),
    ('distance mismatch for tour statistic', 'ETourDistance'), ('distance mismatch for', 'EStopDistance'),
    ('duration mismatch for tour statistic', 'ETourDuration'), ('solution statistic mismatch', 'ESolutionStat'),
    ('used vehicle with unknown id', 'EUnknownVehicle'), ("vehicle with '", 'EVehicleTwice'),
    ('job served in multiple tours', 'EMultipleTours'), ('not all tasks served for', 'ETasksCount'),
    ('found pickup after delivery', 'EPickupAfterDelivery'),
    ('duplicated job ids in the list of unassigned jobs', 'EUnassignedDup'),
    ('unknown job id in the list of unassigned jobs', 'EUnassignedUnknown'),
    ('job present as assigned and unassigned', 'EBoth'),
    ('amount of jobs present in problem and solution', 'EJobCount'),
    ('job groups are not respected', 'EGroups'), ('cannot match activities to jobs', 'EJobsMatch'),
    ('cannot find tour for', 'ERelNoTour'), ('relation has unknown job id', 'ERelUnknownJob'),
    ('break visit time', 'EBreakTime'), ('break location', 'EBreakLocation'), ('cannot match all breaks', 'EBreakMatched'),
    ('amount of breaks does not match', 'EBreakAmount'),
]
REL_PREFIXES = [('contains duplicated ids', 'ERelDuplicated'), ('does not follow strict rule', 'ERelStrict'),
                ('does not follow sequence rule', 'ERelSequence'), ('has jobs assigned to another tour', 'ERelAny')]


def eclass(msg):
    msg = str(msg)
    m = re.match(r'relation \d+ (.*)', msg, re.S)
    if m:
        for pre, cls in REL_PREFIXES:
            if m.group(1).startswith(pre):
                return cls
    for pre, cls in PREFIXES:
        if msg.startswith(pre):
            return cls
    return 'other:' + c12._prefix(msg)


def generate(rng, tier, n):
    return c12.generate(rng, tier, n)


def corpus():
    root = os.path.dirname(os.path.dirname(os.path.dirname(os.path.abspath(__file__))))
    out = []
    for f in sorted(glob.glob(os.path.join(root, 'corpus', 'C12', '*.json'))):
        try:
            d = json.load(open(f))
        except Exception:
            continue
        for c in (d if isinstance(d, list) else d.get('cases') or []):
            if isinstance(c, dict) and c.get('op') == 'check':
                out.append(dict(c))
    return out


def model_term(c):
    # the (breached) documents that go to the real checker are rendered themselves: the surgery of Mutations.mutS does not move
    # the loads of the capacity dimensions >= 1 along with a moved stop (to_xload), the JSON surgery does
    p0, _ = c12.base_of(c)
    ids = e2e.Ids(p0)
    p = {'problem': c['problem'], 'matrices': c['matrices']}
    return '(run_rules_t %s %s %s)' % (e2e.g_relations(p, ids), e2e.g_problem(p, ids), e2e.g_solution(p, c['solution'], ids))


def _functions(model):
    """[(group, kind, classes)] per rule function of the model: kind 'ok' | 'err' (classes = candidates) | 'panic' (classes = [tag])"""
    out = []
    for g, r in zip(GROUPS, model):
        if g == 'breaks':                      # rres
            if r == 'ROk':
                out.append((g, 'ok', []))
            elif r[0] == 'RErr':
                out.append((g, 'err', list(r[1])))
            else:
                out.append((g, 'panic', [r[1]]))
            continue
        if r == 'COk':
            out.append((g, 'ok', []))
        elif r[0] == 'CErr':
            for cands in r[1]:
                out.append((g, 'err', list(cands)))
        else:
            out.append((g, 'panic', [r[1]]))
    return out


PANIC_TEXT = {'PSubOverflow': 'subtract with overflow', 'PWindowsZero': 'window size must be non-zero'}


def compare(c, impl, model):
    v = c12._verdict(impl)
    if v in ('unreadable', 'error'):
        return None                            # the reader / validation rejected the (breached) problem: no checker run
    fns = _functions(model)
    panics = [(g, cl[0]) for g, k, cl in fns if k == 'panic']
    if v == 'panic':
        msg = str((impl or {}).get('panic'))
        if not any(PANIC_TEXT.get(t, '#') in msg for _, t in panics):
            return 'real checker panics (%s), the model does not: %s' % (msg[:200], _show(fns))
        return None
    real = sorted({eclass(e) for e in (impl.get('errors') or [])}) if v == 'reject' else []
    amount = 'EBreakAmount' in real
    # a panic of the model must be a panic of the code - except the breaks panic behind a tour whose amount rule stopped the loop
    for g, t in panics:
        if not (g == 'breaks' and amount):
            return 'the model panics (%s in %s), the real checker answers %s' % (t, g, real or 'ok')
    want_fixed, choices = set(), []
    for g, k, cl in fns:
        if k != 'err' or (g == 'breaks' and amount):
            continue
        if len(set(cl)) == 1:
            want_fixed.add(cl[0])
        else:
            choices.append(set(cl))
    got = {x for x in real if x not in NOT_MODELLED}
    rest = got - want_fixed
    missing = want_fixed - got
    ok = not missing and _cover(rest, choices, want_fixed)
    if ok:
        return None
    by_group = {}
    for g, k, cl in fns:
        if k == 'err':
            by_group.setdefault(g, []).append('|'.join(cl))
    return 'error classes differ: real checker %s, model %s (model only: %s; real only: %s)' % (
        sorted(got), by_group, sorted(missing), sorted(rest))


def _cover(rest, choices, fixed):
    """every choice set contributes exactly one class; together they must give exactly `rest` (a class that is already in
    `fixed` may be chosen too: the real list is a set)"""
    if not choices:
        return not rest
    first, others = choices[0], choices[1:]
    for x in first:
        if x in rest:
            if _cover(rest - {x}, others, fixed | {x}):
                return True
        elif x in fixed and _cover(rest, others, fixed):
            return True
    return False


def _show(fns):
    return [(g, k, cl) for g, k, cl in fns if k != 'ok']


def oracle(c, impl):
    return []


def nontrivial_key(c, impl):
    return c12.nontrivial_key(c, impl)


def classify(c, impl):
    labs = ['kind=%s' % ('base' if c.get('mut') is None else 'breach'), 'checker=%s' % c12._verdict(impl)]
    if c12._verdict(impl) == 'reject':
        labs += ['real=' + eclass(e) for e in impl.get('errors') or []]
    return labs
