"""Float corpus as IEEE-754 binary64 bit patterns (ints)."""
import struct


def bits(x):
    return struct.unpack('<Q', struct.pack('<d', x))[0]


def of_bits(b):
    return struct.unpack('<d', struct.pack('<Q', b & 0xFFFFFFFFFFFFFFFF))[0]


SIGN = 1 << 63
SPECIAL = [
    0, SIGN,                                   # +0, -0
    1, SIGN | 1, 2, SIGN | 2,                  # smallest denormals
    0x000FFFFFFFFFFFFF, SIGN | 0x000FFFFFFFFFFFFF,  # largest denormal
    0x0010000000000000, SIGN | 0x0010000000000000,  # smallest normal
    bits(1.0), bits(-1.0), bits(0.5), bits(-0.5), bits(2.0), bits(1e-300), bits(-1e-300), bits(1e300), bits(-1e300),
    bits(9007199254740992.0), bits(9007199254740993.0), bits(9007199254740991.0), bits(-9007199254740992.0),
    0x7FEFFFFFFFFFFFFF, SIGN | 0x7FEFFFFFFFFFFFFF,  # +-f64::MAX
    0x7FF0000000000000, SIGN | 0x7FF0000000000000,  # +-inf
    0x7FF8000000000000, SIGN | 0x7FF8000000000000,  # quiet NaN +-
    0x7FF0000000000001, SIGN | 0x7FF0000000000001,  # signalling NaN
    0x7FFFFFFFFFFFFFFF, SIGN | 0x7FFFFFFFFFFFFFFF,  # NaN max payload
    0x7FF8000000000001,
]


def any_bits(rng):
    k = rng.below(10)
    if k < 5:
        return rng.choice(SPECIAL)
    if k < 7:
        return bits(float(rng.range(-50, 50)))
    if k < 8:
        return bits(rng.range(-10**6, 10**6) / 8.0)
    return rng.next()
