"""C05: the tie between the feature table the Coq instantiation uses (Model/CacheF.v `table_rows`, Model/Cache.v `shipped`,
Model/CacheX.v `shared_table`) and the Rust source.  For every `impl FeatureState for X` under
vrp-core/src/construction/{features,enablers} this script extracts, per handler (accept_insertion / accept_route_state /
accept_solution_state): is the body empty, which state keys does it write (`set_*` / `remove_*` / `set_tour_state::<K>` /
`set_value::<K>` / `set_route_intervals`, directly or through the helper functions it calls, expanded one level by name), does
it delegate to its own route-level handler, is the write guarded (`if` / `match` around it), does it filter on `is_stale()`,
does it write the SOLUTION state.  `compare` checks the result against the rows Coq prints for `table_rows` (the modelled
features, via KEY_MAP: model key -> (impl, Rust state key)) and against HAND_ROWS (the remaining impls, read by hand once).
A difference = the correspondence model <-> code is broken (tools/props/c05.py extra_checks reports it as a disagreement).

What it trusts: a regex / brace-matching reading of the Rust text (no macro expansion, no type resolution): a handler that
writes a key through a helper this script does not know (HELPERS) is seen as not writing it - which shows up as a mismatch,
not as silence; KEY_MAP and HAND_ROWS themselves (the names of the Rust state keys the model keys stand for).
Run standalone: python3 tools/props/c05_table.py [/repo]  (prints the extracted table)."""
import os
import re
import sys

HANDLERS = ('accept_insertion', 'accept_route_state', 'accept_solution_state')
DIRS = ('vrp-core/src/construction/features', 'vrp-core/src/construction/enablers')

# helper functions whose writes count as writes of the caller: name -> [(file, fn name)]
HELPERS = {
    'update_route_schedule': [('enablers/schedule_update.rs', 'update_schedules'), ('enablers/schedule_update.rs', 'update_states'),
                              ('enablers/schedule_update.rs', 'update_statistics')],
    'recalculate_states': [('features/capacity.rs', 'recalculate_states'), ('features/recharge.rs', 'recalculate_states')],
    'update_resource_consumption': [('features/reloads.rs', 'update_resource_consumption')],
    'prevent_resource_consumption': [('features/reloads.rs', 'prevent_resource_consumption')],
}

# model key (Model/CacheF.v) -> (impl, Rust state key as this script names it)
KEY_MAP = {
    0: ('TransportState', 'schedule'), 1: ('TransportState', 'latest_arrival_states'), 2: ('TransportState', 'waiting_time_states'),
    3: ('TransportState', 'total_distance'), 4: ('TransportState', 'total_duration'),
    5: ('MultiTripState', 'route_intervals'), 6: ('MultiTripState', 'current_capacity_states'),
    7: ('MultiTripState', 'max_past_capacity_states'), 8: ('MultiTripState', 'max_future_capacity_states'),
    9: ('MultiTripState', 'max_vehicle_load'), 10: ('CompatibilityState', 'current_compatibility'),
    11: ('GroupState', 'current_groups'), 12: ('TravelLimitState', 'limit_duration'),
    13: ('MultiTripState', 'route_intervals'), 14: ('MultiTripState', 'recharge_distance_states'),
    15: ('WorkBalanceState', 'tour_state<K>'), 16: ('WorkBalanceState', 'tour_state<K>'), 17: ('WorkBalanceState', 'tour_state<K>'),
    18: ('WorkBalanceState', 'tour_state<K>'), 19: ('FastServiceState', 'multi_job_ranges'),
}
AGG_MAP = {0: ('TourOrderState', 'tour_order_violations'), 15: ('WorkBalanceState', 'value<K>'), 16: ('WorkBalanceState', 'value<K>'),
           17: ('WorkBalanceState', 'value<K>'), 18: ('WorkBalanceState', 'value<K>')}

# the impls the Coq goal table does not instantiate: (insertion, route, solution) classes and the keys written, read by hand
HAND_ROWS = {
    'SharedResourceState': (('unconditional', 'nonempty', 'all'), {'activity_states<SharedResourceStateKey>'}),      # Model/CacheX.v
    'CombinedFeatureState': (('delegates', 'delegates', 'delegates'), set()),                                     # Model/CacheX.v
    'OptionalBreakState': (('no-writes', 'empty', 'no-writes'), set()),            # breaks.rs: job lists and tours only, nothing cached
    'TourCompactnessState': (('empty', 'empty', 'aggregate'), {'tour_compactness'}),
    'KnownEdgeState': (('empty', 'empty', 'aggregate'), {'footprint_cost'}),
    'HierarchicalAreasState': (('unconditional', 'nonempty', 'stale'), {'medoid_index'}),   # INCREMENTAL on insertion; not in the modelled goals
}


def strip_comments(src):
    src = re.sub(r'//[^\n]*', '', src)
    return re.sub(r'/\*.*?\*/', '', src, flags=re.S)


def block_at(src, i):
    """the text between the brace at/after position i and its partner"""
    a = src.index('{', i)
    depth, k = 0, a
    while k < len(src):
        if src[k] == '{':
            depth += 1
        elif src[k] == '}':
            depth -= 1
            if depth == 0:
                return src[a + 1:k], k
        k += 1
    raise ValueError('unbalanced braces')


def fn_body(src, name):
    m = re.search(r'\bfn\s+%s\s*(<[^>]*>)?\s*\(' % re.escape(name), src)
    if not m:
        return None
    # the signature ends at the first '{' that is not inside parentheses / angle brackets of the parameter list
    depth, k = 0, m.end() - 1
    while k < len(src):
        if src[k] == '(':
            depth += 1
        elif src[k] == ')':
            depth -= 1
        elif src[k] == '{' and depth == 0:
            break
        elif src[k] == ';' and depth == 0:
            return None
        k += 1
    return block_at(src, k)[0]


WRITE = re.compile(r'(?<!\bself)\.\s*(?:set|remove)_([a-z_]+)\s*(?:::\s*<\s*([A-Za-z_]+)[^()]*>)?\s*\(')


def writes_of(body):
    out = []
    for m in WRITE.finditer(body):
        name, gen = m.group(1), m.group(2)
        if name in ('tour_state', 'value', 'activity_states', 'activity_state') and gen:
            name = '%s<%s>' % (name, gen)
        out.append((name, m.start()))
    if re.search(r'\.schedule\s*=', body):
        out.append(('schedule', re.search(r'\.schedule\s*=', body).start()))
    return out


def depth_at(body, pos):
    return body[:pos].count('{') - body[:pos].count('}')


def guarded(body, pos):
    """is the position inside an `if` / `match` / `if let` block of the body (closures passed to for_each do not count)"""
    opens = []
    for m in re.finditer(r'[{}]', body[:pos]):
        if m.group() == '{':
            head = body[:m.start()].rstrip()
            opens.append(bool(re.search(r'(\bif\b[^{};]*|\bmatch\b[^{};]*|=>\s*)$', head)))
        else:
            if opens:
                opens.pop()
    return any(opens)


def analyse(repo, body):
    res = {'empty': not body.strip(), 'writes': set(), 'self_route': False, 'guarded': False, 'stale_filter': 'is_stale()' in body,
           'solution_state': bool(re.search(r'\b(solution_ctx|ctx)\s*\.\s*state\s*\.\s*set_', body)), 'delegates': False}
    positions = []
    for name, pos in writes_of(body):
        res['writes'].add(name)
        positions.append(pos)
    m = re.search(r'self\s*\.\s*accept_route_state\s*\(', body)
    if m:
        res['self_route'] = True
        positions.append(m.start())
    for h, targets in HELPERS.items():
        for m in re.finditer(r'\b%s\s*\(' % h, body):
            positions.append(m.start())
            for f, fn in targets:
                src = strip_comments(open(os.path.join(repo, 'vrp-core/src/construction', f)).read())
                hb = fn_body(src, fn)
                if hb:
                    res['writes'] |= set(n for n, _ in writes_of(hb))
    if re.search(r'(states|self\.states)\s*\.\s*iter\(\)|accept_\w+_with_states\s*\(', body):
        res['delegates'] = True
    res['guarded'] = bool(positions) and all(guarded(body, p) for p in positions)
    return res


def extract(repo):
    """{impl name: {handler: analysis}}"""
    out = {}
    for d in DIRS:
        for f in sorted(os.listdir(os.path.join(repo, d))):
            if not f.endswith('.rs'):
                continue
            src = strip_comments(open(os.path.join(repo, d, f)).read())
            for m in re.finditer(r'\bimpl\s*(<[^{]*?>)?\s*FeatureState\s+for\s+([A-Za-z_]+)', src):
                blk, _ = block_at(src, m.end())
                hs = {}
                for h in HANDLERS:
                    b = fn_body(blk, h)
                    hs[h] = analyse(repo, b) if b is not None else None
                out[m.group(2)] = {'file': os.path.join(d, f), 'handlers': hs}
    return out


def classes(hs, route_writes):
    """(insertion, route, solution) classes of one impl"""
    def ins(a):
        if a is None or a['empty']:
            return 'empty'
        if a['delegates']:
            return 'delegates'
        if not a['writes'] and not a['self_route']:
            return 'no-writes'
        return 'guarded' if a['guarded'] else 'unconditional'

    def route(a):
        if a is None or a['empty']:
            return 'empty'
        if a['delegates']:
            return 'delegates'
        return 'nonempty' if a['writes'] else 'no-writes'

    def sol(a):
        if a is None or a['empty']:
            return 'empty'
        if a['delegates']:
            return 'delegates'
        per_route = a['self_route'] or bool(a['writes'] & route_writes)
        if per_route:
            return 'stale' if a['stale_filter'] else 'all'
        if a['solution_state']:
            return 'aggregate'
        return 'no-writes'

    return ins(hs['accept_insertion']), route(hs['accept_route_state']), sol(hs['accept_solution_state'])


def table(repo):
    """{impl: ((insertion, route, solution), keys written by any handler)}"""
    out = {}
    for name, e in extract(repo).items():
        hs = e['handlers']
        rw = set(hs['accept_route_state']['writes']) if hs['accept_route_state'] else set()
        iw = set(hs['accept_insertion']['writes']) if hs['accept_insertion'] else set()
        allw = set().union(*[a['writes'] for a in hs.values() if a])
        out[name] = (classes(hs, rw | iw), allw)
    return out


def expected(rows):
    """the rows Coq prints for `table_rows` -> {impl: ((insertion, route, solution), keys)}"""
    route_rows, agg_keys = rows
    per = {}
    for key, on_route, sol, ins_plain, ins_tagged in route_rows:
        impl, rust = KEY_MAP[key]
        p = per.setdefault(impl, {'ins': set(), 'route': set(), 'sol': set(), 'keys': set(), 'agg': False})
        p['ins'].add('unconditional' if ins_plain == 'true' else ('guarded' if ins_tagged == 'true' else 'empty'))
        p['route'].add('nonempty' if on_route == 'true' else 'empty')
        p['sol'].add({0: 'never', 1: 'stale', 2: 'all'}[sol])
        p['keys'].add(rust)
    for key in agg_keys:
        impl, rust = AGG_MAP[key]
        p = per.setdefault(impl, {'ins': {'empty'}, 'route': {'empty'}, 'sol': {'never'}, 'keys': set(), 'agg': False})
        p['agg'] = True
        p['keys'].add(rust)
    out = {}
    for impl, p in per.items():
        assert len(p['ins']) == 1 and len(p['route']) == 1 and len(p['sol']) == 1, (impl, p)
        s = next(iter(p['sol']))
        sol = {'stale': 'stale', 'all': 'all'}.get(s, 'aggregate' if p['agg'] else 'empty')
        out[impl] = ((next(iter(p['ins'])), next(iter(p['route'])), sol), p['keys'])
    return out


def compare(repo, rows):
    """list of differences between the table of the Coq instantiation (+ HAND_ROWS) and the Rust source"""
    got = table(repo)
    want = dict(HAND_ROWS)
    want.update(expected(rows))
    diffs = []
    for impl in sorted(set(got) | set(want)):
        if impl not in got:
            diffs.append('%s: in the table, no `impl FeatureState for %s` in the source' % (impl, impl))
        elif impl not in want:
            diffs.append('%s (%s): an `impl FeatureState` the table does not know: handlers %s, writes %s' % (
                impl, extract(repo)[impl]['file'], got[impl][0], sorted(got[impl][1])))
        else:
            if got[impl][0] != want[impl][0]:
                diffs.append('%s: handlers (insertion, route, solution): table %s, source %s' % (impl, want[impl][0], got[impl][0]))
            missing = set(want[impl][1]) - set(got[impl][1])
            extra = set(got[impl][1]) - set(want[impl][1])
            if missing or extra:
                diffs.append('%s: state keys: in the table but not written in the source %s; written in the source but not in the table %s' % (
                    impl, sorted(missing), sorted(extra)))
    return diffs


if __name__ == '__main__':
    repo = sys.argv[1] if len(sys.argv) > 1 else '/repo'
    for name, (cl, ws) in sorted(table(repo).items()):
        print('%-24s insertion=%-13s route=%-9s solution=%-10s writes=%s' % (name, cl[0], cl[1], cl[2], sorted(ws)))
