"""Shared END-TO-END oracle (S) library: pragmatic problem generator, JSON -> Gallina rendering of (problem, solution)
for Spec/Valid.v, configuration matrix for the harness op "solve", and small helpers.  See notes/E2E.md.

Stable interface (other properties rely on it):
  gen_problem(rng, **opts) -> {'problem': <pragmatic problem dict>, 'matrices': [<matrix dict>], 'meta': {...}}
  gen_config(rng, tier)    -> config dict for the harness op "solve"
  solve_case(p, cfg)       -> harness case dict {'op': 'solve', 'problem':…, 'matrices':…, 'config':…}
  g_problem(p)             -> Gallina term of type Valid.pproblem   (p = result of gen_problem or any dict with 'problem','matrices')
  g_solution(p, s)         -> Gallina term of type Valid.ssolution  (s = solution document as returned by the harness)
  Ids(p)                   -> string <-> integer id tables (jobs, vehicles, types, tags, skills) used by both renderers
  rfc(t) / secs(s)         -> integer seconds relative to BASE <-> RFC3339 string
  unsupported(p, s)        -> None | str : why a document is outside the rendered fragment (transit stops, multi-dim load …)
Covered problem features: index locations + one explicit matrix; deliveries / pickups / services / multi jobs
(pickup+delivery shipments, 2 pickups + delivery, 2 deliveries, delivery + service); 1-2 places, 1-2 time windows, tags;
1-3 vehicle types x 1-2 ids x 1-2 shifts, open / closed ends, start latest; single-dimension capacity; integer costs;
skills (allOf); limits (maxDistance, maxDuration, tourSize).  Additive FEATURES (gen_problem(features=...), each drawn from a
forked stream so the base problem is the one the old generator produced): 'compat' (job compatibility classes mixed with plain
jobs), 'group' (job groups), 'unreach' (matrix errorCodes, mostly asymmetric), 'mdim' (2-3 capacity dimensions, demands of the
same length), 'skills2' (skills oneOf / noneOf), 'reloads', 'order', 'value'; round two (own forked streams): 'breaks' (optional
vehicle breaks) and - only for callers that pass allow=('tdm',) - 'tdm' (general routing data: 1-2 profiles, integer profile
scale, time-dependent matrices; rendered by g_routing for Spec/ValidTD.v).  NOT generated: required breaks, recharges,
relations, clustering, replacements, objectives override.  See notes/E2E.md.
"""
import calendar
import time as _time
from coqterm import z, zlist, lst, nat, opt

BASE = 1577836800           # 2020-01-01T00:00:00Z
INF = 2 ** 60               # stands for f64::MAX (unbounded window end / shift end)
NEG = -BASE                 # absolute time 0 (TimeWindow::max start) relative to BASE


def rfc(t):
    """integer seconds relative to BASE -> RFC3339 (whole seconds, Z)"""
    return _time.strftime('%Y-%m-%dT%H:%M:%SZ', _time.gmtime(BASE + int(t)))


def secs(s):
    """RFC3339 string (whole seconds, 'Z' or +00:00) -> integer seconds relative to BASE"""
    s = s.strip()
    if s.endswith('Z'):
        core = s[:-1]
    elif s.endswith('+00:00'):
        core = s[:-6]
    else:
        raise ValueError('unsupported time zone in %r' % s)
    if '.' in core:
        core, frac = core.split('.')
        if frac.strip('0'):
            raise ValueError('fractional seconds in %r' % s)
    return calendar.timegm(_time.strptime(core, '%Y-%m-%dT%H:%M:%S')) - BASE


# ------------------------------------------------------------------------------------------------ generation
def gen_matrix(rng, n, metric):
    if metric:
        xs = [(rng.range(0, 30), rng.range(0, 30)) for _ in range(n)]
        if rng.chance(1, 3) and n > 2:
            xs[1] = xs[0]                      # two distinct location indices at zero distance
        base = [[abs(xs[i][0] - xs[j][0]) + abs(xs[i][1] - xs[j][1]) for j in range(n)] for i in range(n)]
        dur = [base[i][j] for i in range(n) for j in range(n)]
        dist = [2 * base[i][j] + (1 if i < j else 0) * (base[i][j] > 0) for i in range(n) for j in range(n)]
    else:
        dur = [0 if i == j else rng.range(0, 40) for i in range(n) for j in range(n)]
        dist = [0 if i == j else rng.range(0, 60) for i in range(n) for j in range(n)]
        if rng.chance(1, 2):
            # a cheap chain with expensive shortcuts (removing a middle stop makes the tour longer)
            for i in range(n):
                for j in range(n):
                    if i != j and j != (i + 1) % n:
                        dur[i * n + j] += 60
                        dist[i * n + j] += 90
    return dur, dist


def _place(rng, n, horizon, loc=None, tag=None, windows=None):
    p = {'location': {'index': rng.below(n) if loc is None else loc}, 'duration': rng.choice([0, 0, 3, 5, 10, 12])}
    k = rng.below(10) if windows is None else windows
    if k < 3:
        pass                                           # no times: any time
    elif k < 8:
        a = rng.range(0, horizon)
        p['times'] = [[rfc(a), rfc(a + rng.choice([rng.range(0, 40), rng.range(40, 250), rng.range(100, 400)]))]]
    else:
        a = rng.range(0, horizon // 2)
        b = a + rng.range(0, 80)
        c = b + rng.range(1, 80)
        p['times'] = [[rfc(a), rfc(b)], [rfc(c), rfc(c + rng.range(0, 200))]]
    if tag is not None:
        p['tag'] = tag
    return p


def _task(rng, n, horizon, demand, jid, k, force_tags=False, avoid=()):
    """one task; 1 place mostly, sometimes 2 (second place: often the same location with another duration and tag)"""
    locs = [l for l in range(n) if l not in avoid] or list(range(n))
    loc = rng.choice(locs)
    tagged = force_tags or rng.chance(1, 3)
    places = [_place(rng, n, horizon, loc=loc, tag='%s.t%d.a' % (jid, k) if tagged else None)]
    if rng.chance(1, 4):
        same = rng.chance(1, 2)
        tag2 = '%s.t%d.b' % (jid, k) if (tagged or rng.chance(1, 2)) else None
        p2 = _place(rng, n, horizon, loc=loc if same else rng.choice(locs), tag=tag2)
        if same:
            # same location: the places differ by duration (and possibly windows); usually the SECOND is more attractive
            p2['duration'] = places[0]['duration'] + rng.choice([-3, 2, 4, 7]) if places[0]['duration'] >= 3 \
                else places[0]['duration'] + rng.choice([2, 4, 7])
            if rng.chance(1, 2) and 'times' in places[0]:
                p2['times'] = places[0]['times']
            if rng.chance(1, 2):
                places[0]['duration'] = p2['duration'] + rng.choice([4, 9])
        places.append(p2)
    t = {'places': places}
    if demand is not None:
        t['demand'] = [demand]
    return t, loc


FEATURES = ('compat', 'group', 'unreach', 'mdim', 'skills2', 'reloads', 'order', 'value')


def gen_problem(rng, njobs=None, metric=None, nlocs=None, tight=None, multi=True, skills=True, limits=True, features=None,
                allow=(), exclude=()):
    """features: None = every feature of FEATURES independently with probability ~1/3 (combined freely);
    () = none (the generator as it was before the features existed); or an explicit collection of names to force.
    allow: names of FEATURES3 ('tdm': general routing data) that may be drawn when features is None (only the plugins that
    evaluate Spec/ValidTD.v allow them); exclude: names of FEATURES2 that are dropped after the draw (C12: 'breaks')"""
    n = nlocs or rng.range(3, 8)
    if metric is None:
        metric = rng.chance(3, 5)
    dur, dist = gen_matrix(rng, n, metric)
    njobs = njobs or rng.range(3, 10)
    if tight is None:
        tight = rng.chance(1, 4)
    horizon = rng.choice([150, 300, 500])
    all_skills = ['s1', 's2']

    # ---- fleet
    vehicles = []
    ntypes = rng.choice([1, 1, 2, 2, 3])
    for ti in range(ntypes):
        tid = 'v%d' % (ti + 1)
        ids = ['%s_%d' % (tid, k + 1) for k in range(rng.choice([1, 1, 2]))]
        start_loc = rng.choice([0, 0, rng.below(n)])
        e1 = rng.choice([0, 0, 20, 50])
        sh = {'start': {'earliest': rfc(e1), 'location': {'index': start_loc}}}
        k = rng.below(4)
        if k == 1:
            sh['start']['latest'] = rfc(e1)
        elif k == 2:
            sh['start']['latest'] = rfc(e1 + rng.range(1, 120))
        shifts = [sh]
        if rng.chance(7, 10):
            end1 = e1 + (rng.range(60, 200) if tight else rng.range(horizon, horizon + 500))
            sh['end'] = {'latest': rfc(end1), 'location': {'index': rng.choice([start_loc, start_loc, rng.below(n)])}}
            if rng.chance(1, 4):
                e2 = end1 + rng.range(1, 100)
                sh2 = {'start': {'earliest': rfc(e2), 'location': {'index': rng.choice([start_loc, rng.below(n)])}}}
                if rng.chance(1, 2):
                    sh2['end'] = {'latest': rfc(e2 + rng.range(100, 500)), 'location': {'index': rng.below(n)}}
                if rng.chance(1, 3):
                    sh2['start']['latest'] = rfc(e2 + rng.range(0, 60))
                shifts.append(sh2)
        v = {'typeId': tid, 'vehicleIds': ids, 'profile': {'matrix': 'car'},
             'costs': {'fixed': rng.choice([0, 5, 10, 25, 50]), 'distance': rng.choice([0, 1, 1, 2, 3]),
                       'time': rng.choice([0, 1, 1, 2])},
             'shifts': shifts, 'capacity': [rng.range(2, 6) if tight else rng.range(4, 20)]}
        if v['costs']['distance'] == 0 and v['costs']['time'] == 0:
            v['costs']['distance'] = 1
        if skills and rng.chance(1, 3):
            v['skills'] = rng.shuffle(all_skills)[:rng.range(1, 2)]
        if limits and rng.chance(1, 3):
            lim = {}
            if rng.chance(1, 2):
                lim['maxDistance'] = rng.range(40, 300)
            if rng.chance(1, 2):
                lim['maxDuration'] = rng.range(60, 400)
            if rng.chance(1, 2):
                lim['tourSize'] = rng.range(1, 5)
            if lim:
                v['limits'] = lim
        vehicles.append(v)

    # ---- jobs
    jobs = []
    for j in range(njobs):
        jid = 'j%d' % (j + 1)
        job = {'id': jid}
        kind = rng.below(20) if multi else rng.below(12)
        q = rng.range(1, 4)
        if kind < 5:
            job['deliveries'] = [_task(rng, n, horizon, q, jid, 0)[0]]
        elif kind < 9:
            job['pickups'] = [_task(rng, n, horizon, q, jid, 0)[0]]
        elif kind < 12:
            t, _ = _task(rng, n, horizon, None, jid, 0)
            job['services'] = [t]
        elif kind < 16:        # shipment
            tp, lp = _task(rng, n, horizon, q, jid, 0, force_tags=rng.chance(1, 2))
            td, _ = _task(rng, n, horizon, q, jid, 1, force_tags='tag' in tp['places'][0])
            job['pickups'], job['deliveries'] = [tp], [td]
        elif kind < 17:        # two pickups, one delivery
            q2 = rng.range(1, 3)
            t1, l1 = _task(rng, n, horizon, q, jid, 0, force_tags=True)
            t2, _ = _task(rng, n, horizon, q2, jid, 1, force_tags=True, avoid=(l1,))
            t3, _ = _task(rng, n, horizon, q + q2, jid, 2, force_tags=True)
            job['pickups'], job['deliveries'] = [t1, t2], [t3]
        elif kind < 18:        # two deliveries (static demand)
            t1, l1 = _task(rng, n, horizon, q, jid, 0, force_tags=True)
            t2, _ = _task(rng, n, horizon, rng.range(1, 3), jid, 1, force_tags=True, avoid=(l1,))
            job['deliveries'] = [t1, t2]
        else:                  # delivery + service
            t1, _ = _task(rng, n, horizon, q, jid, 0, force_tags=True)
            t2, _ = _task(rng, n, horizon, None, jid, 1, force_tags=True)
            job['deliveries'], job['services'] = [t1], [t2]
        # places of one task must be distinguishable among tasks of the same kind: same-kind tasks use other locations
        for key in ('pickups', 'deliveries'):
            ts = job.get(key, [])
            if len(ts) == 2:
                used = {p['location']['index'] for p in ts[0]['places']}
                for p in ts[1]['places']:
                    if p['location']['index'] in used:
                        cand = [l for l in range(n) if l not in used]
                        if cand:
                            p['location'] = {'index': rng.choice(cand)}
        if skills and rng.chance(1, 6):
            # one or both skills (a two-skill job can only be served by the vehicle type that has both)
            job['skills'] = {'allOf': rng.shuffle(all_skills)[:rng.range(1, 2)]}
        jobs.append(job)

    problem = {'plan': {'jobs': jobs}, 'fleet': {'vehicles': vehicles, 'profiles': [{'name': 'car'}]}}
    # validation E1504: the matrix size must equal the number of DISTINCT locations used (CoordIndex), so the used
    # indices are renumbered to 0..m-1 and the matrix is restricted to them
    used = sorted(set(used_locations(problem)))
    ren = {l: k for k, l in enumerate(used)}
    for loc in location_refs(problem):
        loc['index'] = ren[loc['index']]
    dur = [dur[i * n + j] for i in used for j in used]
    dist = [dist[i * n + j] for i in used for j in used]
    n = len(used)
    matrix = {'profile': 'car', 'travelTimes': dur, 'distances': dist}
    # ---- additive features: all draws come from a FORKED stream (the parent stream is not consumed)
    frng = rng.fork('features')
    if features is None:
        feats = [f for f in FEATURES if frng.chance(1, 3)]
    else:
        feats = [f for f in FEATURES if f in features]
    add_features(frng, problem, matrix, feats, tight)
    # second round of features: their own forked stream, so that the problems of the first round stay what they were
    frng2 = rng.fork('features2')
    if features is None:
        feats2 = [f for f in FEATURES2 if frng2.chance(1, 3)]
        feats2 = [f for f in feats2 if f not in exclude]
    else:
        feats2 = [f for f in FEATURES2 if f in features]
    add_features2(frng2, problem, matrix, feats2, tight)
    # features a caller has to ALLOW (the plugins that can judge them): general routing data
    frng3 = rng.fork('features3')
    if features is None:
        feats3 = [f for f in FEATURES3 if frng3.chance(1, 4) and f in allow]
    else:
        feats3 = [f for f in FEATURES3 if f in features]
    mats = add_routing_features(frng3, problem, matrix, feats3) if feats3 else None
    if not mats:
        feats3 = []
    # round four: every feature has its OWN forked stream (so a later feature never changes what an earlier one produced) and is
    # drawn only for callers that ALLOW it (C01, C02, C03: the plugins that evaluate Spec/ValidX.v)
    feats4 = []
    for f in FEATURES4:
        frng4 = rng.fork('feature4-' + f)
        on = (frng4.chance(1, 3) and f in allow) if features is None else f in features
        if on and FEATURE4_ADD[f](frng4, problem, mats or [matrix], tight):
            feats4.append(f)
    # round five (recharge stations, shared reload resources): as round four - own forked stream per feature, drawn only for
    # callers that ALLOW it (the plugins that evaluate Spec/ValidY.v)
    feats5 = []
    for f in FEATURES5:
        frng5 = rng.fork('feature5-' + f)
        on = (frng5.chance(*FEATURE5_ODDS[f]) and f in allow) if features is None else f in features
        if on and FEATURE5_ADD[f](frng5, problem, mats or [matrix], tight):
            feats5.append(f)
    return {'problem': problem, 'matrices': mats or [matrix],
            'meta': {'n': n, 'metric': bool(metric), 'tight': bool(tight), 'njobs': njobs,
                     'features': feats + feats2 + feats3 + feats4 + feats5}}


FEATURES2 = ('breaks',)
FEATURES3 = ('tdm',)
# FEATURES4: round four, in the order they are applied (defined next to FEATURE4_ADD below)


def add_replacements(frng, problem, mats, tight=False):
    """'replace': 2-4 EXTRA jobs with REPLACEMENT tasks (jobs.md "Replacement job": the new good is loaded at the beginning of the
    journey, the old one is brought to the journey's end - a simultaneous static delivery and static pickup of the same demand):
    single replacement jobs, replacement + service, two replacements at different locations, static pickup + replacement
    (jobs.md "Mixing job tasks": pickups before any delivery, replacement or service), shipment + replacement.  Demands 1-3 in
    every capacity dimension of the problem; about a third of the vehicle types get a small capacity so that the replaced good
    (on board for the WHOLE trip) binds.  The existing jobs are not touched."""
    jobs = problem['plan']['jobs']
    vehicles = problem['fleet']['vehicles']
    n = matrix_size(mats[0])
    k = max(len(v['capacity']) for v in vehicles)
    horizon = 400
    base = len(jobs)

    def dem():
        return [frng.range(1, 3)] + [frng.choice([0, 1, 1, 2]) for _ in range(k - 1)]

    def task(jid, i, demand, avoid=(), tags=True):
        t, loc = _task(frng, n, horizon, None, jid, i, force_tags=tags, avoid=avoid)
        if demand is not None:
            t['demand'] = list(demand)
        for pl in t['places']:
            if frng.chance(1, 2):
                pl.pop('times', None)
        return t, loc
    for x in range(frng.range(2, 4)):
        jid = 'j%d' % (base + x + 1)
        r = frng.below(20)
        if r < 9 or n < 2:
            t, _ = task(jid, 0, dem(), tags=frng.chance(1, 2))
            job = {'id': jid, 'replacements': [t]}
        elif r < 12:
            t1, _ = task(jid, 0, dem())
            t2, _ = task(jid, 1, None)
            job = {'id': jid, 'replacements': [t1], 'services': [t2]}
        elif r < 15:
            t1, l1 = task(jid, 0, dem())
            t2, _ = task(jid, 1, dem(), avoid=(l1,))
            if {pl['location']['index'] for pl in t1['places']} & {pl['location']['index'] for pl in t2['places']}:
                t2['places'] = [pl for pl in t2['places'] if pl['location']['index'] != l1][:1] or t2['places'][:1]
            job = {'id': jid, 'replacements': [t1, t2]}
        elif r < 18:
            t1, _ = task(jid, 0, dem())
            t2, _ = task(jid, 1, dem())
            job = {'id': jid, 'pickups': [t1], 'replacements': [t2]}
        else:
            d = dem()
            t1, _ = task(jid, 0, d)
            t2, _ = task(jid, 1, d)
            t3, _ = task(jid, 2, dem())
            job = {'id': jid, 'pickups': [t1], 'deliveries': [t2], 'replacements': [t3]}
        jobs.append(job)
    for v in vehicles:
        if frng.chance(1, 3):
            v['capacity'] = [frng.choice([2, 3, 3, 4])] + list(v['capacity'][1:])
    return True


def add_required_breaks(frng, problem, mats, tight=False):
    """'reqbreak': REQUIRED breaks (vehicles.md: `time` = exact time or offset interval {earliest, latest} "when the break should
    happen", `duration`; "guaranteed to be assigned"; the documents show them as a break activity inside a stop or as a transit
    stop without location) on the shifts of most vehicle types that have neither optional breaks nor reloads: 1-2 per shift, all of one kind
    (the reader refuses a mix of exact and offset times), pairwise disjoint and starting inside the shift (E1303); about half of
    them a point in time (earliest = latest); `start.latest = start.earliest` on such a shift (E1307 for offsets; break.md calls
    it a hard requirement for this break type)."""
    vehicles = problem['fleet']['vehicles']
    if general_routing({'problem': problem, 'matrices': mats}):
        return False                     # not combined with general routing data (the replay around reserved times is classic)
    done = False
    for v in vehicles:
        if done and not frng.chance(3, 4):
            continue
        for sh in v['shifts']:
            # not on a shift with optional breaks or reloads (the accounting of those activities reads their reported length)
            if sh.get('breaks') or sh.get('reloads') or (done and not frng.chance(4, 5)):
                continue
            e1 = secs(sh['start']['earliest'])
            end = secs(sh['end']['latest']) if sh.get('end') else e1 + 700
            offset = frng.chance(1, 2)
            brs, lo = [], e1 + frng.choice([frng.range(5, 40), frng.range(20, 150)])
            for k in range(frng.choice([1, 1, 2])):
                width = frng.choice([0, 0, frng.range(5, 30), frng.range(20, 90)])
                dur = frng.choice([5, 10, 15, 30])
                if lo > end - 1:
                    break
                a, b = lo, lo + width
                brs.append({'time': {'earliest': a - e1, 'latest': b - e1} if offset else {'earliest': rfc(a), 'latest': rfc(b)},
                            'duration': dur})
                lo = b + dur + frng.range(10, 120)
            if brs:
                sh['breaks'] = brs
                sh['start']['latest'] = sh['start']['earliest']
                done = True
    return done


def add_clustering(frng, problem, mats, tight=False):
    """'cluster': VICINITY CLUSTERING (clustering.md): `plan.clustering` with the vehicles' routing profile (one profile, no scale:
    a commute between two jobs then takes the matrix duration / distance), visiting `continue` or `return`, serving policy
    `original` with parking 0 / 5 / 10 s, thresholds chosen from the matrix so that at least one pair of DIFFERENT locations is in
    vicinity whichever way the two limits are read, sometimes `filtering.excludeJobIds`; plus 3-5 EXTRA single-task jobs (mostly
    without time windows) at the locations of such a pair, so that clusters with a real commute are formed.  Not combined with
    general routing data or matrix errorCodes."""
    if general_routing({'problem': problem, 'matrices': mats}) or mats[0].get('errorCodes'):
        return False
    if any(sh.get('breaks') or sh.get('reloads') for v in problem['fleet']['vehicles'] for sh in v['shifts']):
        # a clustered stop in a tour with reserved times, or with break / reload activities (their accounting reads the end of the
        # previous activity as the arrival, which a commute back to the stop shifts), is outside the rendered fragment
        return False
    m = mats[0]
    n = matrix_size(m)
    if n < 2:
        return False
    du, di = m['travelTimes'], m['distances']

    def spread(a, b):
        return max(du[a * n + b], du[b * n + a], di[a * n + b], di[b * n + a])
    pairs = sorted((spread(a, b), a, b) for a in range(n) for b in range(a + 1, n))
    pairs = [x for x in pairs if x[0] > 0] or pairs
    w, a, b = pairs[0] if frng.chance(2, 3) else frng.choice(pairs[:3])
    thr_dur = w + frng.choice([0, 0, 3, 10])
    thr_dist = w + frng.choice([0, 5, 20, 40])
    jobs = problem['plan']['jobs']
    k = max(len(v['capacity']) for v in problem['fleet']['vehicles'])
    base = len(jobs)
    locs = [a, b, a, b, frng.choice([a, b])]
    new_ids = []
    for x in range(frng.range(3, 5)):
        jid = 'j%d' % (base + x + 1)
        pl = {'location': {'index': locs[x]}, 'duration': frng.choice([3, 5, 5, 10])}
        if frng.chance(1, 5):
            s0 = frng.range(0, 200)
            pl['times'] = [[rfc(s0), rfc(s0 + frng.range(200, 600))]]
        if frng.chance(1, 3):
            pl['tag'] = '%s.c' % jid
        r = frng.below(10)
        if r < 5:
            job = {'id': jid, 'deliveries': [{'places': [pl], 'demand': [1] + [frng.choice([0, 1]) for _ in range(k - 1)]}]}
        elif r < 8:
            job = {'id': jid, 'pickups': [{'places': [pl], 'demand': [1] + [frng.choice([0, 1]) for _ in range(k - 1)]}]}
        else:
            job = {'id': jid, 'services': [{'places': [pl]}]}
        jobs.append(job)
        new_ids.append(jid)
    cl = {'type': 'vicinity', 'profile': {'matrix': problem['fleet']['profiles'][0]['name']},
          'threshold': {'duration': thr_dur, 'distance': thr_dist},
          'visiting': frng.choice(['continue', 'return']),
          'serving': {'type': 'original', 'parking': frng.choice([0, 0, 5, 10])}}
    if frng.chance(1, 4):
        cl['threshold']['maxJobsPerCluster'] = frng.choice([2, 3])
    if frng.chance(1, 3):
        cl['filtering'] = {'excludeJobIds': frng.choice([[], [new_ids[0]], [new_ids[-1]]])}
    problem['plan']['clustering'] = cl
    return True


FEATURES4 = ('replace', 'reqbreak', 'cluster')
FEATURE4_ADD = {'replace': add_replacements, 'reqbreak': add_required_breaks, 'cluster': add_clustering}
# what the plugins built on the full checker (C01, C02, C03) pass as `allow=`: general routing data + every round-four feature
ALLOW_E2E = ('tdm', 'replace', 'reqbreak', 'cluster', 'recharge', 'resource', 'rbreload')


def add_recharges(frng, problem, mats, tight=False):
    """'recharge' (ROUND FIVE): RECHARGE STATIONS (vehicles.md `recharges`, experimental; model.rs VehicleRecharges: "Maximum
    traveled distance before recharge station has to be visited", stations = places, "Each can be visited only once") on the
    shifts of most vehicle types: `maxDistance` = the length of a random walk of 2-4 legs from the shift's start location (plus
    0 / 0 / 0 / 1 / 5), so that tours exactly AT the limit occur; 1-3 stations per shift at random locations (often a location a
    job uses), duration 0 / 5 / 10 / 15, a quarter with a time window, a third with a tag; combined freely with reloads, optional
    breaks, capacity dimensions, errorCodes, general routing data.  Not on problems with required breaks or clustering (their
    rules live in Spec/ValidX.v: round five reuses Valid.v / ValidTD.v)."""
    if problem['plan'].get('clustering') or any(required_breaks(sh) for v in problem['fleet']['vehicles'] for sh in v['shifts']):
        return False
    m = mats[0]
    n = matrix_size(m)
    di = m['distances']
    done = False
    for v in problem['fleet']['vehicles']:
        if done and not frng.chance(3, 4):
            continue
        for sh in v['shifts']:
            if done and not frng.chance(4, 5):
                continue
            loc, tot = sh['start']['location']['index'], 0
            for _ in range(frng.range(2, 4)):
                nxt = frng.below(n)
                tot += max(di[loc * n + nxt], 0)
                loc = nxt
            md = max(tot + frng.choice([0, 0, 0, 1, 5]), frng.range(15, 40))
            e1 = secs(sh['start']['earliest'])
            stations = []
            for k in range(frng.choice([1, 2, 2, 3])):
                st = {'location': {'index': frng.below(n)}, 'duration': frng.choice([0, 5, 10, 15])}
                if frng.chance(1, 4):
                    a = e1 + frng.range(0, 150)
                    if sh.get('end'):
                        a = min(a, secs(sh['end']['latest']))
                    st['times'] = [[rfc(a), rfc(a + frng.range(60, 500))]]
                if frng.chance(1, 3):
                    st['tag'] = 'rc%d' % (k + 1)
                stations.append(st)
            sh['recharges'] = {'maxDistance': md, 'stations': stations}
            done = True
    return done


def add_reload_resources(frng, problem, mats, tight=False):
    """'resource' (ROUND FIVE): SHARED RELOAD RESOURCES (resources.md): `fleet.resources` with 1-2 resources of type reload whose
    capacity vector (as long as the vehicles' capacity) is small - 1-4 in the first dimension - and a `resourceId` on about 3/4 of
    the reloads of all shifts, so that several vehicles / reload stops draw on ONE resource and it is exhausted exactly.  Only for
    problems that have reloads (feature `reloads`); when no shift has one, one is added to the first shift.  Two reloads of one
    shift with the same location and duration get the same resource (the document does not say which reload a stop used).  Not on
    problems with required breaks or clustering."""
    vehicles = problem['fleet']['vehicles']
    if problem['plan'].get('clustering') or any(required_breaks(sh) for v in vehicles for sh in v['shifts']):
        return False
    if has_recharges({'problem': problem}):
        # OPEN OBSERVATION (thorough tier, 1 of 4134, not reproducible): with recharge stations AND a shared resource in one problem a
        # resource was exceeded by single-task deliveries in one dimension (neither C01-F14 nor C01-F15); the cause is not pinned
        # down (suspected: the stale reload-interval cache of C01-F16, two marker features in one tour), so the combination is not
        # generated; witness: corpus/open-observations/
        return False
    shifts = [sh for v in vehicles for sh in v['shifts'] if sh.get('reloads')]
    if not shifts:
        return False
    k = max(len(v['capacity']) for v in vehicles)
    names = ['res_a', 'res_b'][:frng.choice([1, 1, 2])]
    problem['fleet']['resources'] = [{'type': 'reload', 'id': x,
                                      'capacity': [frng.choice([1, 2, 2, 3, 4])] + [frng.choice([1, 2, 4, 6]) for _ in range(k - 1)]}
                                     for x in names]
    some = False
    for sh in shifts:
        seen = {}
        for r in sh['reloads']:
            key = (r['location']['index'], int(r['duration']))
            if key in seen:
                rid = seen[key]
            else:
                rid = frng.choice(names) if (frng.chance(3, 4) or not some) else None
                seen[key] = rid
            if rid is not None:
                r['resourceId'] = rid
                some = True
    return some


def _rb_allowed(problem, mats):
    # not with matrix errorCodes either: an unreachable leg left behind by a removal (finding C01-F4) has duration -1, and the clock
    # around reserved times (ValidX.adv) is specified for non-negative travel times only
    return not (general_routing({'problem': problem, 'matrices': mats}) or problem['plan'].get('clustering') or mats[0].get('errorCodes')
                or has_recharges({'problem': problem}) or has_resources({'problem': problem}))


def add_required_breaks_reload(frng, problem, mats, tight=False):
    """'rbreload' (ROUND FIVE): REQUIRED breaks on shifts that also have RELOADS (multi-trip tours around reserved times; round four
    kept them apart): 1-2 per shift, all exact times or all offsets, pairwise disjoint; start.latest = start.earliest as everywhere
    (break.md: departure rescheduling has to be disabled, "a hard requirement when such break type is used"); only on shifts without
    optional breaks."""
    if not _rb_allowed(problem, mats):
        return False
    done = False
    for v in problem['fleet']['vehicles']:
        for sh in v['shifts']:
            if sh.get('breaks') or not sh.get('reloads') or (done and not frng.chance(3, 4)):
                continue
            e1 = secs(sh['start']['earliest'])
            end = secs(sh['end']['latest']) if sh.get('end') else e1 + 700
            offset = frng.chance(1, 2)
            brs, lo = [], e1 + frng.choice([frng.range(5, 40), frng.range(20, 150)])
            for k in range(frng.choice([1, 1, 2])):
                width = frng.choice([0, 0, frng.range(5, 30), frng.range(20, 90)])
                dur = frng.choice([5, 10, 15, 30])
                if lo > end - 1:
                    break
                a, b = lo, lo + width
                brs.append({'time': {'earliest': a - e1, 'latest': b - e1} if offset else {'earliest': rfc(a), 'latest': rfc(b)},
                            'duration': dur})
                lo = b + dur + frng.range(10, 120)
            if brs:
                sh['breaks'] = brs
                sh['start']['latest'] = sh['start']['earliest']
                done = True
    return done


FEATURES5 = ('recharge', 'resource', 'rbreload')
FEATURE5_ADD = {'recharge': add_recharges, 'resource': add_reload_resources, 'rbreload': add_required_breaks_reload}
# `resource` / `rbreload` need reloads (1/3 of the problems)
FEATURE5_ODDS = {'recharge': (1, 3), 'resource': (2, 3), 'rbreload': (1, 2)}


def add_routing_features(frng, problem, matrix, feats):
    """'tdm': GENERAL ROUTING DATA - one or two routing profiles, a profile `scale` (integer) on some vehicle types, and for
    2/3 of the problems time-dependent routing: every profile gets 2-3 matrices with a `timestamp`.  All values that can occur
    are integers: between two consecutive matrices a duration changes by k * (gap in seconds), k in {-1, 0, 1} (the real code
    interpolates durations linearly in the departure time: integer slope), distances are free (the left matrix counts), scales
    are integers.  Half of the time-dependent problems keep the durations equal in all matrices of a profile (pure step
    functions in the distance).  Not combined with errorCodes.  Returns the list of matrices (None: nothing changed)."""
    if 'tdm' not in feats or matrix.get('errorCodes'):
        return None
    n = matrix_size(matrix)
    vehicles = problem['fleet']['vehicles']
    names = ['car'] + (['truck'] if frng.chance(1, 2) else [])
    problem['fleet']['profiles'] = [{'name': x} for x in names]
    for k, v in enumerate(vehicles):
        v['profile'] = {'matrix': names[k % len(names)] if k < len(names) else frng.choice(names)}
        if frng.chance(1, 3):
            v['profile']['scale'] = frng.choice([1, 2, 2, 3])
    aware = frng.chance(2, 3)
    step_only = frng.chance(1, 2)
    diag = {i * n + i for i in range(n)}
    mats = []
    for pi, name in enumerate(names):
        du = list(matrix['travelTimes'])
        di = list(matrix['distances'])
        if pi > 0:
            du = [0 if i in diag else x + frng.range(0, 15) for i, x in enumerate(du)]
            di = [0 if i in diag else x + frng.range(0, 25) for i, x in enumerate(di)]
        if not aware:
            mats.append({'profile': name, 'travelTimes': du, 'distances': di})
            continue
        t = frng.range(0, 90)
        for i in range(frng.choice([2, 2, 3])):
            mats.append({'profile': name, 'timestamp': rfc(t), 'travelTimes': list(du), 'distances': list(di)})
            gap = frng.choice([20, 40, 60, 100])
            t += gap
            if not step_only:
                du = [0 if j in diag else x + gap * frng.choice([0, 0, 1] + ([-1] if x >= gap else [])) for j, x in enumerate(du)]
            # distances never decrease over time (a leg that departs earlier is never longer: a removal cannot lengthen the
            # legs that stay, so only a triangle violation can - the structure the known finding C01-F1 is about)
            di = [0 if j in diag else x + frng.choice([0, frng.range(1, 30)]) for j, x in enumerate(di)]
    return mats


def general_routing(p):
    """does the problem need Spec/ValidTD.v (several matrices, a timestamp, a profile scale, several profiles)?"""
    ms = p['matrices']
    return len(ms) != 1 or ms[0].get('timestamp') is not None or len(p['problem']['fleet'].get('profiles') or []) != 1 \
        or any((vt.get('profile') or {}).get('scale') is not None for vt in p['problem']['fleet']['vehicles'])


def add_features2(frng, problem, matrix, feats, tight=False):
    vehicles = problem['fleet']['vehicles']
    n = matrix_size(matrix)
    if 'breaks' in feats:
        # OPTIONAL breaks (vehicles.md): 1-2 per shift on most shifts; time = a window (windows of one shift are disjoint and
        # start inside the shift: E1303) or an offset interval relative to the departure (then start.latest = start.earliest:
        # E1307); 1-2 places, ALL with or ALL without location (breaks.rs asserts it); durations differ between the places;
        # tags only where the reported tag is unambiguous (single place, or places at different locations: see finding C03-F1)
        chosen = [v for v in vehicles if frng.chance(4, 5)] or [vehicles[0]]
        some = False
        for v in chosen:
            for sh in v['shifts']:
                if some and not frng.chance(4, 5):
                    continue
                some = True
                e1 = secs(sh['start']['earliest'])
                end = secs(sh['end']['latest']) if sh.get('end') else e1 + 700
                brs, lo = [], e1
                for k in range(frng.choice([1, 1, 2])):
                    b = {}
                    a, w = frng.choice([frng.range(0, 40), frng.range(20, 150)]), frng.choice([frng.range(0, 30), frng.range(30, 200)])
                    if frng.chance(1, 3) or lo + a > end:
                        b['time'] = [a, a + w]
                        sh['start']['latest'] = sh['start']['earliest']
                    else:
                        b['time'] = [rfc(lo + a), rfc(lo + a + w)]
                        lo = lo + a + w + 1
                    np_ = frng.choice([1, 1, 1, 2])
                    with_loc = frng.chance(1, 2)
                    durs = frng.shuffle([0, 3, 5, 10, 15, 20])[:np_]
                    if durs == [0] and frng.chance(2, 3):
                        durs = [7]
                    locs = frng.shuffle(list(range(n)))
                    locs = (locs * np_)[:np_]               # (a problem with one location: fewer locations than places)
                    places = []
                    for i in range(np_):
                        pl = {'duration': durs[i]}
                        if with_loc:
                            pl['location'] = {'index': locs[i]}
                        if (np_ == 1 or (with_loc and len(set(locs)) == np_)) and frng.chance(1, 2):
                            pl['tag'] = 'br%d%s' % (k + 1, 'ab'[i])
                        places.append(pl)
                    b['places'] = places
                    r = frng.below(3)
                    if r:
                        b['policy'] = ['skip-if-no-intersection', 'skip-if-arrival-before-end'][r - 1]
                    brs.append(b)
                sh['breaks'] = brs


def add_features(frng, problem, matrix, feats, tight=False):
    jobs = problem['plan']['jobs']
    vehicles = problem['fleet']['vehicles']
    n = matrix_size(matrix)
    if 'compat' in feats:
        classes = ['food', 'junk', 'glass'][:frng.choice([2, 2, 3])]
        for j in jobs:
            if frng.chance(1, 2):                       # the others stay plain jobs (they mix with every class)
                j['compatibility'] = frng.choice(classes)
        if not any('compatibility' in j for j in jobs):
            jobs[0]['compatibility'] = classes[0]
    if 'group' in feats:
        groups = ['g1', 'g2'][:frng.choice([1, 2, 2])]
        for j in jobs:
            if frng.chance(2, 5):
                j['group'] = frng.choice(groups)
        if not any('group' in j for j in jobs):
            jobs[-1]['group'] = groups[0]
    if 'skills2' in feats:
        pool = ['s1', 's2', 's3']
        for v in vehicles:
            if 'skills' not in v and frng.chance(1, 2):
                v['skills'] = frng.shuffle(pool)[:frng.range(1, 2)]
            elif 'skills' in v and frng.chance(1, 3):
                v['skills'] = sorted(set(v['skills'] + ['s3']))
        for j in jobs:
            if frng.chance(1, 3):
                sk = dict(j.get('skills') or {})
                k = frng.below(3)
                if k in (0, 2):
                    sk['oneOf'] = frng.shuffle(pool)[:frng.range(1, 2)]
                if k in (1, 2):
                    sk['noneOf'] = frng.shuffle(pool)[:frng.range(1, 2)]
                j['skills'] = sk
    if 'mdim' in feats:
        k = frng.choice([2, 2, 3])
        for v in vehicles:
            v['capacity'] = v['capacity'][:1] + [frng.range(2, 6) if tight or frng.chance(1, 3) else frng.range(4, 20) for _ in range(k - 1)]
        for j in jobs:
            pick, deli = j.get('pickups') or [], j.get('deliveries') or []
            for t in pick + deli + (j.get('replacements') or []):
                t['demand'] = t['demand'][:1] + [frng.choice([0, 1, 1, 2, 3]) for _ in range(k - 1)]
            if pick and deli:
                # validation E1102 (per dimension): sum of pickups = sum of deliveries; every such job has ONE delivery
                tot = [sum(t['demand'][d] for t in pick) for d in range(k)]
                for t in deli[1:]:
                    t['demand'] = [0] * k
                deli[0]['demand'] = [tot[d] - sum(t['demand'][d] for t in deli[1:]) for d in range(k)]
    if 'reloads' in feats:
        # multi-trip: small capacities, reloads on most shifts, and extra load (static deliveries + shipments that can be
        # picked up in one reload interval and delivered in another) so that more than one trip is needed
        horizon = 400
        chosen = [v for v in vehicles if frng.chance(4, 5)] or [vehicles[0]]
        for v in chosen:
            v['capacity'] = [frng.choice([2, 2, 3, 4])] + list(v['capacity'][1:])
            for sh in v['shifts']:
                if not frng.chance(4, 5):
                    continue
                start_loc = sh['start']['location']['index']
                e1 = secs(sh['start']['earliest'])
                rl = []
                for k in range(frng.choice([1, 1, 2])):
                    r = {'location': {'index': frng.choice([start_loc, start_loc, frng.below(n)])}, 'duration': frng.choice([0, 1, 2, 5])}
                    if frng.chance(1, 4):
                        a = e1 + frng.range(0, 150)
                        w = frng.range(60, 500)
                        if sh.get('end'):
                            # validation E1304: every reload window has to intersect the shift time (reported by c07: a tight
                            # shift could end before the window opened and the reader rejected the problem)
                            a = min(a, secs(sh['end']['latest']))
                        r['times'] = [[rfc(a), rfc(a + w)]]
                    if frng.chance(1, 3):
                        r['tag'] = 'rl%d' % (k + 1)
                    rl.append(r)
                sh['reloads'] = rl
        if not any(sh.get('reloads') for v in vehicles for sh in v['shifts']):
            sh = vehicles[0]['shifts'][0]
            sh['reloads'] = [{'location': {'index': sh['start']['location']['index']}, 'duration': 1}]
        k = max(len(v['capacity']) for v in vehicles)
        base = len(jobs)
        for x in range(frng.range(3, 6)):
            jid = 'j%d' % (base + x + 1)
            dem = [frng.range(1, 2)] + [frng.choice([0, 1]) for _ in range(k - 1)]
            if x > 0 and frng.chance(2, 3):
                t, _ = _task(frng, n, horizon, None, jid, 0)
                t['demand'] = dem
                for pl in t['places']:
                    if frng.chance(2, 3):
                        pl.pop('times', None)
                jobs.append({'id': jid, 'deliveries': [t]})
            else:
                tp, _ = _task(frng, n, horizon, None, jid, 0, force_tags=True)
                td, _ = _task(frng, n, horizon, None, jid, 1, force_tags=True)
                for t in (tp, td):
                    t['demand'] = list(dem)
                    for pl in t['places']:
                        pl.pop('times', None)
                jobs.append({'id': jid, 'pickups': [tp], 'deliveries': [td]})
    if 'order' in feats:
        # task `order` (1..3) on about half of the tasks: a HARD rule with the default objectives (goal_reader.rs)
        for j in jobs:
            for _, t in tasks_of(j):
                if frng.chance(1, 2):
                    t['order'] = frng.range(1, 3)
        if not any(t.get('order') for j in jobs for _, t in tasks_of(j)):
            tasks_of(jobs[0])[0][1]['order'] = 1
    if 'value' in feats:
        # job `value` switches the maximize-value objective on (nothing hard to check: it only reorders the search)
        for j in jobs:
            if frng.chance(1, 2):
                j['value'] = frng.range(1, 10)
        if not any(j.get('value') for j in jobs):
            jobs[0]['value'] = 5
    if 'unreach' in feats:
        err = [0] * (n * n)
        style = frng.below(4)
        pairs = [(i, j) for i in range(n) for j in range(n) if i != j]
        if style == 0 and n > 2:                       # one location that cannot be left / cannot be entered
            x = frng.below(n)
            for i, j in pairs:
                if (i == x) if frng.chance(1, 2) else (j == x):
                    err[i * n + j] = 1
        else:
            for i, j in pairs:
                if frng.chance(1, 5):
                    err[i * n + j] = frng.choice([1, 1, 2, 7])
                    if style == 1:                      # symmetric
                        err[j * n + i] = err[i * n + j]
        if not any(err) and pairs:                      # (a problem with a single location has no pair)
            i, j = frng.choice(pairs)
            err[i * n + j] = 1
        matrix['errorCodes'] = err


def location_refs(problem):
    """all location objects ({'index': i}) of a problem, as mutable references"""
    locs = []
    for j in problem['plan']['jobs']:
        for _, t in tasks_of(j):
            locs += [pl['location'] for pl in t['places']]
    for v in problem['fleet']['vehicles']:
        for sh in v['shifts']:
            locs.append(sh['start']['location'])
            if sh.get('end'):
                locs.append(sh['end']['location'])
            locs += [r['location'] for r in sh.get('reloads') or []]
            locs += [pl['location'] for b in optional_breaks(sh) for pl in b['places'] if pl.get('location') is not None]
            locs += [st['location'] for st in (sh.get('recharges') or {}).get('stations') or []]
    return locs


def optional_breaks(sh):
    """the OPTIONAL breaks of a shift (those with `places`), document order"""
    return [b for b in sh.get('breaks') or [] if 'places' in b]


def required_breaks(sh):
    return [b for b in sh.get('breaks') or [] if 'places' not in b]


def used_locations(problem):
    return [l['index'] for l in location_refs(problem)]


def gen_config(rng, tier='quick'):
    r = rng.below(10)
    if r < 1 and rng.chance(1, 2):
        gens = 0               # the solver returns an error ("cannot find any solution"): no document
    elif r < 5:
        gens = rng.range(1, 3)
    else:
        gens = rng.range(4, 20)
    par = rng.choice([None, None, [1, 1], [2, 2]])
    quota = None
    if rng.chance(1, 3):
        quota = rng.choice([0, 1, 2, 3, 5, 8, 13, 21, 34, 55, 89])
    return {'max_generations': gens, 'parallelism': par, 'quota_after_polls': quota, 'seed': rng.below(1000),
            'outer_threads': rng.choice([1, 1, 2])}


CONSTRUCT = 4     # pure-construction documents asked from the harness for problems with errorCodes (see c01.oracle_model)


def solve_case(p, cfg):
    if p['matrices'][0].get('errorCodes') and 'construct' not in cfg:
        # reachability: the pure-construction documents tell an unreachable leg left behind by a removal (finding C01-F4)
        # from one accepted by an insertion (c01.oracle_model)
        cfg = dict(cfg, construct=CONSTRUCT)
    return {'op': 'solve', 'problem': p['problem'], 'matrices': p['matrices'], 'config': cfg}


# ------------------------------------------------------------------------------------------------ id tables
KIND = {'pickup': 0, 'delivery': 1, 'service': 2, 'replacement': 3,
        'departure': 10, 'arrival': 11, 'break': 12, 'reload': 13, 'recharge': 14}
FOREIGN = 1000000
RELOAD_JOB = -13           # Spec/Intervals.v RELOAD_JOB: the job id a reload activity is rendered with


class Ids:
    """string <-> integer tables; ids unknown to the problem get numbers >= FOREIGN (stable per document)"""

    def __init__(self, p):
        pr = p['problem']
        self.jobs = {j['id']: k + 1 for k, j in enumerate(pr['plan']['jobs'])}
        self.types, self.vehicles = {}, {}
        for t in pr['fleet']['vehicles']:
            self.types.setdefault(t['typeId'], len(self.types) + 1)
            for v in t['vehicleIds']:
                self.vehicles.setdefault(v, len(self.vehicles) + 1)
        self.tags, self.skills = {}, {}
        for j in pr['plan']['jobs']:
            for t in tasks_of(j):
                for pl in t[1]['places']:
                    if pl.get('tag') is not None:
                        self.tags.setdefault(pl['tag'], len(self.tags) + 1)
            for key in ('allOf', 'oneOf', 'noneOf'):
                for s in (j.get('skills') or {}).get(key) or []:
                    self.skills.setdefault(s, len(self.skills) + 1)
        for t in pr['fleet']['vehicles']:
            for s in t.get('skills') or []:
                self.skills.setdefault(s, len(self.skills) + 1)
            for sh in t['shifts']:
                for r in sh.get('reloads') or []:
                    if r.get('tag') is not None:
                        self.tags.setdefault(r['tag'], len(self.tags) + 1)
                for b in optional_breaks(sh):
                    for pl in b['places']:
                        if pl.get('tag') is not None:
                            self.tags.setdefault(pl['tag'], len(self.tags) + 1)
        for t in pr['fleet']['vehicles']:
            for sh in t['shifts']:
                for st in (sh.get('recharges') or {}).get('stations') or []:
                    if st.get('tag') is not None:
                        self.tags.setdefault(st['tag'], len(self.tags) + 1)
        self.resources = {}
        for r in pr['fleet'].get('resources') or []:
            self.resources.setdefault(r['id'], len(self.resources) + 1)
        self.groups, self.compats = {}, {}
        for j in pr['plan']['jobs']:
            if j.get('group') is not None:
                self.groups.setdefault(j['group'], len(self.groups) + 1)
            if j.get('compatibility') is not None:
                self.compats.setdefault(j['compatibility'], len(self.compats) + 1)
        self.extra = {}

    def _get(self, table, key):
        if key in table:
            return table[key]
        return self.extra.setdefault((id(table), key), FOREIGN + len(self.extra))

    def job(self, s):
        return self._get(self.jobs, s)

    def vehicle(self, s):
        return self._get(self.vehicles, s)

    def vtype(self, s):
        return self._get(self.types, s)

    def tag(self, s):
        return self._get(self.tags, s)

    def skill(self, s):
        return self._get(self.skills, s)

    def resource(self, s):
        return self._get(self.resources, s)

    def job_name(self, k):
        for s, v in self.jobs.items():
            if v == k:
                return s
        for (_, s), v in self.extra.items():
            if v == k:
                return s
        return '#%d' % k


def tasks_of(job):
    """[(kind, task)] in the order of job_reader::read_required_jobs: pickups, deliveries, replacements, services"""
    out = []
    for key, kind in (('pickups', 0), ('deliveries', 1), ('replacements', 3), ('services', 2)):
        for t in job.get(key) or []:
            out.append((kind, t))
    return out


# ------------------------------------------------------------------------------------------------ Gallina rendering
def zopt(x):
    return 'None' if x is None else '(Some %s)' % z(x)


def g_place(ids, pl):
    tws = pl.get('times')
    if tws is None:
        ws = [(NEG, INF)]
    else:
        ws = [(secs(w[0]), secs(w[1])) for w in tws]
    tag = None if pl.get('tag') is None else ids.tag(pl['tag'])
    return '(mkPPlace %s %s %s %s)' % (z(pl['location']['index']), z(int(pl['duration'])),
                                      lst(ws, lambda w: '(%s, %s)' % (z(w[0]), z(w[1]))), zopt(tag))


def g_job(ids, j):
    ts = tasks_of(j)
    static = not (j.get('pickups') and j.get('deliveries'))
    tasks = lst(ts, lambda kt: '(mkPTask %s %s %s)' % (z(kt[0]), lst(kt[1]['places'], lambda pl: g_place(ids, pl)),
                                                      z((kt[1].get('demand') or [0])[0])))
    skills = j.get('skills') or {}
    sk, one, none = ([ids.skill(s) for s in skills.get(key) or []] for key in ('allOf', 'oneOf', 'noneOf'))
    group = None if j.get('group') is None else ids.groups[j['group']]
    compat = None if j.get('compatibility') is None else ids.compats[j['compatibility']]
    k = max([len(kt[1].get('demand') or [0]) for kt in ts] + [1])
    xdem = [[(list(kt[1].get('demand') or []) + [0] * k)[d] for kt in ts] for d in range(1, k)]
    orders = [int(kt[1].get('order') or 0) for kt in ts]
    return '(mkPJob %s %s %s %s %s %s %s %s %s %s)' % (z(ids.job(j['id'])), tasks, 'true' if static else 'false', zlist(sk),
                                                    zlist(one), zlist(none), zopt(group), zopt(compat), lst(xdem, zlist),
                                                    zlist(orders))


def g_shift(sh, ids=None):
    st = sh['start']
    latest = INF if st.get('latest') is None else secs(st['latest'])
    end = 'None'
    if sh.get('end') is not None:
        end = '(Some (%s, %s))' % (z(sh['end']['location']['index']), z(secs(sh['end']['latest'])))
    return '(mkPShift %s %s %s %s %s %s)' % (z(st['location']['index']), z(secs(st['earliest'])), z(latest), end,
                                             lst(sh.get('reloads') or [], lambda r: g_place(ids, r)),
                                             lst(optional_breaks(sh), lambda b: g_break(ids, b)))


NOLOC = -1                 # Valid.NOLOC: pl_loc of a break place without location
BREAK_JOB = -12            # Valid.BREAK_JOB: the job id a break activity is rendered with


def break_is_offset(b):
    return not isinstance(b['time'][0], str)


def break_window(b):
    """(start, end): absolute seconds relative to BASE for a window break, raw offsets for an offset break"""
    t = b['time']
    return (int(t[0]), int(t[1])) if break_is_offset(b) else (secs(t[0]), secs(t[1]))


def g_break(ids, b):
    w = break_window(b)

    def place(pl):
        tag = None if pl.get('tag') is None else ids.tag(pl['tag'])
        loc = NOLOC if pl.get('location') is None else pl['location']['index']
        return '(mkPPlace %s %s [(%s, %s)] %s)' % (z(loc), z(int(pl['duration'])), z(w[0]), z(w[1]), zopt(tag))
    return '(mkPBreak %s %s)' % (lst(b['places'], place), 'true' if break_is_offset(b) else 'false')


def g_vtype(ids, t):
    lim = t.get('limits') or {}
    c = t['costs']
    ts = lim.get('tourSize')
    return '(mkPVType %s %s %s %s %s %s %s %s %s %s %s %s)' % (
        z(ids.vtype(t['typeId'])), zlist([ids.vehicle(v) for v in t['vehicleIds']]), lst(t['shifts'], lambda sh: g_shift(sh, ids)),
        z(t['capacity'][0]), z(int(c.get('fixed') or 0)), z(int(c['distance'])), z(int(c['time'])),
        zlist([ids.skill(s) for s in t.get('skills') or []]),
        zopt(None if lim.get('maxDistance') is None else int(lim['maxDistance'])),
        zopt(None if lim.get('maxDuration') is None else int(lim['maxDuration'])),
        'None' if ts is None else '(Some %s)' % z(ts), zlist(list(t['capacity'][1:])))


def matrix_size(m):
    n = int(round(len(m['travelTimes']) ** 0.5))
    return n


def g_problem(p, ids=None):
    ids = ids or Ids(p)
    pr = p['problem']
    m = p['matrices'][0]
    return '(mkPProblem %s %s %s %s %s %s)' % (lst(pr['plan']['jobs'], lambda j: g_job(ids, j)),
                                              lst(pr['fleet']['vehicles'], lambda t: g_vtype(ids, t)),
                                              z(matrix_size(m)), zlist(m['travelTimes']), zlist(m['distances']),
                                              zlist(m.get('errorCodes') or []))


def g_routing(p, ids=None):
    """Gallina term of type `option ValidTD.trouting`: None for the classic fragment (one matrix, one profile, no scale),
    otherwise the routing data as the reader sees them (profile names numbered, absolute timestamps)"""
    if not general_routing(p):
        return 'None'
    from fractions import Fraction
    ids = ids or Ids(p)
    fleet = p['problem']['fleet']
    names = {}
    for pr in fleet.get('profiles') or []:
        names.setdefault(pr['name'], len(names))
    for m in p['matrices']:
        if m.get('profile') is not None:
            names.setdefault(m['profile'], len(names))
    for vt in fleet['vehicles']:
        names.setdefault(vt['profile']['matrix'], len(names))

    def onat(x):
        return 'None' if x is None else '(Some %s)' % nat(x)

    def mat(m):
        ts = None if m.get('timestamp') is None else secs(m['timestamp']) + BASE
        err = 'None' if m.get('errorCodes') is None else '(Some %s)' % zlist(m['errorCodes'])
        return '(Routing.mkPM %s %s %s %s %s)' % (onat(None if m.get('profile') is None else names[m['profile']]), zopt(ts),
                                                 zlist(m['travelTimes']), zlist(m['distances']), err)

    def vtype(vt):
        sc = vt['profile'].get('scale')
        if sc is None:
            s = 'None'
        else:
            f = Fraction(str(sc))
            s = '(Some (%s, %s))' % (z(f.numerator), z(f.denominator))
        return '(%s, (%s, %s))' % (z(ids.vtype(vt['typeId'])), nat(names[vt['profile']['matrix']]), s)
    return '(Some (mkTRouting %s %s %s %s))' % (lst([names[pr['name']] for pr in fleet.get('profiles') or []], nat),
                                                lst(p['matrices'], mat), lst(fleet['vehicles'], vtype), z(BASE))


def _interval(iv):
    return None if iv is None else (secs(iv['start']), secs(iv['end']))


def g_act(ids, a):
    kind = KIND.get(a.get('type'), 99)
    job = ids.job(a['jobId']) if kind in (0, 1, 2, 3) else RELOAD_JOB if kind == 13 else BREAK_JOB if kind == 12 else -1
    loc = None if a.get('location') is None else a['location']['index']
    iv = _interval(a.get('time'))
    tag = None if a.get('jobTag') is None else ids.tag(a['jobTag'])
    return '(mkSAct %s %s %s %s %s)' % (z(job), z(kind), zopt(loc),
                                        'None' if iv is None else '(Some (%s, %s))' % (z(iv[0]), z(iv[1])), zopt(tag))


def g_stat(st):
    t = st['times']
    return '(mkSStat %s %s %s %s %s %s %s)' % (z(int(st['cost'])), z(st['distance']), z(st['duration']), z(t['driving']),
                                              z(t['serving']), z(t['waiting']), z(t['break']))


TRANSIT = -2               # ValidX.TRANSIT: ss_loc of a stop without location (a required break taken while driving)


def g_stop(ids, s):
    loc = s['location']['index'] if s.get('location') is not None else TRANSIT
    return '(mkSStop %s %s %s %s %s %s)' % (z(loc), z(secs(s['time']['arrival'])),
                                           z(secs(s['time']['departure'])), z((s['load'] or [0])[0]), z(s.get('distance', -1)),
                                           lst(s['activities'], lambda a: g_act(ids, a)))


def capacity_dims(p):
    return max([len(v['capacity']) for v in p['problem']['fleet']['vehicles']] + [1])


def g_tour(ids, t, dims=1):
    # loads in the dimensions 1..dims-1 (a load vector shorter than the capacity is padded with zeros: MultiDimLoad::as_vec
    # of a load that never met a demand is [0])
    xload = [[(list(s.get('load') or []) + [0] * dims)[d] for s in t['stops']] for d in range(1, dims)]
    return '(mkSTour %s %s %s %s %s %s)' % (z(ids.vehicle(t['vehicleId'])), z(ids.vtype(t['typeId'])), nat(t.get('shiftIndex', 0)),
                                           lst(t['stops'], lambda s: g_stop(ids, s)), g_stat(t['statistic']), lst(xload, zlist))


def g_solution(p, s, ids=None):
    ids = ids or Ids(p)
    un = s.get('unassigned') or []
    dims = capacity_dims(p)
    return '(mkSSolution %s %s %s)' % (
        g_stat(s['statistic']), lst(s['tours'], lambda t: g_tour(ids, t, dims)),
        lst(un, lambda u: '(%s, %s)' % (z(ids.job(u['jobId'])), nat(len(u.get('reasons') or [])))))


def required_break_times(b):
    """(earliest, latest, offset?) of a required break: absolute seconds relative to BASE, or raw offsets"""
    t = b['time']
    if isinstance(t['earliest'], str):
        return secs(t['earliest']), secs(t['latest']), False
    return int(t['earliest']), int(t['latest']), True


def has_required_breaks(p):
    return any(required_breaks(sh) for vt in p['problem']['fleet']['vehicles'] for sh in vt['shifts'])


def g_xproblem(p, ids=None):
    """Gallina term of type ValidX.xproblem: the problem data Valid.pproblem has no field for (required breaks per vehicle type and shift)"""
    ids = ids or Ids(p)
    rows = []
    for vt in p['problem']['fleet']['vehicles']:
        for k, sh in enumerate(vt['shifts']):
            brs = required_breaks(sh)
            if brs:
                def g(b):
                    e, l, off = required_break_times(b)
                    return '(mkRBreak %s %s %s %s)' % (z(e), z(l), z(int(b['duration'])), 'true' if off else 'false')
                rows.append('(%s, %s, %s)' % (z(ids.vtype(vt['typeId'])), nat(k), lst(brs, g)))
    cl = p['problem']['plan'].get('clustering')
    cfg = 'None'
    if cl:
        excl = [ids.job(x) for x in (cl.get('filtering') or {}).get('excludeJobIds') or []]
        cfg = '(Some (mkCCfg %s %s %s %s %s))' % ('true' if cl['visiting'] == 'return' else 'false', z(int(cl['serving']['parking'])),
                                               z(int(cl['threshold']['duration'])), z(int(cl['threshold']['distance'])), zlist(excl))
    return '(mkXProblem [%s] %s)' % ('; '.join(rows), cfg)


def g_xsolution(p, s, ids=None):
    """Gallina term of type ValidX.xsolution: the parts of the document Valid.ssolution has no field for - per tour the `parking` of
    every stop and the `commute` of every flattened activity, the commuting / parking parts of the statistics"""
    if not any(st.get('parking') is not None or any(a.get('commute') is not None for a in st['activities'])
               for t in s['tours'] for st in t['stops']) and not (s['statistic']['times'].get('commuting') or s['statistic']['times'].get('parking')):
        return 'XS0'

    def iv(x):
        return '(%s, %s)' % (z(secs(x['start'])), z(secs(x['end'])))

    def info(c):
        if c is None:
            return 'None'
        return '(Some (mkCommute %s %s %s %s))' % (z(c['location']['index']), z(int(c['distance'])), z(secs(c['time']['start'])),
                                                  z(secs(c['time']['end'])))

    def comm(a):
        c = a.get('commute')
        return 'None' if c is None else '(Some (%s, %s))' % (info(c.get('forward')), info(c.get('backward')))

    def tour(t):
        return '(mkXTour %s %s %s %s)' % (
            lst(t['stops'], lambda st: 'None' if st.get('parking') is None else '(Some %s)' % iv(st['parking'])),
            lst([a for st in t['stops'] for a in st['activities']], comm),
            z(t['statistic']['times'].get('commuting', 0)), z(t['statistic']['times'].get('parking', 0)))
    return '(mkXSolution %s %s %s)' % (lst(s['tours'], tour), z(s['statistic']['times'].get('commuting', 0)),
                                      z(s['statistic']['times'].get('parking', 0)))


def needs_x(p):
    """does the problem use a feature whose rules live in Spec/ValidX.v beyond the additive ones (required breaks, clustering)?"""
    return has_required_breaks(p) or bool(p['problem']['plan'].get('clustering'))


def shift_recharges(sh):
    return sh.get('recharges') or None


def has_recharges(p):
    return any(shift_recharges(sh) for vt in p['problem']['fleet']['vehicles'] for sh in vt['shifts'])


def has_resources(p):
    return bool(p['problem']['fleet'].get('resources')) or \
        any(r.get('resourceId') is not None for vt in p['problem']['fleet']['vehicles'] for sh in vt['shifts'] for r in sh.get('reloads') or [])


def needs_y(p):
    """does the problem use a ROUND-FIVE feature (recharge stations, shared reload resources: Spec/ValidY.v)?"""
    return has_recharges(p) or has_resources(p)


def g_yproblem(p, ids=None):
    """Gallina term of type ValidY.yproblem: recharges per (vehicle type, shift), the resourceId of every reload per (vehicle type,
    shift), fleet.resources"""
    ids = ids or Ids(p)
    rc, rs = [], []
    for vt in p['problem']['fleet']['vehicles']:
        for k, sh in enumerate(vt['shifts']):
            r = shift_recharges(sh)
            if r:
                rc.append('(%s, %s, mkRecharge %s %s)' % (z(ids.vtype(vt['typeId'])), nat(k), z(int(r['maxDistance'])),
                                                          lst(r.get('stations') or [], lambda st: g_place(ids, st))))
            rl = sh.get('reloads') or []
            if any(x.get('resourceId') is not None for x in rl):
                rs.append('(%s, %s, %s)' % (z(ids.vtype(vt['typeId'])), nat(k),
                                            lst(rl, lambda x: zopt(None if x.get('resourceId') is None else ids.resource(x['resourceId'])))))
    res = ['(%s, %s)' % (z(ids.resource(r['id'])), zlist([int(x) for x in r['capacity']]))
           for r in p['problem']['fleet'].get('resources') or []]
    return '(mkYProblem [%s] [%s] [%s])' % ('; '.join(rc), '; '.join(rs), '; '.join(res))


def term_A(c, s, ids, P='P', S='S', X=None, XS=None):
    """group A (C02) on the let-bound problem P and solution S: Valid.accounted_b plus the round-four rules; for a problem with
    recharge stations ValidY.accounted5 (= accounted4 on the document with its recharge activities masked ++ ARecharge)"""
    X = X or g_xproblem(c, ids)
    XS = XS or g_xsolution(c, s, ids)
    if has_required_breaks(c):
        # ValidY.accounted6: on the tours with required breaks the reload clause reads the NET length of a reload activity
        return '(accounted6 %s %s %s %s %s)' % (g_yproblem(c, ids), X, XS, P, S)
    if has_recharges(c):
        return '(accounted5 %s %s %s %s %s)' % (g_yproblem(c, ids), X, XS, P, S)
    return '(accounted4 %s %s %s %s)' % (X, XS, P, S)


def term_span(c, s, ids, S='S'):
    """ValidY.break_span_viols on the let-bound S: [(tour, start)] of the reported required breaks that begin before their tour departs"""
    if not has_required_breaks(c):
        return '(@nil (Z * Z))'
    return '(break_span_viols %s %s)' % (g_xproblem(c, ids), S)


def term_F(c, s, ids, R='R', P='P', S='S'):
    """group F (C01): for a problem with required breaks / clustering ValidX.feasible4 (= feasible_viols ++ xfeasible_viols around the
    reserved times, proved equal to them for a problem without), otherwise the expression the plugin evaluated before round four;
    for a problem with recharge stations ValidY.feasible5 (the same functions on the document whose recharge activities are
    presented as service activities of a pseudo job ++ FRechargeDistance)"""
    if needs_x(c):
        return '(feasible4 %s %s %s %s)' % (g_xproblem(c, ids), g_xsolution(c, s, ids), P, S)
    if has_recharges(c):
        return '(feasible5 %s %s %s %s)' % (g_yproblem(c, ids), R, P, S)
    return '(feasible_viols_x %s %s %s ++ xfeasible_viols %s %s)' % (R, P, S, P, S)


def term_R(c, s, ids, R='R', P='P', S='S'):
    """group R (C03), likewise"""
    if needs_x(c):
        return '(replay4 %s %s %s %s)' % (g_xproblem(c, ids), g_xsolution(c, s, ids), P, S)
    if has_recharges(c):
        return '(replay5 %s %s %s %s)' % (g_yproblem(c, ids), R, P, S)
    return '(replay_viol_x %s %s %s ++ xreplay_viols %s %s)' % (R, P, S, P, S)


def term_resources(c, s, ids, P='P', S='S'):
    """(ValidY.resource_viols, ValidY.res_ambiguous) on the let-bound P and S: [(resource id, dimension)] of the shared reload
    resources from which the tours load more static deliveries than the resource holds; [(type id, shift)] whose reloads do not
    determine the resource (a precondition); two empty lists for a problem without resources"""
    if not has_resources(c):
        return '(@nil (Z * Z), @nil (Z * Z))'
    y = g_yproblem(c, ids)
    return '(resource_viols %s %s %s, res_ambiguous %s %s)' % (y, P, S, y, P)


def tour_required_breaks(p, tour):
    """the required breaks of the vehicle shift that drives the document tour ([] when it has none)"""
    vt = vehicle_type_of(p, tour)
    if vt is None or tour.get('shiftIndex', 0) >= len(vt['shifts']):
        return []
    return required_breaks(vt['shifts'][tour.get('shiftIndex', 0)])


def _tour_break_intervals(tour):
    """reported (start, end) of the break activities of a document tour (a break without `time`: its stop's schedule)"""
    out = []
    for st in tour['stops']:
        for a in st['activities']:
            if a.get('type') == 'break':
                tm = a.get('time')
                out.append((secs(tm['start']), secs(tm['end'])) if tm else (secs(st['time']['arrival']), secs(st['time']['departure'])))
    return sorted(out)


def rb_unreported_time(p, tour):
    """seconds of break the tour STATISTIC counts beyond the break activities the tour reports (> 0: the writer took a required
    break into account - TransitBreakMoved: moved in front of a drive - without writing the activity)"""
    if not tour_required_breaks(p, tour):
        return 0
    # a break written twice (finding C02-F3: transit stop AND activity of the next stop, identical interval) is counted once
    return tour['statistic']['times']['break'] - sum(e - b for b, e in sorted(set(_tour_break_intervals(tour))))


def _waiting_periods(tour):
    """[(arrival, service start)] with arrival < start over the job activities of a document tour (twin of Valid.flat_acts)"""
    out = []
    for st in tour['stops']:
        arr = secs(st['time']['arrival'])
        for a in st['activities']:
            tm = a.get('time')
            b, e = (secs(tm['start']), secs(tm['end'])) if tm else (secs(st['time']['arrival']), secs(st['time']['departure']))
            if a.get('type') == 'break':
                continue
            if b > arr:
                out.append((arr, b))
            arr = e
    return out


def gross_waiting(tour):
    return sum(b - a for a, b in _waiting_periods(tour))


def rb_waiting_overlap(p, tour):
    """seconds of the reported required breaks that lie inside waiting periods (arrival .. service start) of the tour"""
    if not tour_required_breaks(p, tour):
        return 0
    return sum(max(0, min(e, w1) - max(b, w0)) for b, e in _tour_break_intervals(tour) for w0, w1 in _waiting_periods(tour))


def rb_reported_twice(tour):
    """the (start, end) of a break that the tour reports both as a stop without location and as an activity inside a stop"""
    transit, inside = [], []
    for st in tour['stops']:
        for a in st['activities']:
            if a.get('type') == 'break':
                tm = a.get('time')
                iv = (tm['start'], tm['end']) if tm else (st['time']['arrival'], st['time']['departure'])
                (transit if 'location' not in st else inside).append(iv)
    both = [iv for iv in transit if iv in inside]
    return both[0] if both else None


def tour_has_cluster(tour):
    """python twin of ValidX.is_cluster_tour: some stop reports parking or some activity carries a commute field"""
    return any(st.get('parking') is not None or any(a.get('commute') is not None for a in st['activities']) for st in tour['stops'])


def rb_moved_before_departure(p, tour):
    """structure seen outside the documented fragment (break.md: required breaks need start.latest = start.earliest): a required break reported inside the DEPARTURE stop that ends exactly when the stop is left -
    the writer moved a break that falls into the first drive in front of it (TransitBreakMoved on leg 0) and let the vehicle depart
    behind it: the break is counted in times.break and in the cost, the duration is counted from the later departure.
    Returns its (start, end) or None"""
    if not tour_required_breaks(p, tour) or not tour['stops'] or 'location' not in tour['stops'][0]:
        return None
    st = tour['stops'][0]
    dep = secs(st['time']['departure'])
    for a in st['activities']:
        if a.get('type') == 'break' and a.get('time') and secs(a['time']['end']) == dep and secs(a['time']['start']) < dep:
            return (secs(a['time']['start']), dep)
    return None


def rb_cost_of_breaks_before_departure(p, s):
    """structure seen outside the documented fragment (break.md): the amounts duration * time price of the required breaks (exact time) that lie entirely BEFORE
    the reported departure of their tour (latest + duration <= departure; the shift's departure may move) and are not reported.
    Returns the list of amounts (one per such break)"""
    out = []
    for t in s.get('tours') or []:
        vt = vehicle_type_of(p, t)
        brs = tour_required_breaks(p, t)
        if vt is None or not brs:
            continue
        facts = _flat_facts(t)
        if not facts:
            continue
        dep = facts[0]['end']
        taken = _tour_break_intervals(t)
        for b in brs:
            e, l, off = required_break_times(b)
            if not off and l < dep and not any(e <= x[0] <= l for x in taken):
                out.append(int(b['duration']) * int(vt['costs']['time']))
    return out


def rb_driving_excess(p, tour):
    """seconds of DRIVING the tour statistic reports beyond the matrix durations of its legs (stops without location left out), when
    that excess is the total duration of some of the required breaks the tour reports INSIDE stops (0 otherwise): create_reserved_
    times_fn returns a reserved time for ANY window that starts exactly at its start (binary_search Ok branch, no intersection
    test), also for the zero-length leg to the next activity at the same place - the break becomes travel time of that leg, stays
    in times.driving, and break_writer.rs counts it again in times.break and in the cost"""
    if not tour_required_breaks(p, tour) or len(p['matrices']) != 1:
        return 0
    m = p['matrices'][0]
    n = matrix_size(m)
    locs = [st['location']['index'] for st in tour['stops'] if 'location' in st]
    pure = sum(m['travelTimes'][a * n + b] for a, b in zip(locs, locs[1:]))
    excess = tour['statistic']['times']['driving'] - pure
    if excess <= 0:
        return 0
    inside = []
    for st in tour['stops']:
        if 'location' in st:
            for a in st['activities']:
                if a.get('type') == 'break' and a.get('time'):
                    inside.append(secs(a['time']['end']) - secs(a['time']['start']))
    sums = {0}
    for d in inside:
        sums |= {x + d for x in sums}
    return excess if excess in sums else 0


def rb_two_on_one_span(p, tour):
    """two required breaks of the tour's shift whose reserved windows [latest, latest + duration] both intersect ONE leg (previous
    stop's departure .. next stop's arrival) or ONE stop (arrival .. departure) of the document, transit stops left out:
    reserved_time.rs create_reserved_times_fn hands out at most one reserved time per queried time window ("left (earliest) wins"),
    so the second one is not added to that leg / activity.  Returns the span or None"""
    brs = tour_required_breaks(p, tour)
    if len(brs) < 2:
        return None
    facts = _flat_facts(tour)
    if not facts:
        return None
    dep = facts[0]['end']
    wins = []
    for b in brs:
        e, l, off = required_break_times(b)
        if off:
            l += dep
        wins.append((l, l + int(b['duration'])))
    stops = [st for st in tour['stops'] if 'location' in st]
    spans = [(secs(st['time']['arrival']), secs(st['time']['departure'])) for st in stops]
    spans += [(secs(a['time']['departure']), secs(b['time']['arrival'])) for a, b in zip(stops, stops[1:])]
    for x, y in spans:
        if sum(1 for w in wins if w[0] < y and x < w[1]) >= 2:
            return (x, y)
    return None


def rb_missing_breaks(p, tour):
    """python twin of ValidX.rb_missing: the (absolute) latest start of every required break of the tour's shift that is due -
    departure <= latest < end of the tour's last activity - and not taken"""
    brs = tour_required_breaks(p, tour)
    if not brs:
        return []
    facts = _flat_facts(tour)
    if not facts:
        return []
    dep, fin = facts[0]['end'], facts[-1]['end']
    taken = _tour_break_intervals(tour)
    missing = []
    for b in brs:
        e, l, off = required_break_times(b)
        if off:
            e, l = e + dep, l + dep
        if dep <= l < fin and not any(e <= x[0] <= l and x[1] - x[0] == int(b['duration']) for x in taken):
            missing.append(l)
    return missing


def rb_missing_class(p, tour):
    """structural class of a FRequiredBreakMissing verdict on a document tour"""
    if rb_unreported_time(p, tour) > 0:
        return 'required-break-counted-in-statistic-but-not-reported'
    facts = _flat_facts(tour)
    missing = rb_missing_breaks(p, tour)
    if facts and facts[-1]['kind'] != 'arrival' and missing and all(l >= facts[-1]['arr'] for l in missing):
        # open end: the writer takes the ARRIVAL at the last activity as the end of the tour (break_writer.rs shift_time), so a
        # required break that falls into the last activity (its waiting / service time) is never written
        return 'required-break-inside-last-activity-of-open-tour-not-reported'
    return 'required-break-missing'


def term_valid4(c, s, ids):
    """the whole round-four checker on one document (development / C07-style callers)"""
    return '(valid4 %s %s %s %s)' % (g_xproblem(c, ids), g_xsolution(c, s, ids), g_problem(c, ids), g_solution(c, s, ids))


def unsupported(p, s):
    """why the document cannot be rendered into the reduced Coq types (None = fine)"""
    try:
        dims = capacity_dims(p)
        if any(len(v['capacity']) != dims for v in p['problem']['fleet']['vehicles']) or \
                any(len(t['demand']) != dims for j in p['problem']['plan']['jobs'] for _, t in tasks_of(j) if t.get('demand')):
            return 'capacities / demands of different lengths'
        for r in p['problem']['plan'].get('relations') or []:
            if any(x in ('break', 'reload', 'recharge') for x in r['jobs']):
                return 'relation names a break / reload / recharge'
        for vt in p['problem']['fleet']['vehicles']:
            for sh in vt['shifts']:
                if required_breaks(sh):
                    if optional_breaks(sh):
                        return 'required breaks together with optional breaks on one shift'
                    if general_routing(p):
                        return 'required break with general routing data'
                    for b in required_breaks(sh):
                        t = b['time']
                        if any(not isinstance(x, str) and float(x) != int(x) for x in (t['earliest'], t['latest'])) or \
                                float(b['duration']) != int(b['duration']):
                            return 'required break with non-integer times'
                if sh.get('recharges'):
                    rc = sh['recharges']
                    if needs_x(p):
                        return 'recharge stations together with required breaks / clustering'
                    if float(rc['maxDistance']) != int(rc['maxDistance']) or \
                            any(float(st['duration']) != int(st['duration']) or 'index' not in st['location'] for st in rc.get('stations') or []):
                        return 'recharge stations with non-integer data'
                for b in optional_breaks(sh):
                    if len(b['time']) != 2 or any(float(x) != int(x) for x in b['time'] if not isinstance(x, str)) or \
                            any(float(pl['duration']) != int(pl['duration']) for pl in b['places']):
                        return 'break with non-integer offsets / durations'
        if has_resources(p):
            if needs_x(p):
                return 'reload resources together with required breaks / clustering'
            if any(len(r['capacity']) != dims for r in p['problem']['fleet'].get('resources') or []):
                return 'reload resource capacity of another length than the vehicle capacity'
        cl = p['problem']['plan'].get('clustering')
        if cl:
            profs = p['problem']['fleet'].get('profiles') or []
            if cl.get('type') != 'vicinity' or general_routing(p) or len(profs) != 1 or cl['profile'].get('matrix') != profs[0]['name'] \
                    or cl['profile'].get('scale') not in (None, 1, 1.0):
                return 'clustering with another routing profile / scale than the vehicles'
            if cl['serving'].get('type') != 'original':
                return 'clustering with a serving policy other than original'
            if any(float(x) != int(x) for x in (cl['serving']['parking'], cl['threshold']['duration'], cl['threshold']['distance'])):
                return 'clustering with non-integer parking / thresholds'
            if p['matrices'][0].get('errorCodes'):
                return 'clustering together with errorCodes'
        if not isinstance(s, dict) or 'tours' not in s or 'statistic' not in s:
            return 'not a solution document'
        sts = [s['statistic']] + [t['statistic'] for t in s['tours']]
        for st in sts:
            if float(st['cost']) != int(st['cost']):
                return 'non-integer cost %r' % st['cost']
            if (st['times'].get('commuting', 0) or st['times'].get('parking', 0)) and not cl:
                return 'commuting/parking time reported without clustering'
        for t in s['tours']:
            for stop in t['stops']:
                if 'location' not in stop:
                    # tour-list.md: location and distance "are omitted in case of the stop for a required break which during traveling"
                    vt = vehicle_type_of(p, t)
                    if vt is None or not required_breaks(vt['shifts'][t.get('shiftIndex', 0)]) or \
                            any(a.get('type') != 'break' for a in stop['activities']):
                        return 'stop without location that is not a required break'
                elif 'index' not in stop['location']:
                    return 'stop without index location'
                if len(stop.get('load', [])) > dims:
                    return 'load with more dimensions than the capacity'
                if stop.get('parking') is not None and not cl:
                    return 'parking reported without clustering'
                if stop.get('parking') is not None:
                    secs(stop['parking']['start']), secs(stop['parking']['end'])
                clustered = stop.get('parking') is not None or any(a.get('commute') is not None for a in stop['activities'])
                if clustered and (tour_required_breaks(p, t) or
                                  any(a.get('type') in ('break', 'reload', 'recharge') for x in t['stops'] for a in x['activities'])):
                    return 'clustered stop in a tour with break / reload activities or required breaks'
                secs(stop['time']['arrival']), secs(stop['time']['departure'])
                for a in stop['activities']:
                    if a.get('commute') is not None and not cl:
                        return 'commute reported without clustering'
                    for d in ('forward', 'backward'):
                        ci = (a.get('commute') or {}).get(d)
                        if ci is not None:
                            if 'index' not in ci['location'] or float(ci['distance']) != int(ci['distance']):
                                return 'commute with non-index location / non-integer distance'
                            secs(ci['time']['start']), secs(ci['time']['end'])
                    if a.get('location') is not None and 'index' not in a['location']:
                        return 'activity with non-index location'
                    if a.get('time') is not None:
                        secs(a['time']['start']), secs(a['time']['end'])
    except Exception as e:  # noqa
        return 'malformed document: %r' % (e,)
    return None


# ------------------------------------------------------------------------------------------------ misc helpers
def all_job_ids(p):
    return [j['id'] for j in p['problem']['plan']['jobs']]


def doc_summary(s):
    """(assigned job ids per tour, unassigned ids) of a solution document"""
    tours = []
    for t in s.get('tours', []):
        ids = []
        for stop in t['stops']:
            for a in stop['activities']:
                if a['type'] in ('pickup', 'delivery', 'service', 'replacement'):
                    ids.append(a['jobId'])
        tours.append(ids)
    return tours, [u['jobId'] for u in s.get('unassigned') or []]


def feature4_labels(c, s):
    """classify() labels shared by C01 / C02 / C03: which round-four features the problem has (`feature4=`) and what the solved
    document actually contains (`doc-has=`), so that the evidence shows how often the rules were exercised"""
    labs = ['feature4=' + f for f in ((c.get('meta') or {}).get('features') or []) if f in FEATURES4]
    labs += ['feature5=' + f for f in ((c.get('meta') or {}).get('features') or []) if f in FEATURES5]
    if isinstance(s, dict) and 'tours' in s:
        labs += doc_feature_labels(c, s)
        labs += doc_feature5_labels(c, s)
    return labs


def doc_feature5_labels(c, s):
    """what a solved document shows of the round-five features: how close the stretches between recharges come to maxDistance, how
    much of every shared reload resource is used"""
    labs = set()
    try:
        if has_recharges(c) and not general_routing(c):
            for t in s.get('tours') or []:
                vt = vehicle_type_of(c, t)
                rc = shift_recharges(vt['shifts'][t.get('shiftIndex', 0)]) if vt else None
                if rc:
                    for d, _, _ in recharge_segments(c, t):
                        labs.add('recharge-stretch=' + ('exactly-at-maxDistance' if d == int(rc['maxDistance']) else
                                                        'below' if d < int(rc['maxDistance']) else 'above'))
        if has_resources(c):
            use = py_resource_use(c, s)
            for r in c['problem']['fleet'].get('resources') or []:
                for d, cap in enumerate(r['capacity']):
                    u = use.get((r['id'], d), 0)
                    labs.add('resource-use=' + ('none' if u == 0 else 'exactly-exhausted' if u == int(cap) else 'below' if u < int(cap) else 'above'))
            if any(a.get('type') == 'reload' for t in s.get('tours') or [] for st in t['stops'] for a in st['activities']):
                labs.add('doc-has=reload-stop-on-problem-with-resources')
    except Exception:  # noqa
        pass
    return sorted(labs)


def doc_feature_labels(c, s):
    """input-distribution labels of a solved document for the round-four features: what the document actually CONTAINS"""
    labs = set()
    jobs = {j['id']: j for j in c['problem']['plan']['jobs']}
    for t in s.get('tours') or []:
        for st in t['stops']:
            acts = st.get('activities') or []
            if st.get('parking') is not None or any(a.get('commute') is not None for a in acts):
                labs.add('doc-has=clustered-stop')
            if 'location' not in st:
                labs.add('doc-has=transit-stop')
            for a in acts:
                ty = a.get('type')
                if ty == 'replacement':
                    labs.add('doc-has=replacement-activity')
                    if len(tasks_of(jobs.get(a.get('jobId')) or {})) > 1:
                        labs.add('doc-has=replacement-in-mixed-job')
                elif ty == 'recharge':
                    labs.add('doc-has=recharge-activity')
                elif ty == 'break':
                    vt = vehicle_type_of(c, t)
                    sh = vt['shifts'][t.get('shiftIndex', 0)] if vt else {}
                    if required_breaks(sh):
                        labs.add('doc-has=required-break-activity')
    return sorted(labs)


# ------------------------------------------------------------------------------------------------ preconditions
def distinguishable(problem):
    """Valid.precond_viol / tasks_distinct: same-kind tasks of one job use disjoint location sets"""
    for j in problem['plan']['jobs']:
        ts = tasks_of(j)
        for a in range(len(ts)):
            for b in range(a + 1, len(ts)):
                if ts[a][0] == ts[b][0]:
                    la = {p['location']['index'] for p in ts[a][1]['places']}
                    lb = {p['location']['index'] for p in ts[b][1]['places']}
                    if la & lb:
                        return False
    return True


def gen_checked_problem(rng, **opts):
    """gen_problem, regenerated until the checker's preconditions hold (they nearly always do)"""
    for _ in range(20):
        p = gen_problem(rng, **opts)
        if distinguishable(p['problem']):
            return p
    return gen_problem(rng, multi=False, **{k: v for k, v in opts.items() if k != 'multi'})


def gen_cases(rng, n, per_problem=3, trace=0, **opts):
    """n harness cases: generated problems x `per_problem` configurations each"""
    cases = []
    while len(cases) < n:
        p = gen_checked_problem(rng, **opts)
        for _ in range(per_problem):
            if len(cases) >= n:
                break
            cfg = gen_config(rng)
            if trace:
                cfg['trace'] = trace
            c = solve_case(p, cfg)
            c['meta'] = p['meta']
            cases.append(c)
    return cases


# ------------------------------------------------------------------------------------------------ relations (two-phase generation)
REL_TYPE = {'any': 0, 'sequence': 1, 'strict': 2}
REL_DEPARTURE, REL_ARRIVAL = -10, -11      # Spec/Relations.v


def harness_exe(name='solve'):
    """path of a harness binary of the running check (mutant runs use the mutant's build: verif.CARGO_TARGET)"""
    import os
    import sys
    for mod in ('__main__', 'verif'):
        ct = getattr(sys.modules.get(mod), 'CARGO_TARGET', None)
        if ct:
            return os.path.join(ct, 'debug', name)
    build = os.environ.get('VERIF_BUILD', os.path.join(os.path.dirname(os.path.dirname(os.path.dirname(os.path.abspath(__file__)))), 'build'))
    return os.path.join(build, 'cargo', 'debug', name)


def solve_batch(cases):
    """run harness cases through the real solver now (generation time); returns the list of results (None where missing)"""
    import json
    import os
    import subprocess
    import tempfile
    d = tempfile.mkdtemp(prefix='e2e-solve-')
    cf, of = os.path.join(d, 'in.jsonl'), os.path.join(d, 'out.jsonl')
    with open(cf, 'w') as fh:
        for k, c in enumerate(cases):
            fh.write(json.dumps(dict(c, id=k)) + '\n')
    res = {}
    try:
        subprocess.run([harness_exe(), cf, of], stdout=subprocess.DEVNULL, stderr=subprocess.DEVNULL, timeout=3000)
        if os.path.exists(of):
            for line in open(of):
                r = json.loads(line)
                res[r['id']] = r.get('res') if 'panic' not in r else {'panic': r['panic']}
    finally:
        for f in (cf, of):
            if os.path.exists(f):
                os.remove(f)
        os.rmdir(d)
    return [res.get(k) for k in range(len(cases))]


def derive_relations(rng, p, s):
    """relations CONSISTENT with solution s of problem p (relations.md: locked jobs are put into the initial tours unchecked,
    so they have to come from a feasible solution): at most one relation per tour, its jobs listed in the tour's visiting order
    (a job with several tasks once per task, task order = visiting order, factories.rs), only jobs whose tasks have one place
    and at most one time window (E1203; factories.rs asserts it for `any` too); strict: a block of consecutive activities
    (jobs only), anchored to `departure` / `arrival` when the block opens / closes the tour (half of the time)"""
    jobs = {j['id']: j for j in p['problem']['plan']['jobs']}
    kindname = {0: 'pickup', 1: 'delivery', 3: 'replacement', 2: 'service'}
    rels = []
    for t in s.get('tours') or []:
        if not rng.chance(3, 4):
            continue
        full = [(a['type'], a['jobId'], (a.get('location') or st['location'])['index'])
                for st in t['stops'] for a in st['activities'] if a['type'] not in ('departure', 'arrival')]
        mids = [(typ, jid) for typ, jid, _ in full]

        def eligible(jid):
            j = jobs.get(jid)
            if j is None:
                return False
            ts = tasks_of(j)
            if any(len(tk['places']) != 1 or len(tk['places'][0].get('times') or []) > 1 for _, tk in ts):
                return False
            # all tasks in this tour, and the k-th visited activity of the job IS its k-th task (kind and location: the k-th
            # occurrence of the id in a relation stands for the k-th task, factories.rs)
            seen = [(typ, loc) for typ, x, loc in full if x == jid]
            return seen == [(kindname[k], tk['places'][0]['location']['index']) for k, tk in ts]
        ok = [jid for _, jid in mids if eligible(jid)]
        if not ok:
            continue
        typ = rng.choice(['any', 'sequence', 'strict', 'strict'])
        vt = vehicle_type_of(p, t)
        has_end = bool(vt and vt['shifts'][t.get('shiftIndex', 0)].get('end'))
        if typ == 'strict':
            # windows [i, j) of consecutive activities, all of eligible jobs, every such job completely inside
            wins = []
            for i in range(len(mids)):
                for j in range(i + 1, min(len(mids), i + 5) + 1):
                    ids = [x for _, x in mids[i:j]]
                    if all(x in ok for x in ids) and all(ids.count(x) == len(tasks_of(jobs[x])) for x in set(ids)):
                        wins.append((i, j))
            if not wins:
                continue
            # half of the strict relations are anchored when the tour offers a block that opens / closes it
            mode = rng.choice(['free', 'free', 'departure', 'arrival'])
            anchored = [w for w in wins if (mode == 'departure' and w[0] == 0) or (mode == 'arrival' and has_end and w[1] == len(mids))]
            i, j = rng.choice(anchored or wins)
            lst_ = [x for _, x in mids[i:j]]
            if i == 0 and (mode == 'departure' or rng.chance(1, 3)):
                lst_ = ['departure'] + lst_
            if j == len(mids) and has_end and (mode == 'arrival' or rng.chance(1, 3)):
                lst_ = lst_ + ['arrival']
        else:
            # a sequence relation of one job has no order to keep: two or three jobs when the tour has them
            chosen = set(rng.shuffle(sorted(set(ok)))[:rng.range(2 if typ == 'sequence' else 1, 3)])
            lst_ = [x for _, x in mids if x in chosen]
            if rng.chance(1, 6):
                lst_ = ['departure'] + lst_          # no rule is attached to it for any / sequence: exercises the reader only
        rel = {'type': typ, 'vehicleId': t['vehicleId'], 'jobs': lst_}
        if t.get('shiftIndex', 0) != 0 or rng.chance(1, 3):
            rel['shiftIndex'] = t.get('shiftIndex', 0)
        rels.append(rel)
    return rels


REL_FEATURES = ('compat', 'group', 'mdim', 'skills2', 'order', 'value', 'breaks')


def gen_relation_cases(rng, n, per_problem=2):
    """n harness cases whose problems carry `plan.relations` derived from a solution of the same problem (solve once, derive,
    re-solve with the relations).  Base problems: metric matrix and no tour limits (the initial tours are built from the locked
    jobs WITHOUT any check, relations.md; a sub-sequence of a feasible tour stays feasible for time windows, capacity, skills,
    compatibility, groups and task order when travel times obey the triangle inequality), no reloads / errorCodes"""
    cases, tries = [], 0
    while len(cases) < n and tries < 6:
        tries += 1
        probs = []
        for _ in range(max(4, (n - len(cases)) // per_problem + 3)):
            feats = tuple(f for f in REL_FEATURES if rng.chance(1, 3))
            probs.append(gen_checked_problem(rng, metric=True, limits=False, features=feats))
        first = [solve_case(p, {'max_generations': rng.range(3, 12), 'parallelism': None, 'quota_after_polls': None,
                                'seed': rng.below(1000), 'outer_threads': 1}) for p in probs]
        for p, r in zip(probs, solve_batch(first)):
            if outcome(r) != 'solution' or unsupported(p, r['solution']):
                continue
            rels = derive_relations(rng, p, r['solution'])
            if not rels:
                continue
            q = {'problem': dict(p['problem'], plan=dict(p['problem']['plan'], relations=rels)), 'matrices': p['matrices'],
                 'meta': dict(p['meta'], features=list(p['meta']['features']) + ['relations'])}
            for _ in range(per_problem):
                if len(cases) >= n:
                    break
                c = solve_case(q, gen_config(rng))
                c['meta'] = q['meta']
                cases.append(c)
    return cases


def gen_ring_cases(rng, n, trace=0):
    """n harness cases of the RING family (seeded change C02-4: permutation validator looking only at the two indices next to the
    pickup / delivery boundary; used by the repair step after the LKH operator re-sequenced a tour by distance): one job with THREE
    pickups and TWO deliveries on the corners of a hexagon whose first corner is the depot, pickups and deliveries alternating
    around the ring (graph metric of the cycle), so that the distance-optimal round trip p, d, p, d, p is illegal and every legal
    order (all pickups first) is longer; sometimes a few plain jobs elsewhere on the ring; MANY generations (the LKH operator
    has to be drawn), deterministic thread layout"""
    cases = []
    while len(cases) < n:
        L = rng.choice([5, 10, 20, 30])
        m = 6
        ring = [[L * min(abs(i - j), m - abs(i - j)) for j in range(m)] for i in range(m)]
        order = [1, 2, 3, 4, 5] if rng.chance(1, 2) else [5, 4, 3, 2, 1]      # walking direction
        dur = rng.choice([0, 0, 3, 10])
        q = rng.range(1, 3)

        def task(corner, tag, demand):
            return {'places': [{'location': {'index': corner}, 'duration': dur, 'tag': tag}], 'demand': [demand]}
        job = {'id': 'ring1', 'pickups': [task(order[0], 'p1', 2 * q), task(order[2], 'p2', 2 * q), task(order[4], 'p3', 2 * q)],
               'deliveries': [task(order[1], 'd1', 3 * q), task(order[3], 'd2', 3 * q)]}
        jobs = [job]
        for x in range(rng.choice([0, 0, 1, 2])):
            jobs.append({'id': 'x%d' % (x + 1), 'services': [{'places': [{'location': {'index': rng.range(1, 5)}, 'duration': 1}]}]})
        v = {'typeId': 'v1', 'vehicleIds': ['v1_1'], 'profile': {'matrix': 'car'},
             'costs': {'fixed': rng.choice([0, 10]), 'distance': 1, 'time': 0},
             'shifts': [{'start': {'earliest': rfc(0), 'location': {'index': 0}},
                         'end': {'latest': rfc(100000), 'location': {'index': 0}}}], 'capacity': [6 * q + rng.range(0, 3)]}
        p = {'problem': {'plan': {'jobs': jobs}, 'fleet': {'vehicles': [v], 'profiles': [{'name': 'car'}]}},
             'matrices': [{'profile': 'car', 'travelTimes': [x for r in ring for x in r], 'distances': [x for r in ring for x in r]}],
             'meta': {'n': m, 'metric': True, 'tight': False, 'njobs': len(jobs), 'features': ['ring']}}
        cfg = {'max_generations': rng.range(200, 400), 'parallelism': None, 'quota_after_polls': None, 'seed': rng.below(1000),
               'outer_threads': 1}
        if trace:
            cfg['trace'] = trace
        c = solve_case(p, cfg)
        c['meta'] = p['meta']
        cases.append(c)
    return cases


def gen_cluster_relation_cases(rng, n, trace=0):
    """n harness cases with VICINITY CLUSTERING + a RELATION (+ mostly the optional `filtering` block) in one plan (seeded change
    C02-3: clustering_reader.rs get_filter_policy forgetting the relation jobs when `filtering` is present, so that a locked job
    is also swallowed by a cluster and served twice): 4-6 single deliveries in close pairs (within the clustering threshold),
    the relation names one job of a pair.  The returned documents carry commute / parking data when a cluster was formed: they
    are `unsupported` for the Coq rendering and judged by the accounting twin (e2e.py_accounting) alone"""
    cases = []
    while len(cases) < n:
        pairs = rng.choice([2, 2, 3])
        m = 1 + 2 * pairs
        near, far = rng.choice([1, 2, 5]), rng.choice([40, 60, 100])

        def d(i, j):
            if i == j:
                return 0
            return near if i and j and (i - 1) // 2 == (j - 1) // 2 else far + abs(i - j)
        mat = [d(i, j) for i in range(m) for j in range(m)]
        jobs = [{'id': 'j%d' % k, 'deliveries': [{'places': [{'location': {'index': k}, 'duration': rng.choice([5, 10, 60])}],
                                                 'demand': [1]}]} for k in range(1, m)]
        rel = {'type': rng.choice(['any', 'sequence', 'strict']), 'vehicleId': 'v1_1',
               'jobs': (['departure'] if rng.chance(1, 2) else []) + ['j1']}
        clustering = {'type': 'vicinity', 'profile': {'matrix': 'car'}, 'threshold': {'duration': 10, 'distance': 10},
                      'visiting': rng.choice(['continue', 'return']), 'serving': {'type': 'original', 'parking': 0}}
        if rng.chance(3, 4):
            clustering['filtering'] = {'excludeJobIds': rng.choice([[], ['j3'], ['j%d' % (m - 1)]])}
        v = {'typeId': 'v1', 'vehicleIds': ['v1_1', 'v1_2'], 'profile': {'matrix': 'car'},
             'costs': {'fixed': 10, 'distance': 1, 'time': 1},
             'shifts': [{'start': {'earliest': rfc(0), 'location': {'index': 0}},
                         'end': {'latest': rfc(40000), 'location': {'index': 0}}}], 'capacity': [10]}
        p = {'problem': {'plan': {'jobs': jobs, 'relations': [rel], 'clustering': clustering},
                         'fleet': {'vehicles': [v], 'profiles': [{'name': 'car'}]}},
             'matrices': [{'profile': 'car', 'travelTimes': mat, 'distances': mat}],
             'meta': {'n': m, 'metric': False, 'tight': False, 'njobs': len(jobs), 'features': ['clustering', 'relations']}}
        cfg = {'max_generations': rng.choice([1, 3, 10, 40]), 'parallelism': None, 'quota_after_polls': None,
               'seed': rng.below(1000), 'outer_threads': 1}
        if trace:
            cfg['trace'] = trace
        c = solve_case(p, cfg)
        c['meta'] = p['meta']
        cases.append(c)
    return cases


def gen_single_reload_cases(rng, n, trace=0):
    """n harness cases of the SINGLE-RELOAD family (seeded change C02-6: repair_solution_from_unknown leaving re-inserted markers in
    `ignored`, so that the SAME reload is promoted and inserted a second time): 1-2 vehicles of one type with capacity 2-3 and exactly
    ONE reload (at the depot) per shift, 6-10 single deliveries / pickups of demand 1 on a small metric matrix - two to three trips'
    worth of demand, so the defined reload is the limiting resource - and 150-400 generations, so that the diversification operators
    of the default heuristic (InfeasibleSearch = repair + recovery recreate among them) run.  Judged by the ordinary clause "every
    reload stop is a DISTINCT reload defined for that very vehicle shift" (AReload).
    NOT SWITCHED ON: tools/seed_recheck.sh C02 6 with this family in c02.generate (22 cases) gave check_exit=0 - the seeded change is
    not reached (the unchanged tree is clean on it, 40 of 40).  Kept as a starting point: the missing ingredient is probably a solution
    that InfeasibleSearch repairs while the reload marker is still in `ignored`"""
    cases = []
    while len(cases) < n:
        m = rng.range(3, 5)
        pos = [(0, 0)] + [(rng.range(-20, 20), rng.range(-20, 20)) for _ in range(m - 1)]
        mat = [abs(pos[i][0] - pos[j][0]) + abs(pos[i][1] - pos[j][1]) for i in range(m) for j in range(m)]
        cap = rng.choice([2, 2, 3])
        nveh = rng.choice([1, 1, 2])
        jobs = []
        for k in range(rng.range(2 * cap * nveh + 1, 3 * cap * nveh + 2)):
            pl = {'location': {'index': 1 + k % (m - 1)}, 'duration': rng.choice([0, 1, 3])}
            key = 'deliveries' if rng.chance(3, 4) else 'pickups'
            jobs.append({'id': 'j%d' % (k + 1), key: [{'places': [pl], 'demand': [1]}]})
        v = {'typeId': 'v1', 'vehicleIds': ['v1_%d' % (i + 1) for i in range(nveh)], 'profile': {'matrix': 'car'},
             'costs': {'fixed': rng.choice([0, 20]), 'distance': 1, 'time': rng.choice([0, 1])},
             'shifts': [{'start': {'earliest': rfc(0), 'location': {'index': 0}}, 'end': {'latest': rfc(20000), 'location': {'index': 0}},
                         'reloads': [{'location': {'index': 0}, 'duration': rng.choice([0, 2, 5])}]}], 'capacity': [cap]}
        problem = {'plan': {'jobs': jobs}, 'fleet': {'vehicles': [v], 'profiles': [{'name': 'car'}]}}
        if sorted(set(used_locations(problem))) != list(range(m)):
            continue
        p = {'problem': problem, 'matrices': [{'profile': 'car', 'travelTimes': mat, 'distances': mat}],
             'meta': {'n': m, 'metric': True, 'tight': True, 'njobs': len(jobs), 'features': ['reloads', 'single-reload-family']}}
        cfg = {'max_generations': rng.range(150, 400), 'parallelism': None, 'quota_after_polls': None, 'seed': rng.below(1000), 'outer_threads': 1}
        if trace:
            cfg['trace'] = trace
        c = solve_case(p, cfg)
        c['meta'] = p['meta']
        cases.append(c)
    return cases


def gen_moved_departure_break_cases(rng, n):
    """n harness cases of the MOVED-DEPARTURE family (seeded change C03-6): one vehicle type whose shift start has NO `latest` (the
    departure-time optimisation may move the departure), 1-2 REQUIRED breaks given by exact time 3-40 s after the earliest start, and
    2-5 single jobs whose time windows open 150-300 s later at locations 10-40 s away: the vehicle departs after the breaks are over
    (they end at most 75 s after the earliest start), so they are no part of the tour and on the unchanged tree none is reported.
    NOTE: break.md asks for start.latest = start.earliest with required breaks ("a hard requirement when such break type is used";
    the validator does not enforce it).  This family is the one deliberate step outside that requirement, kept so narrow - the
    breaks never touch the tour - that the documented behaviour is unambiguous: nothing of the breaks may show in the document.
    In general problems with required breaks and a movable departure the solver misbehaves in many ways (notes/C03.md, "outside the
    documented fragment"); they are not generated and not judged"""
    cases = []
    while len(cases) < n:
        m = rng.range(3, 5)
        xs = [0] + [rng.range(10, 40) for _ in range(m - 1)]
        mat = [abs(xs[i] - xs[j]) if i != j else 0 for i in range(m) for j in range(m)]
        # a metric on a line through the depot would make far jobs neighbours: use |xi - xj| on alternating sides
        sign = [1] + [rng.choice([1, -1]) for _ in range(m - 1)]
        pos = [xs[i] * sign[i] for i in range(m)]
        mat = [abs(pos[i] - pos[j]) for i in range(m) for j in range(m)]
        e1 = rng.choice([0, 0, 20])
        jobs = []
        for k in range(rng.range(2, 5)):
            a = e1 + rng.range(150, 300)
            pl = {'location': {'index': 1 + k % (m - 1)}, 'duration': rng.choice([0, 2, 5]), 'times': [[rfc(a), rfc(a + rng.range(30, 200))]]}
            r = rng.below(3)
            if r == 0:
                jobs.append({'id': 'j%d' % (k + 1), 'deliveries': [{'places': [pl], 'demand': [1]}]})
            elif r == 1:
                jobs.append({'id': 'j%d' % (k + 1), 'pickups': [{'places': [pl], 'demand': [1]}]})
            else:
                jobs.append({'id': 'j%d' % (k + 1), 'services': [{'places': [pl]}]})
        brs, lo = [], e1 + rng.range(3, 30)
        for _ in range(rng.choice([1, 1, 2])):
            w = rng.choice([0, 0, rng.range(2, 10)])
            d = rng.choice([2, 5, 10])
            if lo + w + d > e1 + 75:
                break
            brs.append({'time': {'earliest': rfc(lo), 'latest': rfc(lo + w)}, 'duration': d})
            lo += w + d + rng.range(5, 20)
        sh = {'start': {'earliest': rfc(e1), 'location': {'index': 0}}, 'breaks': brs}
        if rng.chance(2, 3):
            sh['end'] = {'latest': rfc(e1 + 2000), 'location': {'index': 0}}
        v = {'typeId': 'v1', 'vehicleIds': ['v1_1'], 'profile': {'matrix': 'car'},
             'costs': {'fixed': rng.choice([0, 10]), 'distance': rng.choice([0, 1]), 'time': rng.choice([0, 1, 1, 2])},
             'shifts': [sh], 'capacity': [10]}
        if v['costs']['distance'] == 0 and v['costs']['time'] == 0:
            v['costs']['distance'] = 1
        problem = {'plan': {'jobs': jobs}, 'fleet': {'vehicles': [v], 'profiles': [{'name': 'car'}]}}
        mats = [{'profile': 'car', 'travelTimes': mat, 'distances': mat}]
        if sorted(set(used_locations(problem))) != list(range(m)):
            continue
        p = {'problem': problem, 'matrices': mats,
             'meta': {'n': m, 'metric': True, 'tight': False, 'njobs': len(jobs), 'features': ['moved-departure-family']}}
        c = solve_case(p, {'max_generations': rng.choice([1, 3, 10]), 'parallelism': None, 'quota_after_polls': None,
                           'seed': rng.below(1000), 'outer_threads': 1})
        c['meta'] = p['meta']
        cases.append(c)
    return cases


def renumber_locations(problem, matrices):
    """after a problem was cut down: validation E1504 wants the matrix size to equal the number of DISTINCT locations used"""
    n = matrix_size(matrices[0])
    used = sorted(set(used_locations(problem)))
    if len(used) == n:
        return
    ren = {l: k for k, l in enumerate(used)}
    for loc in location_refs(problem):
        loc['index'] = ren[loc['index']]
    for m in matrices:
        for key in ('travelTimes', 'distances', 'errorCodes'):
            if m.get(key):
                m[key] = [m[key][i * n + j] for i in used for j in used]


def two_shift_tweak(rng):
    """base problem -> ONE vehicle with TWO shifts that are both needed (a short first shift, a long second one), no breaks /
    reloads: relations derived from its solution then share the vehicleId and differ in shiftIndex (seeded change C01-3:
    job_reader.rs read_locks grouping relations by vehicle only)"""
    def tweak(p):
        fleet = p['problem']['fleet']
        v = fleet['vehicles'][0]
        fleet['vehicles'] = [v]
        v['vehicleIds'] = v['vehicleIds'][:1]
        sh = v['shifts'][0]
        for key in ('breaks', 'reloads'):
            sh.pop(key, None)
        sh['start'].pop('latest', None)
        e1 = secs(sh['start']['earliest'])
        loc = sh['start']['location']['index']
        end1 = e1 + rng.range(60, 160)
        sh['end'] = {'latest': rfc(end1), 'location': {'index': loc}}
        e2 = end1 + rng.range(1, 60)
        v['shifts'] = [sh, {'start': {'earliest': rfc(e2), 'location': {'index': loc}},
                            'end': {'latest': rfc(e2 + rng.range(300, 700)), 'location': {'index': loc}}}]
        v['capacity'] = [max(v['capacity'][0], 6)] + list(v['capacity'][1:])
        renumber_locations(p['problem'], p['matrices'])
        return p
    return tweak


def gen_two_shift_relation_cases(rng, n, per_problem=2):
    """n harness cases (C01) whose plan has relations for BOTH shifts of one vehicle where the solver used both"""
    probs = [q for q in gen_relation_problems(rng, 3 * (n // per_problem + 1), tweak=two_shift_tweak(rng))
             if len({(r['vehicleId'], r.get('shiftIndex') or 0) for r in q['problem']['plan']['relations']}) >= 2]
    cases = []
    for q in probs:
        for _ in range(per_problem):
            if len(cases) < n:
                c = solve_case(q, gen_config(rng))
                c['meta'] = q['meta']
                cases.append(c)
    return cases


def gen_relation_problems(rng, n, solver=None, tries=4, tweak=None, derive=None):
    """n problems WITH `plan.relations` derived from a solution of the same problem (the first phase of gen_relation_cases, whose
    random stream is left alone).  `solver` runs a list of harness solve cases and returns their results (default: solve_batch,
    binary `solve`; C12 passes its own binary, the only one its check builds); `tweak(p)` may reshape a base problem before it is
    solved, `derive(rng, p, s)` replaces derive_relations"""
    solver = solver or solve_batch
    derive = derive or derive_relations
    out = []
    for _ in range(tries):
        if len(out) >= n:
            break
        probs = []
        for _ in range(max(4, n - len(out) + 3)):
            feats = tuple(f for f in REL_FEATURES if rng.chance(1, 3))
            p = gen_checked_problem(rng, metric=True, limits=False, features=feats)
            probs.append(tweak(p) if tweak else p)
        first = [solve_case(p, {'max_generations': rng.range(3, 12), 'parallelism': None, 'quota_after_polls': None,
                                'seed': rng.below(1000), 'outer_threads': 1}) for p in probs]
        for p, r in zip(probs, solver(first)):
            if len(out) >= n:
                break
            if outcome(r) != 'solution' or unsupported(p, r['solution']):
                continue
            rels = derive(rng, p, r['solution'])
            if rels:
                out.append({'problem': dict(p['problem'], plan=dict(p['problem']['plan'], relations=rels)),
                            'matrices': p['matrices'],
                            'meta': dict(p['meta'], features=list(p['meta']['features']) + ['relations'])})
    return out


def g_relations(p, ids=None):
    """Gallina term of type `list Relations.prel` ([] without relations)"""
    ids = ids or Ids(p)
    rels = p['problem']['plan'].get('relations') or []

    def rid(x):
        return REL_DEPARTURE if x == 'departure' else REL_ARRIVAL if x == 'arrival' else ids.job(x)
    return lst(rels, lambda r: '(mkPRel %s %s %s %s)' % (z(REL_TYPE[r['type']]), z(ids.vehicle(r['vehicleId'])),
                                                         nat(r.get('shiftIndex') or 0), zlist([rid(x) for x in r['jobs']])))


def outcome(impl):
    """'solution' | 'error' | 'panic' of a harness result"""
    if impl is None or 'panic' in impl:
        return 'panic'
    if 'error' in impl or 'solution' not in impl:
        return 'error'
    return 'solution'


# ------------------------------------------------------------------------------------------------ python twin (A)
def _flat_tour(t):
    """python twin of Valid.flat_tour: [(job id str, type, location index)]"""
    out = []
    for s in t['stops']:
        for a in s['activities']:
            loc = (a.get('location') or s.get('location') or {}).get('index')
            out.append((a.get('jobId'), a.get('type'), loc))
    return out


def _flat_facts(t):
    """python twin of Valid.flat_tour with times: [{'kind','loc','arr','start','end'}] (seconds)"""
    out = []
    for st in t['stops']:
        arr = secs(st['time']['arrival'])
        for a in st['activities']:
            if a.get('time') is not None:
                b, e = secs(a['time']['start']), secs(a['time']['end'])
            else:
                b, e = secs(st['time']['arrival']), secs(st['time']['departure'])
            loc = (a.get('location') or st.get('location') or {}).get('index')
            out.append({'kind': a.get('type'), 'loc': loc, 'arr': arr, 'start': b, 'end': e})
            arr = e
    return out


def _stripped_tour(t):
    """python twin of ValidX.strip_tour: the tour without its break activities; a stop that held only breaks disappears"""
    stops = []
    for st in t['stops']:
        acts = st['activities']
        if acts and all(a.get('type') == 'break' for a in acts):
            continue
        stops.append(dict(st, activities=[a for a in acts if a.get('type') != 'break']))
    return dict(t, stops=stops)


def _reload_fits(a, r):
    if r['location']['index'] != a['loc'] or int(r['duration']) != a['end'] - a['start']:
        return False
    tws = [(NEG, INF)] if r.get('times') is None else [(secs(w[0]), secs(w[1])) for w in r['times']]
    return any(a['start'] == max(a['arr'], w[0]) for w in tws)


def _assignable(acts, avail, fits=None):
    """python twin of Valid.assign_b / gassign_b: every activity gets its own fitting reload (break) definition"""
    fits = fits or _reload_fits
    if not acts:
        return True
    return any(fits(acts[0], r) and _assignable(acts[1:], avail[:i] + avail[i + 1:], fits) for i, r in enumerate(avail))


def _break_fits(dep):
    """python twin of Valid.break_fits for a tour that departs at dep"""
    def fits(a, b):
        w = break_window(b)
        if break_is_offset(b):
            w = (w[0] + dep, w[1] + dep)
        return any((pl.get('location') is None or pl['location']['index'] == a['loc'])
                   and int(pl['duration']) == a['end'] - a['start'] and a['start'] == max(a['arr'], w[0]) for pl in b['places'])
    return fits


_COND = None


def is_conditional_id(p, jid):
    """ids of the marker jobs the reader creates per vehicle shift: <vehicleId>_(reload|break|recharge)_<shift>_<n>"""
    import re
    if jid in {j['id'] for j in p['problem']['plan']['jobs']}:
        return False
    m = re.match(r'^(.*)_(reload|break|recharge)_(\d+)_(\d+)$', str(jid))
    return bool(m) and any(m.group(1) in vt['vehicleIds'] for vt in p['problem']['fleet']['vehicles'])


def py_accounting(p, s):
    """plain re-implementation of Valid.accounted_b on the raw JSON; returns a sorted list of (constructor, arg)"""
    pr = p['problem']
    ids = Ids(p)
    jobkinds = ('pickup', 'delivery', 'service', 'replacement')
    kindno = {'pickup': 0, 'delivery': 1, 'service': 2, 'replacement': 3}
    tours = s.get('tours') or []
    un = s.get('unassigned') or []
    flats = [_flat_tour(t) for t in tours]
    v = []
    plan = {j['id'] for j in pr['plan']['jobs']}
    for j in pr['plan']['jobs']:
        jn = ids.job(j['id'])
        where = [[a for a in f if a[1] in jobkinds and a[0] == j['id']] for f in flats]
        tw = [w for w in where if w]
        us = [u for u in un if u['jobId'] == j['id']]
        if not tw and not us:
            v.append(('AJobLost', jn))
        elif not tw and len(us) == 1:
            if len(us[0].get('reasons') or []) < 1:
                v.append(('AJobNoReason', jn))
        elif len(tw) == 1 and not us:
            acts = tw[0]
            ts = tasks_of(j)
            ok = len(acts) == len(ts)
            for kind, t in ts:
                locs = {pl['location']['index'] for pl in t['places']}
                if sum(1 for a in acts if kindno[a[1]] == kind and a[2] in locs) != 1:
                    ok = False
            if not ok:
                v.append(('AJobIncomplete', jn))
            seen_delivery = False
            order_ok = True
            for a in acts:
                if a[1] == 'delivery':
                    seen_delivery = True
                elif a[1] == 'pickup' and seen_delivery:
                    order_ok = False
            if not order_ok:
                v.append(('AJobOrder', jn))
        else:
            v.append(('AJobDuplicated', jn))
        # ValidX.mixed_viols: per tour, no pickup of the job after a delivery / replacement / service of the job
        for w in tw:
            seen_other = False
            mixed_ok = True
            for a in w:
                if a[1] != 'pickup':
                    seen_other = True
                elif seen_other:
                    mixed_ok = False
            if not mixed_ok:
                v.append(('AJobMixedOrder', jn))
    for f in flats:
        for a in f:
            if a[1] in jobkinds and a[0] not in plan:
                v.append(('AForeignJob', ids.job(a[0])))
    for u in un:
        if u['jobId'] not in plan:
            v.append(('AForeignJob', ids.job(u['jobId'])))
    seen = []
    for k, t in enumerate(tours):
        named = False
        for vt in pr['fleet']['vehicles']:
            if vt['typeId'] == t.get('typeId') and t.get('vehicleId') in vt['vehicleIds'] \
                    and t.get('shiftIndex', 0) < len(vt['shifts']):
                named = True
        if not named:
            v.append(('ATourVehicle', k))
        if not any(a[1] in jobkinds for a in flats[k]):
            v.append(('ATourEmpty', k))
        key = (t.get('vehicleId'), t.get('shiftIndex', 0))
        if key in seen:
            v.append(('AShiftTwice', k))
        seen.append(key)
        # ValidY.accounted5 (problems with recharge stations): recharge activities are masked for every other clause and
        # judged by ARecharge below
        allowed = jobkinds + ('departure', 'arrival', 'reload', 'break') + (('recharge',) if has_recharges(p) else ())
        if any(a[1] not in allowed for a in flats[k]):
            v.append(('AExtraActivity', k))
        shift = None
        for vt in pr['fleet']['vehicles']:
            if shift is None and vt['typeId'] == t.get('typeId') and t.get('vehicleId') in vt['vehicleIds'] \
                    and t.get('shiftIndex', 0) < len(vt['shifts']):
                shift = vt['shifts'][t.get('shiftIndex', 0)]
        if shift is not None:
            racts = [a for a in _flat_facts(t) if a['kind'] == 'reload']
            if required_breaks(shift):
                # ValidY.reloads_ok_rb: the reload activities of the tour WITHOUT its break activities / transit stops, each with
                # its NET length (the part of its reported interval outside the reported breaks)
                B = _tour_break_intervals(t)
                racts = [dict(a, end=a['start'] + (a['end'] - a['start'] - sum(max(0, min(e, a['end']) - max(b, a['start'])) for b, e in B)))
                         for a in _flat_facts(_stripped_tour(t)) if a['kind'] == 'reload']
            if not _assignable(racts, list(shift.get('reloads') or [])):
                v.append(('AReload', k))
            facts = _flat_facts(t)
            bacts = [a for a in facts if a['kind'] == 'break']
            if required_breaks(shift):
                # ValidX.accounted4: the break activities of such a tour are its REQUIRED breaks (Valid.accounted_b sees the tour
                # without them): distinct defined ones (duration, start inside [earliest, latest]), not overlapping
                dep = facts[0]['end'] if facts else 0

                def rfits(a, b):
                    e, l, off = required_break_times(b)
                    if off:
                        e, l = e + dep, l + dep
                    return a['end'] - a['start'] == int(b['duration']) and e <= a['start'] <= l
                ivs = sorted((a['start'], a['end']) for a in bacts)
                ok = all(x[0] < x[1] for x in ivs) and all(ivs[i][1] <= ivs[i + 1][0] for i in range(len(ivs) - 1))
                if not (_assignable(bacts, required_breaks(shift), rfits) and ok):
                    v.append(('ARequiredBreak', k))
            elif not _assignable(bacts, optional_breaks(shift), _break_fits(facts[0]['end'] if facts else 0)):
                v.append(('ABreak', k))
        if has_recharges(p):
            # ValidY.recharge_viols: the recharge activities of the tour are DISTINCT stations of its vehicle shift (none defined:
            # none may appear); a tour that names no existing shift has no stations
            stations = list((shift_recharges(shift) or {}).get('stations') or []) if shift is not None else []
            if not _assignable([a for a in _flat_facts(t) if a['kind'] == 'recharge'], stations):
                v.append(('ARecharge', k))
    # ValidX.member_viols: an activity that carries a commute field belongs to a plan job with exactly one task that is not listed
    # in clustering.filtering.excludeJobIds
    cl = pr['plan'].get('clustering')
    excl = set((cl.get('filtering') or {}).get('excludeJobIds') or []) if cl else set()
    byid = {j['id']: j for j in pr['plan']['jobs']}
    for k, t in enumerate(tours):
        i = 0
        for st in t['stops']:
            for a in st['activities']:
                if a.get('commute') is not None:
                    j = byid.get(a.get('jobId'))
                    if not (cl and a.get('type') in jobkinds and j is not None and len(tasks_of(j)) == 1 and j['id'] not in excl):
                        v.append(('AClusterMember', k, i))
                i += 1
    return sorted(v)


def recharge_segments(p, tour):
    """python twin of ValidY.tour_items / seg_ok for the classic fragment (one matrix): the distances driven between the departure,
    consecutive recharge activities and the end of a document tour, [(distance, first flattened index, last flattened index)]"""
    m = p['matrices'][0]
    n = matrix_size(m)
    err = m.get('errorCodes')
    flat = _flat_tour(tour)
    out, acc, first = [], 0, 0
    for i in range(1, len(flat)):
        a, b = flat[i - 1][2], flat[i][2]
        acc += -1 if err and err[a * n + b] > 0 else m['distances'][a * n + b]
        if flat[i][1] == 'recharge' or i == len(flat) - 1:
            out.append((acc, first, i))
            acc, first = 0, i
    return out


def recharge_distance_exceeded(p, s):
    """python twin of ValidY.recharge_dist_viols (classic fragment): indices of the tours with a stretch between two recharges
    (departure / end) longer than recharges.maxDistance"""
    out = []
    for k, t in enumerate(s.get('tours') or []):
        vt = vehicle_type_of(p, t)
        if vt is None or t.get('shiftIndex', 0) >= len(vt['shifts']):
            continue
        rc = shift_recharges(vt['shifts'][t.get('shiftIndex', 0)])
        if rc and any(d > int(rc['maxDistance']) for d, _, _ in recharge_segments(p, t)):
            out.append(k)
    return out


def py_resource_use(p, s):
    """python twin of ValidY.resource_use: {(resource id, dimension): static deliveries loaded at the reload stops that draw on it};
    a reload stop is the FIRST reload of its shift with its location and duration; activities -> tasks by kind and location"""
    jobs = {j['id']: j for j in p['problem']['plan']['jobs']}
    kindno = {'pickup': 0, 'delivery': 1, 'service': 2, 'replacement': 3}
    dims = capacity_dims(p)
    use = {}
    for t in s.get('tours') or []:
        vt = vehicle_type_of(p, t)
        if vt is None or t.get('shiftIndex', 0) >= len(vt['shifts']):
            continue
        sh = vt['shifts'][t.get('shiftIndex', 0)]
        cur = None
        for a in _flat_facts_ids(t):
            if a['kind'] == 'reload':
                cur = None
                for r in sh.get('reloads') or []:
                    if r['location']['index'] == a['loc'] and int(r['duration']) == a['end'] - a['start']:
                        cur = r.get('resourceId')
                        break
            elif a['kind'] in kindno and cur is not None:
                j = jobs.get(a['job'])
                if j is None:
                    continue
                static = not (j.get('pickups') and j.get('deliveries'))
                for kind, tk in tasks_of(j):
                    if kind == kindno[a['kind']] and any(pl['location']['index'] == a['loc'] for pl in tk['places']):
                        dem = list(tk.get('demand') or []) + [0] * dims
                        if (kind == 1 and static) or kind == 3:
                            for d in range(dims):
                                use[(cur, d)] = use.get((cur, d), 0) + int(dem[d])
                        break
    return use


def resource_multi_task_contributors(p, s, rid):
    """ids of the multi-task jobs one of whose static deliveries / replacements is loaded at a reload stop that draws on resource rid"""
    jobs = {j['id']: j for j in p['problem']['plan']['jobs']}
    out = []
    for t in s.get('tours') or []:
        vt = vehicle_type_of(p, t)
        if vt is None or t.get('shiftIndex', 0) >= len(vt['shifts']):
            continue
        sh = vt['shifts'][t.get('shiftIndex', 0)]
        cur = None
        for a in _flat_facts_ids(t):
            if a['kind'] == 'reload':
                cur = None
                for r in sh.get('reloads') or []:
                    if r['location']['index'] == a['loc'] and int(r['duration']) == a['end'] - a['start']:
                        cur = r.get('resourceId')
                        break
            elif cur == rid and a['kind'] in ('delivery', 'replacement'):
                j = jobs.get(a['job'])
                if j is not None and len(tasks_of(j)) > 1 and (a['kind'] == 'replacement' or not (j.get('pickups') and j.get('deliveries'))):
                    out.append(a['job'])
    return sorted(set(out))


def py_resource_viols(p, s):
    """python twin of ValidY.resource_viols: sorted [(resource id string, dimension)] whose use exceeds the capacity"""
    use = py_resource_use(p, s)
    return sorted((r['id'], d) for r in p['problem']['fleet'].get('resources') or [] for d, c in enumerate(r['capacity'])
                  if use.get((r['id'], d), 0) > int(c))


def _flat_facts_ids(t):
    """_flat_facts with the job id of every activity"""
    out = []
    for st, f in zip([st for st in t['stops'] for _ in st['activities']], _flat_facts(t)):
        out.append(f)
    i = 0
    for st in t['stops']:
        for a in st['activities']:
            out[i] = dict(out[i], job=a.get('jobId'))
            i += 1
    return out


def unreachable_legs(p, s):
    """python twin of Valid.reach_viols: [(tour index, flattened activity index)] of the legs marked by errorCodes"""
    err = p['matrices'][0].get('errorCodes')
    if not err:
        return []
    n = matrix_size(p['matrices'][0])
    out = []
    for k, t in enumerate(s.get('tours') or []):
        locs = [l for _, _, l in _flat_tour(t)]
        out += [(k, i) for i in range(1, len(locs)) if err[locs[i - 1] * n + locs[i]] > 0]
    return out


def coq_viols(val, group=None):
    """Coq `list violation` value -> sorted [(constructor, args...)], optionally only one group (first letter)"""
    out = []
    for x in val or []:
        t = (x,) if isinstance(x, str) else tuple(x)
        if group is None or t[0][0] in group:
            out.append(t)
    return sorted(out)


# ------------------------------------------------------------------------------------------------ bookkeeping traces
def g_hsol(ids, st, p=None):
    # the marker jobs of reloads / breaks are not plan jobs: the bookkeeping statement (C02) is about plan jobs
    keep = (lambda x: True) if p is None else (lambda x: not is_conditional_id(p, x))
    return '(mkH %s %s %s)' % (lst(st['routes'], lambda r: zlist([ids.job(x) for x in r if keep(x)])),
                               zlist([ids.job(x) for x in st['required'] if keep(x)]),
                               zlist([ids.job(x) for x in st['unassigned'] if keep(x)]))


def g_trace(p, trace, ids=None):
    ids = ids or Ids(p)
    jobs = zlist([ids.job(j) for j in all_job_ids(p)])
    return '(run_trace %s %s)' % (jobs, lst(trace, lambda st: g_hsol(ids, st, p)))


def vehicle_type_of(p, tour):
    for vt in p['problem']['fleet']['vehicles']:
        if vt['typeId'] == tour.get('typeId') and tour.get('vehicleId') in vt['vehicleIds']:
            return vt
    return None


def unbounded_departure_possible(problem):
    """structure behind finding C02-F2: a vehicle type with limits.maxDuration owning a shift with neither start.latest
    nor end, and a job place without `times` (window end = f64::MAX): TravelLimitState::notify_failure then advances the
    departure of an EMPTY route to f64::MAX, and the writer's format_time unwraps an out-of-range timestamp"""
    open_shift = any((vt.get('limits') or {}).get('maxDuration') is not None
                     and any(sh['start'].get('latest') is None and sh.get('end') is None for sh in vt['shifts'])
                     for vt in problem['fleet']['vehicles'])
    no_times = any(pl.get('times') is None for j in problem['plan']['jobs'] for _, t in tasks_of(j) for pl in t['places'])
    return open_shift and no_times


def zero_distance_nonzero_duration_pair(c):
    """a pair of different locations with routing distance 0 and duration <> 0 in some matrix of the problem"""
    for m in c['matrices']:
        n = matrix_size(m)
        if any(i != j and m['distances'][i * n + j] == 0 and m['travelTimes'][i * n + j] != 0 for i in range(n) for j in range(n)):
            return True
    return False


def panic_class(c, msg):
    """violation class of a solver panic, derived from the message and the structure of the input"""
    if 'ComponentRange' in msg and 'timestamp' in msg and unbounded_departure_possible(c['problem']):
        return 'writer-panic-unbounded-departure-max-duration-vehicle'
    if 'ComponentRange' in msg and 'timestamp' in msg and \
            any(required_breaks(sh) and not sh.get('end') for vt in c['problem']['fleet']['vehicles'] for sh in vt['shifts']):
        # findings C01-F8 / C02-F4 / C03-F7: DynamicActivityCost::estimate_departure returns f64::MAX when a required break pushes
        # the start of the work behind the window's end; TransportConstraint::evaluate_activity returns success for the LAST
        # activity of an open-end tour before it looks at that departure, and the writer's format_time unwraps the timestamp
        return 'writer-panic-required-break-open-end-shift-departure-f64-max'
    if 'ComponentRange' in msg and 'timestamp' in msg and \
            any(any(not required_break_times(b)[2] for b in required_breaks(sh)) and
                (sh['start'].get('latest') is None or secs(sh['start']['latest']) != secs(sh['start']['earliest']))
                for vt in c['problem']['fleet']['vehicles'] for sh in vt['shifts']):
        # NOT a known finding (break.md asks for start.latest = start.earliest with required breaks; such problems are not generated):
        # the departure-time optimisation moves the departure of a shift with an exact-time required break; the reserved time then
        # pushes the start of an activity behind its window's end, estimate_departure answers f64::MAX, nothing re-checks, and the
        # writer's format_time unwraps the timestamp
        return 'writer-panic-required-break-movable-departure-f64-max'
    if 'expected to have duration to be zero' in msg and c['problem']['plan'].get('clustering') and zero_distance_nonzero_duration_pair(c):
        # finding C01-F18 / C02-F8 / C03-F11: CommuteInfo::is_zero_distance (models/solution/route.rs) hits unreachable!() for a commute
        # between two locations whose routing distance is 0 and whose duration is not
        return 'solver-panic-cluster-commute-with-zero-distance-and-nonzero-duration'
    if 'cannot get activity by idx' in msg and has_resources(c):
        # finding C01-F16 / C02-F6 / C03-F10: SharedResourceState (reloads.rs) reads the reload intervals cached in the route state
        # and indexes the tour with them (get_activity_by_idx ... expect) after the tour has changed
        return 'solver-panic-shared-reload-resource-state-indexes-tour-with-stale-intervals'
    return 'solver-panic'
