"""Shared END-TO-END oracle (S) library: pragmatic problem generator, JSON -> Gallina rendering of (problem, solution)
for Spec/Valid.v, configuration matrix for the harness op "solve", and small helpers.  See notes/E2E.md.

Stable interface (other properties rely on it):
  gen_problem(rng, **opts) -> {'problem': <pragmatic problem dict>, 'matrices': [<matrix dict>], 'meta': {...}}
  gen_config(rng, tier)    -> config dict for the harness op "solve"
  solve_case(p, cfg)       -> harness case dict {'op': 'solve', 'problem':…, 'matrices':…, 'config':…}
  g_problem(p)             -> Gallina term of type Valid.pproblem   (p = result of gen_problem or any dict with 'problem','matrices')
  g_solution(p, s)         -> Gallina term of type Valid.ssolution  (s = solution document as returned by the harness)
  Ids(p)                   -> string <-> integer id tables (jobs, vehicles, types, tags, skills) used by both renderers
  rfc(t) / secs(s)         -> integer seconds relative to BASE <-> RFC3339 string
  unsupported(p, s)        -> None | str : why a document is outside the rendered fragment (transit stops, multi-dim load …)
Covered problem features: index locations + one explicit matrix; deliveries / pickups / services / multi jobs
(pickup+delivery shipments, 2 pickups + delivery, 2 deliveries, delivery + service); 1-2 places, 1-2 time windows, tags;
1-3 vehicle types x 1-2 ids x 1-2 shifts, open / closed ends, start latest; single-dimension capacity; integer costs;
skills (allOf); limits (maxDistance, maxDuration, tourSize).  Additive FEATURES (gen_problem(features=...), each drawn from a
forked stream so the base problem is the one the old generator produced): 'compat' (job compatibility classes mixed with plain
jobs), 'group' (job groups), 'unreach' (matrix errorCodes, mostly asymmetric), 'mdim' (2-3 capacity dimensions, demands of the
same length), 'skills2' (skills oneOf / noneOf).  NOT generated: breaks, reloads, recharges, relations, clustering,
replacements, value/order, multiple profiles, scaled profiles, objectives override.
"""
import calendar
import time as _time
from coqterm import z, zlist, lst, nat, opt

BASE = 1577836800           # 2020-01-01T00:00:00Z
INF = 2 ** 60               # stands for f64::MAX (unbounded window end / shift end)
NEG = -BASE                 # absolute time 0 (TimeWindow::max start) relative to BASE


def rfc(t):
    """integer seconds relative to BASE -> RFC3339 (whole seconds, Z)"""
    return _time.strftime('%Y-%m-%dT%H:%M:%SZ', _time.gmtime(BASE + int(t)))


def secs(s):
    """RFC3339 string (whole seconds, 'Z' or +00:00) -> integer seconds relative to BASE"""
    s = s.strip()
    if s.endswith('Z'):
        core = s[:-1]
    elif s.endswith('+00:00'):
        core = s[:-6]
    else:
        raise ValueError('unsupported time zone in %r' % s)
    if '.' in core:
        core, frac = core.split('.')
        if frac.strip('0'):
            raise ValueError('fractional seconds in %r' % s)
    return calendar.timegm(_time.strptime(core, '%Y-%m-%dT%H:%M:%S')) - BASE


# ------------------------------------------------------------------------------------------------ generation
def gen_matrix(rng, n, metric):
    if metric:
        xs = [(rng.range(0, 30), rng.range(0, 30)) for _ in range(n)]
        if rng.chance(1, 3) and n > 2:
            xs[1] = xs[0]                      # two distinct location indices at zero distance
        base = [[abs(xs[i][0] - xs[j][0]) + abs(xs[i][1] - xs[j][1]) for j in range(n)] for i in range(n)]
        dur = [base[i][j] for i in range(n) for j in range(n)]
        dist = [2 * base[i][j] + (1 if i < j else 0) * (base[i][j] > 0) for i in range(n) for j in range(n)]
    else:
        dur = [0 if i == j else rng.range(0, 40) for i in range(n) for j in range(n)]
        dist = [0 if i == j else rng.range(0, 60) for i in range(n) for j in range(n)]
        if rng.chance(1, 2):
            # a cheap chain with expensive shortcuts (removing a middle stop makes the tour longer)
            for i in range(n):
                for j in range(n):
                    if i != j and j != (i + 1) % n:
                        dur[i * n + j] += 60
                        dist[i * n + j] += 90
    return dur, dist


def _place(rng, n, horizon, loc=None, tag=None, windows=None):
    p = {'location': {'index': rng.below(n) if loc is None else loc}, 'duration': rng.choice([0, 0, 3, 5, 10, 12])}
    k = rng.below(10) if windows is None else windows
    if k < 3:
        pass                                           # no times: any time
    elif k < 8:
        a = rng.range(0, horizon)
        p['times'] = [[rfc(a), rfc(a + rng.choice([rng.range(0, 40), rng.range(40, 250), rng.range(100, 400)]))]]
    else:
        a = rng.range(0, horizon // 2)
        b = a + rng.range(0, 80)
        c = b + rng.range(1, 80)
        p['times'] = [[rfc(a), rfc(b)], [rfc(c), rfc(c + rng.range(0, 200))]]
    if tag is not None:
        p['tag'] = tag
    return p


def _task(rng, n, horizon, demand, jid, k, force_tags=False, avoid=()):
    """one task; 1 place mostly, sometimes 2 (second place: often the same location with another duration and tag)"""
    locs = [l for l in range(n) if l not in avoid] or list(range(n))
    loc = rng.choice(locs)
    tagged = force_tags or rng.chance(1, 3)
    places = [_place(rng, n, horizon, loc=loc, tag='%s.t%d.a' % (jid, k) if tagged else None)]
    if rng.chance(1, 4):
        same = rng.chance(1, 2)
        tag2 = '%s.t%d.b' % (jid, k) if (tagged or rng.chance(1, 2)) else None
        p2 = _place(rng, n, horizon, loc=loc if same else rng.choice(locs), tag=tag2)
        if same:
            # same location: the places differ by duration (and possibly windows); usually the SECOND is more attractive
            p2['duration'] = places[0]['duration'] + rng.choice([-3, 2, 4, 7]) if places[0]['duration'] >= 3 \
                else places[0]['duration'] + rng.choice([2, 4, 7])
            if rng.chance(1, 2) and 'times' in places[0]:
                p2['times'] = places[0]['times']
            if rng.chance(1, 2):
                places[0]['duration'] = p2['duration'] + rng.choice([4, 9])
        places.append(p2)
    t = {'places': places}
    if demand is not None:
        t['demand'] = [demand]
    return t, loc


FEATURES = ('compat', 'group', 'unreach', 'mdim', 'skills2', 'reloads', 'order', 'value')


def gen_problem(rng, njobs=None, metric=None, nlocs=None, tight=None, multi=True, skills=True, limits=True, features=None):
    """features: None = every feature of FEATURES independently with probability ~1/3 (combined freely);
    () = none (the generator as it was before the features existed); or an explicit collection of names to force"""
    n = nlocs or rng.range(3, 8)
    if metric is None:
        metric = rng.chance(3, 5)
    dur, dist = gen_matrix(rng, n, metric)
    njobs = njobs or rng.range(3, 10)
    if tight is None:
        tight = rng.chance(1, 4)
    horizon = rng.choice([150, 300, 500])
    all_skills = ['s1', 's2']

    # ---- fleet
    vehicles = []
    ntypes = rng.choice([1, 1, 2, 2, 3])
    for ti in range(ntypes):
        tid = 'v%d' % (ti + 1)
        ids = ['%s_%d' % (tid, k + 1) for k in range(rng.choice([1, 1, 2]))]
        start_loc = rng.choice([0, 0, rng.below(n)])
        e1 = rng.choice([0, 0, 20, 50])
        sh = {'start': {'earliest': rfc(e1), 'location': {'index': start_loc}}}
        k = rng.below(4)
        if k == 1:
            sh['start']['latest'] = rfc(e1)
        elif k == 2:
            sh['start']['latest'] = rfc(e1 + rng.range(1, 120))
        shifts = [sh]
        if rng.chance(7, 10):
            end1 = e1 + (rng.range(60, 200) if tight else rng.range(horizon, horizon + 500))
            sh['end'] = {'latest': rfc(end1), 'location': {'index': rng.choice([start_loc, start_loc, rng.below(n)])}}
            if rng.chance(1, 4):
                e2 = end1 + rng.range(1, 100)
                sh2 = {'start': {'earliest': rfc(e2), 'location': {'index': rng.choice([start_loc, rng.below(n)])}}}
                if rng.chance(1, 2):
                    sh2['end'] = {'latest': rfc(e2 + rng.range(100, 500)), 'location': {'index': rng.below(n)}}
                if rng.chance(1, 3):
                    sh2['start']['latest'] = rfc(e2 + rng.range(0, 60))
                shifts.append(sh2)
        v = {'typeId': tid, 'vehicleIds': ids, 'profile': {'matrix': 'car'},
             'costs': {'fixed': rng.choice([0, 5, 10, 25, 50]), 'distance': rng.choice([0, 1, 1, 2, 3]),
                       'time': rng.choice([0, 1, 1, 2])},
             'shifts': shifts, 'capacity': [rng.range(2, 6) if tight else rng.range(4, 20)]}
        if v['costs']['distance'] == 0 and v['costs']['time'] == 0:
            v['costs']['distance'] = 1
        if skills and rng.chance(1, 3):
            v['skills'] = rng.shuffle(all_skills)[:rng.range(1, 2)]
        if limits and rng.chance(1, 3):
            lim = {}
            if rng.chance(1, 2):
                lim['maxDistance'] = rng.range(40, 300)
            if rng.chance(1, 2):
                lim['maxDuration'] = rng.range(60, 400)
            if rng.chance(1, 2):
                lim['tourSize'] = rng.range(1, 5)
            if lim:
                v['limits'] = lim
        vehicles.append(v)

    # ---- jobs
    jobs = []
    for j in range(njobs):
        jid = 'j%d' % (j + 1)
        job = {'id': jid}
        kind = rng.below(20) if multi else rng.below(12)
        q = rng.range(1, 4)
        if kind < 5:
            job['deliveries'] = [_task(rng, n, horizon, q, jid, 0)[0]]
        elif kind < 9:
            job['pickups'] = [_task(rng, n, horizon, q, jid, 0)[0]]
        elif kind < 12:
            t, _ = _task(rng, n, horizon, None, jid, 0)
            job['services'] = [t]
        elif kind < 16:        # shipment
            tp, lp = _task(rng, n, horizon, q, jid, 0, force_tags=rng.chance(1, 2))
            td, _ = _task(rng, n, horizon, q, jid, 1, force_tags='tag' in tp['places'][0])
            job['pickups'], job['deliveries'] = [tp], [td]
        elif kind < 17:        # two pickups, one delivery
            q2 = rng.range(1, 3)
            t1, l1 = _task(rng, n, horizon, q, jid, 0, force_tags=True)
            t2, _ = _task(rng, n, horizon, q2, jid, 1, force_tags=True, avoid=(l1,))
            t3, _ = _task(rng, n, horizon, q + q2, jid, 2, force_tags=True)
            job['pickups'], job['deliveries'] = [t1, t2], [t3]
        elif kind < 18:        # two deliveries (static demand)
            t1, l1 = _task(rng, n, horizon, q, jid, 0, force_tags=True)
            t2, _ = _task(rng, n, horizon, rng.range(1, 3), jid, 1, force_tags=True, avoid=(l1,))
            job['deliveries'] = [t1, t2]
        else:                  # delivery + service
            t1, _ = _task(rng, n, horizon, q, jid, 0, force_tags=True)
            t2, _ = _task(rng, n, horizon, None, jid, 1, force_tags=True)
            job['deliveries'], job['services'] = [t1], [t2]
        # places of one task must be distinguishable among tasks of the same kind: same-kind tasks use other locations
        for key in ('pickups', 'deliveries'):
            ts = job.get(key, [])
            if len(ts) == 2:
                used = {p['location']['index'] for p in ts[0]['places']}
                for p in ts[1]['places']:
                    if p['location']['index'] in used:
                        cand = [l for l in range(n) if l not in used]
                        if cand:
                            p['location'] = {'index': rng.choice(cand)}
        if skills and rng.chance(1, 6):
            # one or both skills (a two-skill job can only be served by the vehicle type that has both)
            job['skills'] = {'allOf': rng.shuffle(all_skills)[:rng.range(1, 2)]}
        jobs.append(job)

    problem = {'plan': {'jobs': jobs}, 'fleet': {'vehicles': vehicles, 'profiles': [{'name': 'car'}]}}
    # validation E1504: the matrix size must equal the number of DISTINCT locations used (CoordIndex), so the used
    # indices are renumbered to 0..m-1 and the matrix is restricted to them
    used = sorted(set(used_locations(problem)))
    ren = {l: k for k, l in enumerate(used)}
    for loc in location_refs(problem):
        loc['index'] = ren[loc['index']]
    dur = [dur[i * n + j] for i in used for j in used]
    dist = [dist[i * n + j] for i in used for j in used]
    n = len(used)
    matrix = {'profile': 'car', 'travelTimes': dur, 'distances': dist}
    # ---- additive features: all draws come from a FORKED stream (the parent stream is not consumed)
    frng = rng.fork('features')
    if features is None:
        feats = [f for f in FEATURES if frng.chance(1, 3)]
    else:
        feats = [f for f in FEATURES if f in features]
    add_features(frng, problem, matrix, feats, tight)
    return {'problem': problem, 'matrices': [matrix],
            'meta': {'n': n, 'metric': bool(metric), 'tight': bool(tight), 'njobs': njobs, 'features': feats}}


def add_features(frng, problem, matrix, feats, tight=False):
    jobs = problem['plan']['jobs']
    vehicles = problem['fleet']['vehicles']
    n = matrix_size(matrix)
    if 'compat' in feats:
        classes = ['food', 'junk', 'glass'][:frng.choice([2, 2, 3])]
        for j in jobs:
            if frng.chance(1, 2):                       # the others stay plain jobs (they mix with every class)
                j['compatibility'] = frng.choice(classes)
        if not any('compatibility' in j for j in jobs):
            jobs[0]['compatibility'] = classes[0]
    if 'group' in feats:
        groups = ['g1', 'g2'][:frng.choice([1, 2, 2])]
        for j in jobs:
            if frng.chance(2, 5):
                j['group'] = frng.choice(groups)
        if not any('group' in j for j in jobs):
            jobs[-1]['group'] = groups[0]
    if 'skills2' in feats:
        pool = ['s1', 's2', 's3']
        for v in vehicles:
            if 'skills' not in v and frng.chance(1, 2):
                v['skills'] = frng.shuffle(pool)[:frng.range(1, 2)]
            elif 'skills' in v and frng.chance(1, 3):
                v['skills'] = sorted(set(v['skills'] + ['s3']))
        for j in jobs:
            if frng.chance(1, 3):
                sk = dict(j.get('skills') or {})
                k = frng.below(3)
                if k in (0, 2):
                    sk['oneOf'] = frng.shuffle(pool)[:frng.range(1, 2)]
                if k in (1, 2):
                    sk['noneOf'] = frng.shuffle(pool)[:frng.range(1, 2)]
                j['skills'] = sk
    if 'mdim' in feats:
        k = frng.choice([2, 2, 3])
        for v in vehicles:
            v['capacity'] = v['capacity'][:1] + [frng.range(2, 6) if tight or frng.chance(1, 3) else frng.range(4, 20) for _ in range(k - 1)]
        for j in jobs:
            pick, deli = j.get('pickups') or [], j.get('deliveries') or []
            for t in pick + deli + (j.get('replacements') or []):
                t['demand'] = t['demand'][:1] + [frng.choice([0, 1, 1, 2, 3]) for _ in range(k - 1)]
            if pick and deli:
                # validation E1102 (per dimension): sum of pickups = sum of deliveries; every such job has ONE delivery
                tot = [sum(t['demand'][d] for t in pick) for d in range(k)]
                for t in deli[1:]:
                    t['demand'] = [0] * k
                deli[0]['demand'] = [tot[d] - sum(t['demand'][d] for t in deli[1:]) for d in range(k)]
    if 'reloads' in feats:
        # multi-trip: small capacities, reloads on most shifts, and extra load (static deliveries + shipments that can be
        # picked up in one reload interval and delivered in another) so that more than one trip is needed
        horizon = 400
        chosen = [v for v in vehicles if frng.chance(4, 5)] or [vehicles[0]]
        for v in chosen:
            v['capacity'] = [frng.choice([2, 2, 3, 4])] + list(v['capacity'][1:])
            for sh in v['shifts']:
                if not frng.chance(4, 5):
                    continue
                start_loc = sh['start']['location']['index']
                e1 = secs(sh['start']['earliest'])
                rl = []
                for k in range(frng.choice([1, 1, 2])):
                    r = {'location': {'index': frng.choice([start_loc, start_loc, frng.below(n)])}, 'duration': frng.choice([0, 1, 2, 5])}
                    if frng.chance(1, 4):
                        a = e1 + frng.range(0, 150)
                        r['times'] = [[rfc(a), rfc(a + frng.range(60, 500))]]
                    if frng.chance(1, 3):
                        r['tag'] = 'rl%d' % (k + 1)
                    rl.append(r)
                sh['reloads'] = rl
        if not any(sh.get('reloads') for v in vehicles for sh in v['shifts']):
            sh = vehicles[0]['shifts'][0]
            sh['reloads'] = [{'location': {'index': sh['start']['location']['index']}, 'duration': 1}]
        k = max(len(v['capacity']) for v in vehicles)
        base = len(jobs)
        for x in range(frng.range(3, 6)):
            jid = 'j%d' % (base + x + 1)
            dem = [frng.range(1, 2)] + [frng.choice([0, 1]) for _ in range(k - 1)]
            if x > 0 and frng.chance(2, 3):
                t, _ = _task(frng, n, horizon, None, jid, 0)
                t['demand'] = dem
                for pl in t['places']:
                    if frng.chance(2, 3):
                        pl.pop('times', None)
                jobs.append({'id': jid, 'deliveries': [t]})
            else:
                tp, _ = _task(frng, n, horizon, None, jid, 0, force_tags=True)
                td, _ = _task(frng, n, horizon, None, jid, 1, force_tags=True)
                for t in (tp, td):
                    t['demand'] = list(dem)
                    for pl in t['places']:
                        pl.pop('times', None)
                jobs.append({'id': jid, 'pickups': [tp], 'deliveries': [td]})
    if 'order' in feats:
        # task `order` (1..3) on about half of the tasks: a HARD rule with the default objectives (goal_reader.rs)
        for j in jobs:
            for _, t in tasks_of(j):
                if frng.chance(1, 2):
                    t['order'] = frng.range(1, 3)
        if not any(t.get('order') for j in jobs for _, t in tasks_of(j)):
            tasks_of(jobs[0])[0][1]['order'] = 1
    if 'value' in feats:
        # job `value` switches the maximize-value objective on (nothing hard to check: it only reorders the search)
        for j in jobs:
            if frng.chance(1, 2):
                j['value'] = frng.range(1, 10)
        if not any(j.get('value') for j in jobs):
            jobs[0]['value'] = 5
    if 'unreach' in feats:
        err = [0] * (n * n)
        style = frng.below(4)
        pairs = [(i, j) for i in range(n) for j in range(n) if i != j]
        if style == 0 and n > 2:                       # one location that cannot be left / cannot be entered
            x = frng.below(n)
            for i, j in pairs:
                if (i == x) if frng.chance(1, 2) else (j == x):
                    err[i * n + j] = 1
        else:
            for i, j in pairs:
                if frng.chance(1, 5):
                    err[i * n + j] = frng.choice([1, 1, 2, 7])
                    if style == 1:                      # symmetric
                        err[j * n + i] = err[i * n + j]
        if not any(err):
            i, j = frng.choice(pairs)
            err[i * n + j] = 1
        matrix['errorCodes'] = err


def location_refs(problem):
    """all location objects ({'index': i}) of a problem, as mutable references"""
    locs = []
    for j in problem['plan']['jobs']:
        for _, t in tasks_of(j):
            locs += [pl['location'] for pl in t['places']]
    for v in problem['fleet']['vehicles']:
        for sh in v['shifts']:
            locs.append(sh['start']['location'])
            if sh.get('end'):
                locs.append(sh['end']['location'])
            locs += [r['location'] for r in sh.get('reloads') or []]
    return locs


def used_locations(problem):
    return [l['index'] for l in location_refs(problem)]


def gen_config(rng, tier='quick'):
    r = rng.below(10)
    if r < 1 and rng.chance(1, 2):
        gens = 0               # the solver returns an error ("cannot find any solution"): no document
    elif r < 5:
        gens = rng.range(1, 3)
    else:
        gens = rng.range(4, 20)
    par = rng.choice([None, None, [1, 1], [2, 2]])
    quota = None
    if rng.chance(1, 3):
        quota = rng.choice([0, 1, 2, 3, 5, 8, 13, 21, 34, 55, 89])
    return {'max_generations': gens, 'parallelism': par, 'quota_after_polls': quota, 'seed': rng.below(1000),
            'outer_threads': rng.choice([1, 1, 2])}


CONSTRUCT = 4     # pure-construction documents asked from the harness for problems with errorCodes (see c01.oracle_model)


def solve_case(p, cfg):
    if p['matrices'][0].get('errorCodes') and 'construct' not in cfg:
        # reachability: the pure-construction documents tell an unreachable leg left behind by a removal (finding C01-F4)
        # from one accepted by an insertion (c01.oracle_model)
        cfg = dict(cfg, construct=CONSTRUCT)
    return {'op': 'solve', 'problem': p['problem'], 'matrices': p['matrices'], 'config': cfg}


# ------------------------------------------------------------------------------------------------ id tables
KIND = {'pickup': 0, 'delivery': 1, 'service': 2, 'replacement': 3,
        'departure': 10, 'arrival': 11, 'break': 12, 'reload': 13, 'recharge': 14}
FOREIGN = 1000000
RELOAD_JOB = -13           # Spec/Intervals.v RELOAD_JOB: the job id a reload activity is rendered with


class Ids:
    """string <-> integer tables; ids unknown to the problem get numbers >= FOREIGN (stable per document)"""

    def __init__(self, p):
        pr = p['problem']
        self.jobs = {j['id']: k + 1 for k, j in enumerate(pr['plan']['jobs'])}
        self.types, self.vehicles = {}, {}
        for t in pr['fleet']['vehicles']:
            self.types.setdefault(t['typeId'], len(self.types) + 1)
            for v in t['vehicleIds']:
                self.vehicles.setdefault(v, len(self.vehicles) + 1)
        self.tags, self.skills = {}, {}
        for j in pr['plan']['jobs']:
            for t in tasks_of(j):
                for pl in t[1]['places']:
                    if pl.get('tag') is not None:
                        self.tags.setdefault(pl['tag'], len(self.tags) + 1)
            for key in ('allOf', 'oneOf', 'noneOf'):
                for s in (j.get('skills') or {}).get(key) or []:
                    self.skills.setdefault(s, len(self.skills) + 1)
        for t in pr['fleet']['vehicles']:
            for s in t.get('skills') or []:
                self.skills.setdefault(s, len(self.skills) + 1)
            for sh in t['shifts']:
                for r in sh.get('reloads') or []:
                    if r.get('tag') is not None:
                        self.tags.setdefault(r['tag'], len(self.tags) + 1)
        self.groups, self.compats = {}, {}
        for j in pr['plan']['jobs']:
            if j.get('group') is not None:
                self.groups.setdefault(j['group'], len(self.groups) + 1)
            if j.get('compatibility') is not None:
                self.compats.setdefault(j['compatibility'], len(self.compats) + 1)
        self.extra = {}

    def _get(self, table, key):
        if key in table:
            return table[key]
        return self.extra.setdefault((id(table), key), FOREIGN + len(self.extra))

    def job(self, s):
        return self._get(self.jobs, s)

    def vehicle(self, s):
        return self._get(self.vehicles, s)

    def vtype(self, s):
        return self._get(self.types, s)

    def tag(self, s):
        return self._get(self.tags, s)

    def skill(self, s):
        return self._get(self.skills, s)

    def job_name(self, k):
        for s, v in self.jobs.items():
            if v == k:
                return s
        for (_, s), v in self.extra.items():
            if v == k:
                return s
        return '#%d' % k


def tasks_of(job):
    """[(kind, task)] in the order of job_reader::read_required_jobs: pickups, deliveries, replacements, services"""
    out = []
    for key, kind in (('pickups', 0), ('deliveries', 1), ('replacements', 3), ('services', 2)):
        for t in job.get(key) or []:
            out.append((kind, t))
    return out


# ------------------------------------------------------------------------------------------------ Gallina rendering
def zopt(x):
    return 'None' if x is None else '(Some %s)' % z(x)


def g_place(ids, pl):
    tws = pl.get('times')
    if tws is None:
        ws = [(NEG, INF)]
    else:
        ws = [(secs(w[0]), secs(w[1])) for w in tws]
    tag = None if pl.get('tag') is None else ids.tag(pl['tag'])
    return '(mkPPlace %s %s %s %s)' % (z(pl['location']['index']), z(int(pl['duration'])),
                                      lst(ws, lambda w: '(%s, %s)' % (z(w[0]), z(w[1]))), zopt(tag))


def g_job(ids, j):
    ts = tasks_of(j)
    static = not (j.get('pickups') and j.get('deliveries'))
    tasks = lst(ts, lambda kt: '(mkPTask %s %s %s)' % (z(kt[0]), lst(kt[1]['places'], lambda pl: g_place(ids, pl)),
                                                      z((kt[1].get('demand') or [0])[0])))
    skills = j.get('skills') or {}
    sk, one, none = ([ids.skill(s) for s in skills.get(key) or []] for key in ('allOf', 'oneOf', 'noneOf'))
    group = None if j.get('group') is None else ids.groups[j['group']]
    compat = None if j.get('compatibility') is None else ids.compats[j['compatibility']]
    k = max([len(kt[1].get('demand') or [0]) for kt in ts] + [1])
    xdem = [[(list(kt[1].get('demand') or []) + [0] * k)[d] for kt in ts] for d in range(1, k)]
    orders = [int(kt[1].get('order') or 0) for kt in ts]
    return '(mkPJob %s %s %s %s %s %s %s %s %s %s)' % (z(ids.job(j['id'])), tasks, 'true' if static else 'false', zlist(sk),
                                                    zlist(one), zlist(none), zopt(group), zopt(compat), lst(xdem, zlist),
                                                    zlist(orders))


def g_shift(sh, ids=None):
    st = sh['start']
    latest = INF if st.get('latest') is None else secs(st['latest'])
    end = 'None'
    if sh.get('end') is not None:
        end = '(Some (%s, %s))' % (z(sh['end']['location']['index']), z(secs(sh['end']['latest'])))
    return '(mkPShift %s %s %s %s %s)' % (z(st['location']['index']), z(secs(st['earliest'])), z(latest), end,
                                          lst(sh.get('reloads') or [], lambda r: g_place(ids, r)))


def g_vtype(ids, t):
    lim = t.get('limits') or {}
    c = t['costs']
    ts = lim.get('tourSize')
    return '(mkPVType %s %s %s %s %s %s %s %s %s %s %s %s)' % (
        z(ids.vtype(t['typeId'])), zlist([ids.vehicle(v) for v in t['vehicleIds']]), lst(t['shifts'], lambda sh: g_shift(sh, ids)),
        z(t['capacity'][0]), z(int(c.get('fixed') or 0)), z(int(c['distance'])), z(int(c['time'])),
        zlist([ids.skill(s) for s in t.get('skills') or []]),
        zopt(None if lim.get('maxDistance') is None else int(lim['maxDistance'])),
        zopt(None if lim.get('maxDuration') is None else int(lim['maxDuration'])),
        'None' if ts is None else '(Some %s)' % z(ts), zlist(list(t['capacity'][1:])))


def matrix_size(m):
    n = int(round(len(m['travelTimes']) ** 0.5))
    return n


def g_problem(p, ids=None):
    ids = ids or Ids(p)
    pr = p['problem']
    m = p['matrices'][0]
    return '(mkPProblem %s %s %s %s %s %s)' % (lst(pr['plan']['jobs'], lambda j: g_job(ids, j)),
                                              lst(pr['fleet']['vehicles'], lambda t: g_vtype(ids, t)),
                                              z(matrix_size(m)), zlist(m['travelTimes']), zlist(m['distances']),
                                              zlist(m.get('errorCodes') or []))


def _interval(iv):
    return None if iv is None else (secs(iv['start']), secs(iv['end']))


def g_act(ids, a):
    kind = KIND.get(a.get('type'), 99)
    job = ids.job(a['jobId']) if kind in (0, 1, 2, 3) else RELOAD_JOB if kind == 13 else -1
    loc = None if a.get('location') is None else a['location']['index']
    iv = _interval(a.get('time'))
    tag = None if a.get('jobTag') is None else ids.tag(a['jobTag'])
    return '(mkSAct %s %s %s %s %s)' % (z(job), z(kind), zopt(loc),
                                        'None' if iv is None else '(Some (%s, %s))' % (z(iv[0]), z(iv[1])), zopt(tag))


def g_stat(st):
    t = st['times']
    return '(mkSStat %s %s %s %s %s %s %s)' % (z(int(st['cost'])), z(st['distance']), z(st['duration']), z(t['driving']),
                                              z(t['serving']), z(t['waiting']), z(t['break']))


def g_stop(ids, s):
    return '(mkSStop %s %s %s %s %s %s)' % (z(s['location']['index']), z(secs(s['time']['arrival'])),
                                           z(secs(s['time']['departure'])), z((s['load'] or [0])[0]), z(s['distance']),
                                           lst(s['activities'], lambda a: g_act(ids, a)))


def capacity_dims(p):
    return max([len(v['capacity']) for v in p['problem']['fleet']['vehicles']] + [1])


def g_tour(ids, t, dims=1):
    # loads in the dimensions 1..dims-1 (a load vector shorter than the capacity is padded with zeros: MultiDimLoad::as_vec
    # of a load that never met a demand is [0])
    xload = [[(list(s.get('load') or []) + [0] * dims)[d] for s in t['stops']] for d in range(1, dims)]
    return '(mkSTour %s %s %s %s %s %s)' % (z(ids.vehicle(t['vehicleId'])), z(ids.vtype(t['typeId'])), nat(t.get('shiftIndex', 0)),
                                           lst(t['stops'], lambda s: g_stop(ids, s)), g_stat(t['statistic']), lst(xload, zlist))


def g_solution(p, s, ids=None):
    ids = ids or Ids(p)
    un = s.get('unassigned') or []
    dims = capacity_dims(p)
    return '(mkSSolution %s %s %s)' % (
        g_stat(s['statistic']), lst(s['tours'], lambda t: g_tour(ids, t, dims)),
        lst(un, lambda u: '(%s, %s)' % (z(ids.job(u['jobId'])), nat(len(u.get('reasons') or [])))))


def unsupported(p, s):
    """why the document cannot be rendered into the reduced Coq types (None = fine)"""
    try:
        dims = capacity_dims(p)
        if any(len(v['capacity']) != dims for v in p['problem']['fleet']['vehicles']) or \
                any(len(t['demand']) != dims for j in p['problem']['plan']['jobs'] for _, t in tasks_of(j) if t.get('demand')):
            return 'capacities / demands of different lengths'
        if not isinstance(s, dict) or 'tours' not in s or 'statistic' not in s:
            return 'not a solution document'
        sts = [s['statistic']] + [t['statistic'] for t in s['tours']]
        for st in sts:
            if float(st['cost']) != int(st['cost']):
                return 'non-integer cost %r' % st['cost']
            if st['times'].get('commuting', 0) or st['times'].get('parking', 0):
                return 'commuting/parking time reported without clustering'
        for t in s['tours']:
            for stop in t['stops']:
                if 'location' not in stop or 'index' not in stop['location']:
                    return 'stop without index location (transit stop?)'
                if len(stop.get('load', [])) > dims:
                    return 'load with more dimensions than the capacity'
                if stop.get('parking') is not None:
                    return 'parking reported without clustering'
                secs(stop['time']['arrival']), secs(stop['time']['departure'])
                for a in stop['activities']:
                    if a.get('commute') is not None:
                        return 'commute reported without clustering'
                    if a.get('location') is not None and 'index' not in a['location']:
                        return 'activity with non-index location'
                    if a.get('time') is not None:
                        secs(a['time']['start']), secs(a['time']['end'])
    except Exception as e:  # noqa
        return 'malformed document: %r' % (e,)
    return None


# ------------------------------------------------------------------------------------------------ misc helpers
def all_job_ids(p):
    return [j['id'] for j in p['problem']['plan']['jobs']]


def doc_summary(s):
    """(assigned job ids per tour, unassigned ids) of a solution document"""
    tours = []
    for t in s.get('tours', []):
        ids = []
        for stop in t['stops']:
            for a in stop['activities']:
                if a['type'] in ('pickup', 'delivery', 'service', 'replacement'):
                    ids.append(a['jobId'])
        tours.append(ids)
    return tours, [u['jobId'] for u in s.get('unassigned') or []]


# ------------------------------------------------------------------------------------------------ preconditions
def distinguishable(problem):
    """Valid.precond_viol / tasks_distinct: same-kind tasks of one job use disjoint location sets"""
    for j in problem['plan']['jobs']:
        ts = tasks_of(j)
        for a in range(len(ts)):
            for b in range(a + 1, len(ts)):
                if ts[a][0] == ts[b][0]:
                    la = {p['location']['index'] for p in ts[a][1]['places']}
                    lb = {p['location']['index'] for p in ts[b][1]['places']}
                    if la & lb:
                        return False
    return True


def gen_checked_problem(rng, **opts):
    """gen_problem, regenerated until the checker's preconditions hold (they nearly always do)"""
    for _ in range(20):
        p = gen_problem(rng, **opts)
        if distinguishable(p['problem']):
            return p
    return gen_problem(rng, multi=False, **{k: v for k, v in opts.items() if k != 'multi'})


def gen_cases(rng, n, per_problem=3, trace=0, **opts):
    """n harness cases: generated problems x `per_problem` configurations each"""
    cases = []
    while len(cases) < n:
        p = gen_checked_problem(rng, **opts)
        for _ in range(per_problem):
            if len(cases) >= n:
                break
            cfg = gen_config(rng)
            if trace:
                cfg['trace'] = trace
            c = solve_case(p, cfg)
            c['meta'] = p['meta']
            cases.append(c)
    return cases


def outcome(impl):
    """'solution' | 'error' | 'panic' of a harness result"""
    if impl is None or 'panic' in impl:
        return 'panic'
    if 'error' in impl or 'solution' not in impl:
        return 'error'
    return 'solution'


# ------------------------------------------------------------------------------------------------ python twin (A)
def _flat_tour(t):
    """python twin of Valid.flat_tour: [(job id str, type, location index)]"""
    out = []
    for s in t['stops']:
        for a in s['activities']:
            loc = (a.get('location') or s.get('location') or {}).get('index')
            out.append((a.get('jobId'), a.get('type'), loc))
    return out


def _flat_facts(t):
    """python twin of Valid.flat_tour with times: [{'kind','loc','arr','start','end'}] (seconds)"""
    out = []
    for st in t['stops']:
        arr = secs(st['time']['arrival'])
        for a in st['activities']:
            if a.get('time') is not None:
                b, e = secs(a['time']['start']), secs(a['time']['end'])
            else:
                b, e = secs(st['time']['arrival']), secs(st['time']['departure'])
            loc = (a.get('location') or st.get('location') or {}).get('index')
            out.append({'kind': a.get('type'), 'loc': loc, 'arr': arr, 'start': b, 'end': e})
            arr = e
    return out


def _reload_fits(a, r):
    if r['location']['index'] != a['loc'] or int(r['duration']) != a['end'] - a['start']:
        return False
    tws = [(NEG, INF)] if r.get('times') is None else [(secs(w[0]), secs(w[1])) for w in r['times']]
    return any(a['start'] == max(a['arr'], w[0]) for w in tws)


def _assignable(acts, avail):
    """python twin of Valid.assign_b: every activity gets its own fitting reload definition"""
    if not acts:
        return True
    return any(_reload_fits(acts[0], r) and _assignable(acts[1:], avail[:i] + avail[i + 1:]) for i, r in enumerate(avail))


_COND = None


def is_conditional_id(p, jid):
    """ids of the marker jobs the reader creates per vehicle shift: <vehicleId>_(reload|break|recharge)_<shift>_<n>"""
    import re
    if jid in {j['id'] for j in p['problem']['plan']['jobs']}:
        return False
    m = re.match(r'^(.*)_(reload|break|recharge)_(\d+)_(\d+)$', str(jid))
    return bool(m) and any(m.group(1) in vt['vehicleIds'] for vt in p['problem']['fleet']['vehicles'])


def py_accounting(p, s):
    """plain re-implementation of Valid.accounted_b on the raw JSON; returns a sorted list of (constructor, arg)"""
    pr = p['problem']
    ids = Ids(p)
    jobkinds = ('pickup', 'delivery', 'service', 'replacement')
    kindno = {'pickup': 0, 'delivery': 1, 'service': 2, 'replacement': 3}
    tours = s.get('tours') or []
    un = s.get('unassigned') or []
    flats = [_flat_tour(t) for t in tours]
    v = []
    plan = {j['id'] for j in pr['plan']['jobs']}
    for j in pr['plan']['jobs']:
        jn = ids.job(j['id'])
        where = [[a for a in f if a[1] in jobkinds and a[0] == j['id']] for f in flats]
        tw = [w for w in where if w]
        us = [u for u in un if u['jobId'] == j['id']]
        if not tw and not us:
            v.append(('AJobLost', jn))
        elif not tw and len(us) == 1:
            if len(us[0].get('reasons') or []) < 1:
                v.append(('AJobNoReason', jn))
        elif len(tw) == 1 and not us:
            acts = tw[0]
            ts = tasks_of(j)
            ok = len(acts) == len(ts)
            for kind, t in ts:
                locs = {pl['location']['index'] for pl in t['places']}
                if sum(1 for a in acts if kindno[a[1]] == kind and a[2] in locs) != 1:
                    ok = False
            if not ok:
                v.append(('AJobIncomplete', jn))
            seen_delivery = False
            order_ok = True
            for a in acts:
                if a[1] == 'delivery':
                    seen_delivery = True
                elif a[1] == 'pickup' and seen_delivery:
                    order_ok = False
            if not order_ok:
                v.append(('AJobOrder', jn))
        else:
            v.append(('AJobDuplicated', jn))
    for f in flats:
        for a in f:
            if a[1] in jobkinds and a[0] not in plan:
                v.append(('AForeignJob', ids.job(a[0])))
    for u in un:
        if u['jobId'] not in plan:
            v.append(('AForeignJob', ids.job(u['jobId'])))
    seen = []
    for k, t in enumerate(tours):
        named = False
        for vt in pr['fleet']['vehicles']:
            if vt['typeId'] == t.get('typeId') and t.get('vehicleId') in vt['vehicleIds'] \
                    and t.get('shiftIndex', 0) < len(vt['shifts']):
                named = True
        if not named:
            v.append(('ATourVehicle', k))
        if not any(a[1] in jobkinds for a in flats[k]):
            v.append(('ATourEmpty', k))
        key = (t.get('vehicleId'), t.get('shiftIndex', 0))
        if key in seen:
            v.append(('AShiftTwice', k))
        seen.append(key)
        if any(a[1] not in jobkinds + ('departure', 'arrival', 'reload') for a in flats[k]):
            v.append(('AExtraActivity', k))
        shift = None
        for vt in pr['fleet']['vehicles']:
            if shift is None and vt['typeId'] == t.get('typeId') and t.get('vehicleId') in vt['vehicleIds'] \
                    and t.get('shiftIndex', 0) < len(vt['shifts']):
                shift = vt['shifts'][t.get('shiftIndex', 0)]
        if shift is not None:
            racts = [a for a in _flat_facts(t) if a['kind'] == 'reload']
            if not _assignable(racts, list(shift.get('reloads') or [])):
                v.append(('AReload', k))
    return sorted(v)


def unreachable_legs(p, s):
    """python twin of Valid.reach_viols: [(tour index, flattened activity index)] of the legs marked by errorCodes"""
    err = p['matrices'][0].get('errorCodes')
    if not err:
        return []
    n = matrix_size(p['matrices'][0])
    out = []
    for k, t in enumerate(s.get('tours') or []):
        locs = [l for _, _, l in _flat_tour(t)]
        out += [(k, i) for i in range(1, len(locs)) if err[locs[i - 1] * n + locs[i]] > 0]
    return out


def coq_viols(val, group=None):
    """Coq `list violation` value -> sorted [(constructor, args...)], optionally only one group (first letter)"""
    out = []
    for x in val or []:
        t = (x,) if isinstance(x, str) else tuple(x)
        if group is None or t[0][0] in group:
            out.append(t)
    return sorted(out)


# ------------------------------------------------------------------------------------------------ bookkeeping traces
def g_hsol(ids, st, p=None):
    # the marker jobs of reloads / breaks are not plan jobs: the bookkeeping statement (C02) is about plan jobs
    keep = (lambda x: True) if p is None else (lambda x: not is_conditional_id(p, x))
    return '(mkH %s %s %s)' % (lst(st['routes'], lambda r: zlist([ids.job(x) for x in r if keep(x)])),
                               zlist([ids.job(x) for x in st['required'] if keep(x)]),
                               zlist([ids.job(x) for x in st['unassigned'] if keep(x)]))


def g_trace(p, trace, ids=None):
    ids = ids or Ids(p)
    jobs = zlist([ids.job(j) for j in all_job_ids(p)])
    return '(run_trace %s %s)' % (jobs, lst(trace, lambda st: g_hsol(ids, st, p)))


def vehicle_type_of(p, tour):
    for vt in p['problem']['fleet']['vehicles']:
        if vt['typeId'] == tour.get('typeId') and tour.get('vehicleId') in vt['vehicleIds']:
            return vt
    return None


def unbounded_departure_possible(problem):
    """structure behind finding C02-F2: a vehicle type with limits.maxDuration owning a shift with neither start.latest
    nor end, and a job place without `times` (window end = f64::MAX): TravelLimitState::notify_failure then advances the
    departure of an EMPTY route to f64::MAX, and the writer's format_time unwraps an out-of-range timestamp"""
    open_shift = any((vt.get('limits') or {}).get('maxDuration') is not None
                     and any(sh['start'].get('latest') is None and sh.get('end') is None for sh in vt['shifts'])
                     for vt in problem['fleet']['vehicles'])
    no_times = any(pl.get('times') is None for j in problem['plan']['jobs'] for _, t in tasks_of(j) for pl in t['places'])
    return open_shift and no_times


def panic_class(c, msg):
    """violation class of a solver panic, derived from the message and the structure of the input"""
    if 'ComponentRange' in msg and 'timestamp' in msg and unbounded_departure_possible(c['problem']):
        return 'writer-panic-unbounded-departure-max-duration-vehicle'
    return 'solver-panic'
