"""C15 — parallel evaluation results do not depend on how work is split."""
from coqterm import z, zlist, lst, nat
from props import corelib as K

ID = 'C15'
HARNESS = 'c15'
COQ_IMPORTS = 'From VRP Require Import Base.Tac Model.CostOrder Model.Reduce Model.Core Model.Reduce2 Model.MultiPerm.'
MODEL_TARGETS = ['theories/Model/Reduce.vo', 'theories/Model/Reduce2.vo', 'theories/Model/MultiPerm.vo']
MODEL_NEEDS_IMPL = True
SHARD = 60
SIZES = {'quick': 150, 'thorough': 2500, 'search': 800}
RULE = ('cases: 1-3 existing routes (tours of 0-4 activities; one case in three: 4-7 short tours) plus 0-2 free vehicles with individual costs/capacities, 2-4 candidate '
        'single jobs, metric and non-metric matrices, waiting-heavy tours; goal [unassigned, tours, cost]; one case in nine has only failing pairs, one in six '
        'has candidates that already sit in `unassigned` with a code (skip shortcut). For each case the real '
        'evaluate_all runs in rayon pools of 1,2,3,4,5,8 threads (3 repetitions each); the sequential fold, all two-chunk splits and six further schedules '
        '(leaves of 1, 2, 3 pairs left- and right-nested, one leaf per route) are computed with the real step/reducer; every pair is evaluated alone and '
        'classified (skip / route-level violation / evaluated, failure fields); both branches of evaluate_and_collect_all are computed by a twin (real step + real '
        'parallel_collect, pools of 1 and 3) and, with at most one free vehicle, the real pub(crate) function is reached through RecreateWithSkipBest(2,2) and the '
        'insertion observer (first insertion = entry 2 of the sorted collected vector). non-trivial = distinct cases with >= 2 successful pairs '
        'of different cost. Every 19th case is a whole Solver run (op layouts): 12-20 unit-demand jobs, vehicles of capacity 2-3 (so the '
        'solution has 4+ tours and the decomposition search forms several groups of tours), 60-200 generations, solved under 3-4 of the layouts '
        '1x1, 1x4, 2x1, 2x2, 3x2, 4x1, 8x1, default plus always one of 0x1 / 0x4 (empty vector of pools); on every returned solution: each job exactly once (served or unassigned), nothing '
        'foreign, no vehicle twice, no tour above capacity. Every 19th case is op choose (16 generated result pairs through the real choose_best_result) and '
        'every 19th op decompose (the real DecomposeSearch around an identity inner search on 4-9 tours + 0-2 unassigned jobs under 4-5 layouts (one of them with zero pools): every tour '
        'must come back exactly once). One grid case in six (op multi grid) has 1-3 tours of 2-3 stops + 0-1 free vehicle on a metric matrix with open windows and 2-5 candidates of which '
        '1-2 are Multi jobs of 2-3 sub-jobs with 2-3 allowed permutations (FixedJobPermutation), placed anywhere in the job list; in two of three the cheapest insertion '
        'needs a NON-first permutation and costs nothing (sub-jobs at the locations of two consecutive stops, listed in reverse); pools of 1,2,3,5,8,16 threads. For every '
        'pair of every grid case additionally: the step started from an accumulator that holds a success strictly worse than the pair\'s own result (best_known_cost = own cost + 1 '
        'in the last component) must return the pair\'s own cost; for Multi candidates every allowed permutation is evaluated on its own and fed to Model/MultiPerm.v.')
TRUSTED = ["rayon's fold/reduce/collect only produce reductions over contiguous chunks in order and an order-preserving collect (documented contract); real thread interleavings are sampled, not enumerated",
           'ThreadPool::execute = rayon install returns the closure\'s value (modelled as such)',
           'the twin of evaluate_and_collect_all in the harness (the real function is pub(crate)); the real one is reached only through RecreateWithSkipBest']
ASSUMPTIONS = ['costs compared as integer vectors (integer data)',
               'the concrete lower-bound theorem is for the single-layer distance objective of Model/Core.v (single jobs, time-independent routing)']


LAYOUTS = [[1, 1], [1, 4], [2, 1], [2, 2], [3, 2], [4, 1], [8, 1], None]
ZERO_POOLS = [[0, 1], [0, 4]]


def gen_layouts_case(rng):
    """whole solver runs under explicit pool layouts: many small tours (unit demand, capacity 2-3), so that the search operators
    which split a solution into groups of tours (decomposition) have several groups, more than there are pools"""
    w = K.gen_world(rng, nmax=8, metric=True)
    njobs = rng.range(12, 20)
    jobs = [{'id': 100 + i, 'places': [{'loc': rng.range(1, w['n'] - 1), 'svc': rng.choice([0, 2]), 'tws': [[0, 'inf']]}], 'dem': [0, 0, 1, 0]}
            for i in range(njobs)]
    vehicles = []
    total = 0
    while total < njobs + 2:
        cap = rng.range(2, 3)
        total += cap
        vehicles.append({'start': 0, 'end': 0, 'shift_start': 0, 'shift_end': 'inf', 'cap': cap,
                         'costs': [rng.range(0, 20), 1, rng.range(0, 2), 0, 0]})
    layouts = [LAYOUTS[i] for i in sorted(set([0, 2] + [rng.below(len(LAYOUTS)) for _ in range(2)]))]
    layouts.append(rng.choice(ZERO_POOLS))      # an empty vector of thread pools (C15-F2, repaired): tasks run without a pool
    return {'op': 'layouts', 'n': w['n'], 'dur': w['dur'], 'dist': w['dist'], 'vehicles': vehicles, 'jobs': jobs,
            'layouts': layouts, 'generations': rng.choice([60, 120, 200])}


def gen_result(rng):
    """one InsertionResult for op choose: a success (cost vector of 1-4 small components, so ties and zero-padded comparisons
    occur) or a failure (code -1 = unknown, 1, 2, 5; stopped; job or none)"""
    if rng.chance(3, 5):
        return {'cost': [rng.range(-2, 3) for _ in range(rng.range(1, 4))]}
    return {'fail': [rng.choice([-1, -1, 1, 2, 5]), rng.chance(1, 2), rng.choice([None, 3, 4])]}


def gen_choose_case(rng):
    return {'op': 'choose', 'pairs': [[gen_result(rng), gen_result(rng)] for _ in range(16)]}


def gen_decompose_case(rng):
    """a solution with 4-9 short tours (1-2 unconstrained jobs each) and 0-2 unassigned jobs, handed to the real DecomposeSearch
    (group size range (2, 2..4), identity inner search) under 3-4 pool layouts"""
    w = K.gen_world(rng, nmax=8, metric=True)
    tours = []
    jid = 1
    for r in range(rng.range(4, 9)):
        tour = []
        for _ in range(rng.range(1, 2)):
            tour.append({'job': jid, 'loc': rng.range(1, w['n'] - 1), 'svc': 0, 'tws': 0, 'twe': 'inf', 'dem': [0, 0, 1, 0]})
            jid += 1
        tours.append({'veh': {'start': 0, 'end': 0, 'shift_start': 0, 'shift_end': 'inf', 'cap': 5,
                              'costs': [rng.range(0, 20), 1, rng.range(0, 2), 0, 0]}, 'tour': tour})
    unassigned = [{'id': 200 + i, 'places': [{'loc': rng.range(1, w['n'] - 1), 'svc': 0, 'tws': [[0, 'inf']]}], 'dem': [0, 0, 50, 0]}
                  for i in range(rng.range(0, 2))]
    layouts = [LAYOUTS[i] for i in sorted(set([0, 2] + [rng.below(len(LAYOUTS)) for _ in range(2)]))]
    layouts.append(rng.choice(ZERO_POOLS))
    return {'op': 'decompose', 'n': w['n'], 'dur': w['dur'], 'dist': w['dist'], 'tours': tours, 'unassigned': unassigned,
            'layouts': layouts, 'range': [2, rng.range(2, 4)], 'repeat': rng.range(1, 2)}


def cid(j):
    """job id as the harness reports it"""
    return ('m%d' if 'multi' in j else 'j%d') % j['id']


def gen_multi_grid(rng):
    """routes x jobs grid whose candidates include Multi jobs with two or more allowed permutations of their sub-jobs
    (metric matrix, open time windows, static demand only: every pair succeeds and no estimate is negative)"""
    import itertools
    w = K.gen_world(rng, nmax=8, metric=True)
    n = w['n']
    base = {x: w[x] for x in ('n', 'dur', 'dist')}

    def veh():
        return {'start': 0, 'end': (rng.below(n) if rng.chance(1, 2) else None), 'shift_start': 0, 'shift_end': 'inf', 'cap': 60,
                'costs': [rng.range(0, 20), rng.range(1, 3), rng.range(0, 2), 0, 0]}
    routes = []
    jid = 1
    for r in range(rng.range(1, 3)):
        locs = list(range(1, n))
        rng.shuffle(locs)
        tour = []
        for l in locs[:rng.range(2, 3)]:
            tour.append({'job': jid, 'loc': l, 'svc': 0, 'tws': 0, 'twe': 'inf', 'dem': [0, 0, 1, 0]})
            jid += 1
        routes.append({'veh': veh(), 'tour': tour})
    free = [dict(veh(), end=0) for _ in range(rng.range(0, 1))]
    nj = rng.range(2, 5)
    multi_at = set([rng.below(nj)] + ([rng.below(nj)] if rng.chance(1, 3) else []))
    trap = rng.chance(2, 3)
    jobs = []
    for q in range(nj):
        def sub(i, loc):
            return {'id': 900 + 10 * q + i, 'places': [{'loc': loc, 'svc': 0, 'tws': [[0, 'inf']]}], 'dem': [0, 0, rng.range(0, 1), 0]}
        if q in multi_at:
            nsub = rng.range(2, 3)
            if trap and len(routes[-1]['tour']) >= 2:
                # the cheapest insertion needs the SECOND listed permutation: sub-job 0 sits at the location of a later stop of a tour,
                # sub-job 1 at the location of the stop before it
                t = routes[rng.below(len(routes))]['tour']
                k = rng.below(len(t) - 1)
                locs = [t[k + 1]['loc'], t[k]['loc']] + [t[k + 1]['loc']] * (nsub - 2)
                perms = [list(range(nsub)), [1, 0] + list(range(2, nsub))]
                if nsub == 3 and rng.chance(1, 2):
                    perms.insert(1, [0, 2, 1])
            else:
                locs = [rng.below(n) for _ in range(nsub)]
                allp = [list(x) for x in itertools.permutations(range(nsub))]
                rng.shuffle(allp)
                perms = allp[:rng.range(2, min(3, len(allp)))]
            jobs.append({'id': 90 + q, 'multi': [sub(i, locs[i]) for i in range(nsub)], 'perms': perms})
        else:
            # single candidates away from the depot and from every stop when possible (an insertion next to a stop at the same place is free)
            used = set([0] + [a['loc'] for r in routes for a in r['tour']])
            away = [l for l in range(n) if l not in used and all(w['dist'][l * n + u] > 0 for u in used)]
            jobs.append({'id': 90 + q, 'places': [{'loc': rng.choice(away) if away and rng.chance(4, 5) else rng.below(n), 'svc': 0, 'tws': [[0, 'inf']]}],
                         'dem': [0, 0, 1, 0]})
    return dict(base, routes=routes, free=free, jobs=jobs, goal='unassigned+tours+cost', pools=[1, 2, 3, 5, 8, 16], reps=2, multi_grid=True)


def generate(rng, tier, n):
    cases = []
    for k in range(n):
        if k % 6 == 1 and k % 19 not in (7, 3, 12):
            cases.append(gen_multi_grid(rng.fork('multi-grid-%d' % k)))
            continue
        if k % 19 == 7:
            cases.append(gen_layouts_case(rng))
            continue
        if k % 19 == 3:
            cases.append(gen_choose_case(rng))
            continue
        if k % 19 == 12:
            cases.append(gen_decompose_case(rng))
            continue
        w = K.gen_world(rng, metric=rng.chance(1, 2))
        base = {x: w[x] for x in ('n', 'dur', 'dist')}
        routes = []
        jid = 1
        # one case in three has 4-7 (short) tours: more tours than threads in the small pools, and not a multiple of the pool size
        many = rng.chance(1, 3)
        for r in range(rng.range(4, 7) if many else rng.range(1, 3)):
            v = K.gen_world(rng)['veh']
            v['start'] = 0
            if v['end'] is not None:
                v['end'] = rng.below(w['n'])
            ww = dict(base, veh=v)
            tour = K.gen_tour(rng, ww, maxlen=2 if many else 4)
            for a in tour:
                a['job'] = jid
                jid += 1
            if tour:
                routes.append({'veh': v, 'tour': tour})
        free = []
        for r in range(rng.range(0, 2)):
            v = K.gen_world(rng)['veh']
            v['start'] = 0
            if v['end'] is not None:
                v['end'] = 0
            free.append(v)
        if not routes and not free:
            free.append(w['veh'])
        jobs = []
        for q in range(rng.range(2, 4)):
            ww = dict(base, veh=(routes[0]['veh'] if routes else free[0]))
            jobs.append(K.gen_single(rng, ww, routes[0]['tour'] if routes else [], jid=90 + q, multi_alt=rng.chance(1, 4)))
        if many and len(routes) >= 3 and rng.chance(1, 2):
            # only the LAST tour of the list can take the candidates (big static deliveries, one big vehicle): a reduction that loses
            # the tail of the tour list returns a failure or a worse insertion
            for j in jobs:
                j['dem'] = [0, 0, rng.range(21, 30), 0]
            routes[-1]['veh'] = dict(routes[-1]['veh'], cap=80)
            free = []
        if rng.chance(1, 9):
            # nothing can be inserted (every candidate is heavier than every vehicle): the reduction only sees failures,
            # which exercises the bookkeeping of the failure that is kept
            for j in jobs:
                j['dem'] = [0, 0, rng.range(200, 300), 0]
        c = dict(base, routes=routes, free=free, jobs=jobs, goal='unassigned+tours+cost', pools=[1, 2, 3, 4, 5, 8], reps=3)
        if routes and rng.chance(1, 6):
            # one or two candidates already sit in `unassigned` with a concrete code: the evaluator skips them on unmodified tours
            c['unassigned_codes'] = [[q, rng.choice([1, 2, 7])] for q in range(len(jobs)) if rng.chance(1, 2)][:2]
        if rng.chance(1, 2):
            # all cost rates scaled by 2^-30 (exact in f64; the harness scales reported costs back): near-equal float costs, so a
            # comparison that tolerates small differences stops being a total order and the reduction becomes split-dependent
            c['cost_shift'] = 30
            for r in routes:
                r['veh'] = dict(r['veh'], cost_shift=30)
            c['free'] = [dict(v, cost_shift=30) for v in free]
        cases.append(c)
    return cases


def g_opt(v):
    return 'None' if v is None else '(Some %s)' % zlist(v)


def is_layouts(c):
    return c.get('op') == 'layouts'


def layouts_oracle(c, impl):
    """every job exactly once (in one tour or unassigned), nothing foreign, no tour above its vehicle's capacity"""
    v = []
    ids = ['j%d' % j['id'] for j in c['jobs']]
    caps = {'v%d' % k: x['cap'] for k, x in enumerate(c['vehicles'])}
    for r in impl['layouts']:
        lay = 'default' if r['layout'] is None else '%dx%d' % tuple(r['layout'])
        if 'error' in r:
            v.append({'class': 'solver-error-under-layout', 'what': 'layout %s: %s' % (lay, r['error'])})
            continue
        seen = [j for t in r['routes'] for j in t['jobs']] + list(r['unassigned'])
        lost = [j for j in ids if j not in seen]
        dup = sorted(set(j for j in seen if seen.count(j) > 1))
        foreign = [j for j in seen if j not in ids]
        if lost:
            v.append({'class': 'job-lost-under-layout', 'what': 'layout %s: %d of %d jobs are neither served nor unassigned: %s' % (lay, len(lost), len(ids), lost[:6])})
        if dup or foreign:
            v.append({'class': 'job-duplicated-under-layout', 'what': 'layout %s: duplicated %s foreign %s' % (lay, dup[:6], foreign[:6])})
        used = [t['vehicle'] for t in r['routes']]
        if len(set(used)) != len(used):
            v.append({'class': 'vehicle-twice-under-layout', 'what': 'layout %s: a vehicle drives two tours: %s' % (lay, used)})
        for t in r['routes']:
            if len(t['jobs']) > caps.get(t['vehicle'], 0):
                v.append({'class': 'capacity-under-layout', 'what': 'layout %s: %s serves %d unit jobs with capacity %s' % (lay, t['vehicle'], len(t['jobs']), caps.get(t['vehicle']))})
    return v


def jnum(s):
    """'j90' -> 90"""
    return int(str(s)[1:])


def g_fail(f):
    code, stopped, job = f
    return '(mkFail %s %s %s)' % (z(code), 'true' if stopped else 'false', 'None' if job is None else '(Some %s)' % z(jnum(job) if isinstance(job, str) else job))


def g_cell(i, k):
    """one (route, job) pair of the grid as a Gallina cell; a success carries its row-major position as payload"""
    if i['kind'] == 'skip':
        return 'CSkip'
    if i['kind'] == 'viol':
        return '(CRouteViol %s %s)' % (z(i['fail'][0]), z(jnum(i['fail'][2])))
    full = '(RSuccess (%s, %s))' % (zlist(i['full']), z(k)) if i['full'] is not None else '(RFailure %s)' % g_fail(i['fail'])
    return '(v_table %s %s)' % (zlist(i['rc']), full)


def g_res(r):
    if 'cost' in r and r['cost'] is not None:
        return '(RSuccess (%s, 0))' % zlist(r['cost'])
    return '(RFailure %s)' % g_fail(r['fail'])


def model_term(c, impl):
    if is_layouts(c) or c.get('op') == 'decompose':
        return None            # whole-solver / whole-operator runs: the property predicate is evaluated on the returned solutions only
    if c.get('op') == 'choose':
        return '[%s]' % '; '.join('run_choose %s %s' % (g_res(l), g_res(r)) for l, r in c['pairs'])
    if 'panic' in impl:
        return '(run_c15 [], run_grid [], [], [])'
    items = ['(mk_item %s %s)' % (g_opt(i['full']), zlist(i['rc'])) for i in impl['items']]
    nj = impl['n_jobs']
    rows = []
    for r in range(impl['n_routes']):
        rows.append('[%s]' % '; '.join(g_cell(impl['items'][r * nj + q], r * nj + q) for q in range(nj)))
    probes, multis = [], []
    for k, i in enumerate(impl['items']):
        pr = i.get('probe')
        if pr is not None:
            probes.append('v_out (eval_step vsucc (list Z) fst vlt (RSuccess (%s, -1)) %s)' % (zlist(pr['alt']), g_cell(i, k)))
        if i.get('perm_res'):
            ps = '[%s]' % '; '.join('PSucc (%s, %s)' % (zlist(x['cost']), z(n)) if x['cost'] is not None
                                    else 'PFail %s %s' % (z(x['fail'][0]), 'true' if x['fail'][1] else 'false') for n, x in enumerate(i['perm_res']))
            multis.append('[%s]' % '; '.join(['run_multi %s None' % ps] + (['run_multi %s (Some %s)' % (ps, zlist(pr['alt']))] if pr is not None else [])))
    return '(run_c15 [%s], run_grid [%s], [%s], [%s])' % ('; '.join(items), '; '.join(rows), '; '.join(probes), '; '.join(multis))


def m_opt(v):
    if v == 'None':
        return None
    return list(v[1])


def vkey(v):
    """lexicographic key with zero padding"""
    return tuple(v) + (0,) * (8 - len(v))


def same_cost(a, b):
    """cost vectors are compared after zero padding (InsertionCost's own equality); None = failure"""
    if a is None or b is None:
        return a is None and b is None
    return vkey(a) == vkey(b)


def has_neg(impl):
    return any(i['full'] is not None and vkey(i['full']) < vkey(i['rc']) for i in impl['items'])


def skip_best_expected(c, impl, pick_route, pick_job):
    """cost the first insertion of RecreateWithSkipBest(2,2) must have according to the model: None = no statement"""
    if impl.get('skip_best') in (None, {}) or has_neg(impl):
        return None                      # with a negative estimate the collected entries depend on the (shuffled) order
    if impl['n_jobs'] == 1 or impl['n_routes'] == 0:
        return ('min',)
    pick = pick_job if impl['n_jobs'] > impl['n_solution_routes'] else pick_route
    cost = m_opt(pick[0][0]) if pick else None
    # a picked failure inserts nothing at the first step (the observer would see a later step): no statement
    return ('cost', cost) if cost is not None else None


def observed_first(c, impl):
    f = impl['skip_best']['first']
    if f is None:
        return None
    r = impl['route_ids'].index(f['vehicle'])
    q = [cid(j) for j in c['jobs']].index(f['job'])
    return impl['items'][r * impl['n_jobs'] + q]['full']


def compare(c, impl, model):
    if 'panic' in impl:
        return 'implementation panicked: %s' % impl['panic']
    if c.get('op') == 'choose':
        for k, (m, got) in enumerate(zip(model, impl['chosen'])):
            if not same_cost(m_opt(m[0]), got['cost']):
                return 'choose_best_result on pair %d %s: impl %s model %s' % (k, c['pairs'][k], got, m)
        return None
    seq, splits, grid, probes, multis = model
    probes, multis = list(probes), list(multis)
    for k, i in enumerate(impl['items']):
        pr = i.get('probe')
        if pr is not None:
            m = probes.pop(0)
            if not same_cost(m_opt(m[0]), pr['cost']):
                return 'pair %d evaluated with best_known_cost %s (its own cost %s): impl %s model %s' % (k, pr['alt'], i['full'], pr['cost'], m_opt(m[0]))
        if i.get('perm_res'):
            m = list(multis.pop(0))
            if not same_cost(m_opt(m[0][0]), i['full']):
                return 'pair %d, eval_multi over the permutation results %s: impl %s model (Model/MultiPerm.v) %s' % (k, [x['cost'] for x in i['perm_res']], i['full'], m_opt(m[0][0]))
            if pr is not None and not vkey(pr['alt']) < vkey(i['rc']):
                want = m_opt(m[1][0])
                want = pr['alt'] if want is None else want
                if not same_cost(want, pr['cost']):
                    return 'pair %d, eval_multi with best_known_cost %s over the permutation results %s: impl %s model %s' % (
                        k, pr['alt'], [x['cost'] for x in i['perm_res']], pr['cost'], want)
    if m_opt(seq) != impl['seq']:
        return 'sequential fold: impl %s model %s' % (impl['seq'], m_opt(seq))
    ms = [m_opt(s) for s in splits]
    if ms != impl['splits']:
        return 'two-chunk splits: impl %s model %s' % (impl['splits'], ms)
    # second model (Reduce2.run_grid); nested pairs print flattened: (spec_cost, spec_fail, nested, trees, rest)
    spec, _spec_fail, nested, trees, rest = grid
    red_route, _rr_fail, red_job, vecs, picks = rest
    fulls = [i['full'] for i in impl['items'] if i['full'] is not None]
    best = min(fulls, key=vkey) if fulls else None
    if not same_cost(m_opt(spec), best):
        return 'grid specification (reduction of the individually evaluated pairs): model %s, minimum of the pairs %s' % (m_opt(spec), best)
    if not same_cost(m_opt(nested[0]), impl['seq']):
        return 'nested double loop: impl %s model %s' % (impl['seq'], m_opt(nested[0]))
    names = ['one leaf', 'leaves of 1 (left)', 'leaves of 1 (right)', 'leaves of 2 (left)', 'leaves of 3 (right)', 'one leaf per route']
    for nm, m, got in zip(names, trees, impl['trees']):
        if not same_cost(m_opt(m[0]), got['cost']):
            return 'evaluate_all schedule "%s": impl %s model %s' % (nm, got['cost'], m_opt(m[0]))
    for run in impl['collected']:
        for nm, mv, gv in (('per route', vecs[0], run['by_route']), ('per job', vecs[1], run['by_job'])):
            if len(mv) != len(gv) or any(not same_cost(m_opt(a[0]), b['cost']) for a, b in zip(mv, gv)):
                return 'evaluate_and_collect_all (%s, %d threads): impl %s model %s' % (nm, run['threads'], [b['cost'] for b in gv], [m_opt(a[0]) for a in mv])
        if not same_cost(m_opt(red_route), run['red_route']['cost']) or not same_cost(m_opt(red_job[0]), run['red_job']['cost']):
            return 'reduced evaluate_and_collect_all (%d threads): impl %s / %s model %s / %s' % (
                run['threads'], run['red_route']['cost'], run['red_job']['cost'], m_opt(red_route), m_opt(red_job[0]))
    exp = skip_best_expected(c, impl, picks[0], picks[1])
    if exp is not None:
        got = observed_first(c, impl)
        want = best if exp[0] == 'min' else exp[1]
        if not same_cost(got, want):
            return 'RecreateWithSkipBest(2,2), first insertion %s: cost %s, model (entry 2 of the sorted collected vector) %s' % (
                impl['skip_best']['first'], got, want)
    return None


def choose_oracle(c, impl):
    """the property on choose_best_result itself: a success beats a failure, of two successes the cost is the smaller one"""
    v = []
    for (l, r), got in zip(c['pairs'], impl['chosen']):
        costs = [x['cost'] for x in (l, r) if 'cost' in x]
        if costs and got['cost'] is None:
            v.append({'class': 'choose-failure-over-success', 'what': 'choose_best_result(%s, %s) returned a failure' % (l, r)})
        elif costs and vkey(got['cost']) != vkey(min(costs, key=vkey)):
            v.append({'class': 'choose-not-minimal', 'what': 'choose_best_result(%s, %s) returned cost %s' % (l, r, got['cost'])})
        elif not costs and got['cost'] is not None:
            v.append({'class': 'choose-success-from-failures', 'what': 'choose_best_result(%s, %s) returned a success' % (l, r)})
    return v[:3]


def decompose_oracle(c, impl):
    """identity inner search: the decomposed-and-merged solution holds every tour of the input exactly once, every job once"""
    v = []
    for r in impl['decomposed']:
        lay = 'default' if r['layout'] is None else '%dx%d' % tuple(r['layout'])
        before = sorted((t['vehicle'], tuple(t['jobs'])) for t in r['before']['routes'])
        after = sorted((t['vehicle'], tuple(t['jobs'])) for t in r['after']['routes'])
        lost = [t for t in before if t not in after]
        used = [t[0] for t in after]
        if len(set(used)) != len(used):
            v.append({'class': 'tour-duplicated-by-decomposition', 'what': 'layout %s: vehicles %s' % (lay, used)})
        elif lost:
            v.append({'class': 'tour-lost-by-decomposition', 'what': 'layout %s: %d of %d tours missing after decompose+merge: %s' % (lay, len(lost), len(before), lost[:4])})
        elif before != after:
            v.append({'class': 'tour-changed-by-decomposition', 'what': 'layout %s: before %s after %s' % (lay, before, after)})
        ja = sorted([j for t in r['after']['routes'] for j in t['jobs']] + list(r['after']['unassigned']))
        jb = sorted([j for t in r['before']['routes'] for j in t['jobs']] + list(r['before']['unassigned']))
        if ja != jb and not lost:
            v.append({'class': 'job-accounting-changed-by-decomposition', 'what': 'layout %s: jobs before %s after %s' % (lay, jb, ja)})
    return v


def oracle(c, impl):
    if 'panic' in impl:
        zero = any(l is not None and l[0] == 0 for l in c.get('layouts', []))
        return [{'class': 'solver-panic-with-zero-thread-pools' if zero else 'panic', 'what': impl['panic']}]
    if is_layouts(c):
        return layouts_oracle(c, impl)
    if c.get('op') == 'choose':
        return choose_oracle(c, impl)
    if c.get('op') == 'decompose':
        return decompose_oracle(c, impl)
    fulls =[i['full'] for i in impl['items'] if i['full'] is not None]
    best = min(fulls, key=vkey) if fulls else None
    neg = any(i['full'] is not None and vkey(i['full']) < vkey(i['rc']) for i in impl['items'])
    v = []
    def bad(x):
        return (x is None) != (best is None) or (x is not None and vkey(x) != vkey(best))
    suffix = '-with-negative-activity-estimate' if neg else ''
    if bad(impl['seq']):
        v.append({'class': 'sequential-not-minimal' + suffix, 'what': 'sequential scan cost %s, minimal cost %s' % (impl['seq'], best)})
    if any(bad(s) for s in impl['splits']):
        v.append({'class': 'split-dependent' + suffix, 'what': 'two-chunk reductions give %s, minimal cost %s' % (impl['splits'], best)})
    pb = [p for p in impl['par'] if bad(p['cost'])]
    if pb:
        v.append({'class': 'parallel-not-minimal' + suffix, 'what': 'evaluate_all with %s threads gave %s, minimal cost %s' % (pb[0]['threads'], pb[0]['cost'], best)})
    tb = [k for k, t in enumerate(impl.get('trees', [])) if bad(t['cost'])]
    if tb and not any(x['class'].startswith('split-dependent') or x['class'].startswith('sequential-not-minimal') for x in v):
        v.append({'class': 'split-dependent' + suffix, 'what': 'schedule %d of the real step/reducer gives %s, minimal cost %s' % (tb[0], impl['trees'][tb[0]]['cost'], best)})
    hid = [(k, i) for k, i in enumerate(impl['items']) if i.get('probe') is not None and not vkey(i['probe']['alt']) < vkey(i['rc'])
           and (i['probe']['cost'] is None or vkey(i['probe']['cost']) != vkey(i['full']))]
    if hid:
        # a fold step whose accumulator holds a success strictly worse than the pair's own insertion (and not below the route-level
        # estimate) must return the pair's insertion: this is what every fold chunk does after its first success
        k, i = hid[0]
        v.append({'class': 'best-known-cost-hides-cheaper-insertion' + suffix,
                  'what': 'pair %d (job %s) costs %s on its own; evaluated after an accumulated insertion of cost %s the step returns %s' % (
                      k, cid(c['jobs'][k % impl['n_jobs']]), i['full'], i['probe']['alt'], i['probe']['cost'])})
    for run in impl.get('collected', []):
        cb = [nm for nm in ('red_route', 'red_job') if bad(run[nm]['cost'])]
        if cb and not any(x['class'].startswith('sequential-not-minimal') for x in v):
            # every collected entry is a sequential fold over one row / one column of the grid
            v.append({'class': 'sequential-not-minimal' + suffix,
                      'what': 'minimum of the collected vector (%s, %d threads) is %s, minimal cost %s' % (cb[0], run['threads'], run[cb[0]]['cost'], best)})
            break
    if impl.get('skip_best') is not None and not neg and impl['n_jobs'] >= 2 and impl['n_routes'] >= 1:
        # independent of the model: the first insertion of RecreateWithSkipBest(2,2) is the SECOND cheapest of the per-job
        # (more candidates than tours) or per-tour minima
        nj, nr = impl['n_jobs'], impl['n_routes']
        cell = lambda r, q: impl['items'][r * nj + q]['full']
        if nj > impl['n_solution_routes']:
            groups = [[cell(r, q) for r in range(nr)] for q in range(nj)]
        else:
            groups = [[cell(r, q) for q in range(nj)] for r in range(nr)]
        mins = sorted((min((x for x in g if x is not None), key=vkey) for g in groups if any(x is not None for x in g)), key=vkey)
        idx = min(2, len(groups)) - 1
        want = mins[idx] if idx < len(mins) else None
        got = observed_first(c, impl)
        # entry 2 is a failure (fewer than two groups with a success): nothing is inserted at the first step, no statement
        if want is not None and (got is None or vkey(got) != vkey(want)):
            v.append({'class': 'skip-best-pick-not-second-best', 'what': 'first insertion %s has cost %s, second best of the collected minima is %s (minima %s)' % (
                impl['skip_best']['first'], got, want, mins)})
    return v


def kept_failure_py(impl):
    """the failure Model/Reduce2.v :: kept_failure predicts: the last one with a concrete code in row-major order"""
    kept = [-1, False, None]
    for i in impl['items']:
        f = i['fail']
        if f is not None and f[0] != -1:
            kept = f
    return kept


def nontrivial_key(c, impl):
    if 'panic' in impl:
        return None
    if c.get('op') == 'choose':
        return ('choose', str(c['pairs']))
    if c.get('op') == 'decompose':
        return ('decompose', str(c['tours']), str(c['layouts'])) if len(c['tours']) >= 4 else None
    if is_layouts(c):
        many = any('routes' in r and len(r['routes']) >= 4 for r in impl['layouts'])
        return ('layouts', str(c['jobs']), str(c['layouts'])) if many else None
    fulls = set(tuple(i['full']) for i in impl['items'] if i['full'] is not None)
    return (str(c['routes']), str(c['jobs'])) if len(fulls) >= 2 else None


def classify(c, impl):
    if c.get('op') == 'choose':
        labs = ['op=choose']
        if 'panic' not in impl:
            for (l, r), got in zip(c['pairs'], impl['chosen']):
                kind = ('S' if 'cost' in l else 'F') + ('S' if 'cost' in r else 'F')
                labs.append('pair=' + kind)
                if kind == 'SS' and vkey(l['cost']) == vkey(r['cost']):
                    labs.append('tie_keeps=%s' % ('left' if got['side'] == 'j1' else 'right'))
                if kind == 'FF':
                    labs.append('failure_kept=%s' % ('right' if got['fail'] == [r['fail'][0], r['fail'][1], None if r['fail'][2] is None else 'j%d' % r['fail'][2]] else 'left'))
        return sorted(set(labs))
    if c.get('op') == 'decompose':
        labs = ['op=decompose', 'tours=%d' % len(c['tours']), 'unassigned=%d' % len(c['unassigned'])]
        for l in c['layouts']:
            labs.append('layout=' + ('default' if l is None else '%dx%d' % tuple(l)))
        return labs
    if is_layouts(c):
        labs = ['op=layouts']
        if 'panic' not in impl:
            for r in impl['layouts']:
                lay = 'default' if r['layout'] is None else '%dx%d' % tuple(r['layout'])
                labs.append('layout=' + lay)
                if 'routes' in r:
                    labs.append('solved_tours=%s' % ('>=4' if len(r['routes']) >= 4 else '<4'))
        return labs
    labs = ['routes=%d' % len(c['routes']), 'free=%d' % len(c['free']), 'jobs=%d' % len(c['jobs'])]
    if 'panic' not in impl:
        labs.append('items=%d' % len(impl['items']))
        labs.append('successes=%d' % sum(1 for i in impl['items'] if i['full'] is not None))
        labs.append('negative_estimate=%s' % any(i['full'] is not None and vkey(i['full']) < vkey(i['rc']) for i in impl['items']))
        for kd in sorted(set(i['kind'] for i in impl['items'])):
            labs.append('pair_kind=' + kd)
        if any('multi' in j for j in c['jobs']):
            nj = impl['n_jobs']
            labs.append('multi_jobs=%d' % sum(1 for j in c['jobs'] if 'multi' in j))
            for q, j in enumerate(c['jobs']):
                if 'multi' in j:
                    labs.append('multi_position=%s' % ('first' if q == 0 else 'last' if q == nj - 1 else 'middle'))
                    labs.append('multi_permutations=%d' % len(j.get('perms') or [0]))
            fulls = [i['full'] for i in impl['items'] if i['full'] is not None]
            best = min(fulls, key=vkey) if fulls else None
            for k, i in enumerate(impl['items']):
                pr = [x['cost'] for x in i.get('perm_res', [])]
                if pr and i['full'] is not None and pr[0] is not None:
                    nonfirst = vkey(pr[0]) != vkey(i['full'])
                    labs.append('multi_best_permutation=%s' % ('non-first' if nonfirst else 'first'))
                    if nonfirst and vkey(i['full']) == vkey(best) and sum(1 for f in fulls if vkey(f) == vkey(best)) == 1:
                        labs.append('multi_non_first_permutation_is_unique_minimum_at_column=%s' % ('0' if k % nj == 0 else '>0'))
        labs.append('collect_branch=%s' % ('per_job' if impl['n_jobs'] > impl['n_solution_routes'] else 'per_route'))
        if impl.get('skip_best') is not None:
            labs.append('skip_best_first_insertion=%s' % ('none' if impl['skip_best']['first'] is None else 'observed'))
        if impl['items'] and all(i['full'] is None for i in impl['items']):
            # observation (not part of the property): the failure the real evaluate_all keeps vs. the model's kept_failure
            want = kept_failure_py(impl)
            same = all(p['fail'] == want for p in impl['par']) and all(t['fail'] == want for t in impl['trees'])
            labs.append('all_fail_kept_failure_%s' % ('as_modelled' if same else 'DIFFERS_from_model'))
    return labs


MANIFEST_TEXT = ('Machine-checked proof (Coq, 49 theorems): (1) for every strict weak order on costs and every reduction tree over contiguous chunks '
                 "(everything rayon's fold/reduce can produce) the modelled fold step (eval_job_insertion_in_route with its skip, route-violation, "
                 'prune-by-route-cost and best_known_cost exits) and reducer (choose_best_result as written, with its failure bookkeeping) over the row-major '
                 'cartesian product of routes and jobs return EXACTLY the left-to-right reduction of the individually evaluated pairs whenever route-level '
                 'estimates are lower bounds of full costs: a minimal-cost success over all pairs = the nested sequential double loop; a failure iff no pair '
                 'succeeds, and then a determined failure; both branches of evaluate_and_collect_all reduce to the same cost and their collected vector (hence '
                 "RecreateWithSkipBest's pick) does not depend on the chunking; choose_best_result is associative, has make_failure as right unit, is commutative "
                 'up to cost. (2) The lower-bound hypothesis is proved for the concrete evaluator model (Model/Core.v, distance objective, non-negative matrix with '
                 'triangle inequality), including that the scan started from best_known_cost behaves as the abstract step assumes; the complementary witness '
                 '(non-metric matrix, -80 vs -98) is finding C15-F1. (3) Pool layout: results of search_many are op(solution i) for every pool count >= 0 and '
                 'without pools; the decomposition groups partition the route indices for all proximity lists and group sizes, and refine+merge returns every '
                 'route once. The model is tied to /repo on every run: real step, reducer and evaluate_all under pools of 1,2,3,4,5,8 threads, under all two-chunk splits and six further '
                 'explicit schedules, pair kinds and failure fields, the collected vectors of both branches, the first insertion of RecreateWithSkipBest, '
                 'choose_best_result on generated pairs, and the real DecomposeSearch under pool layouts. (4) best_known_cost only prunes: for every pair that is ok the scan '
                 'started from any accumulated cost returns the pair\'s own result or a failure that cannot hide the minimum; the outer fold of eval_multi over the allowed '
                 'permutations (MultiContext::promote as written; Model/MultiPerm.v) has this property for every list of permutation results without a stopped failure; grids with '
                 'Multi candidates of 2-3 allowed permutations (pools of 1,2,3,5,8,16 threads), a best-known-cost probe per pair and the per-permutation results are compared on every run.')
MANIFEST_NOTE = ('Trusted: Coq kernel+vm_compute; harness; rayon contract (contiguous ordered chunks, order-preserving collect, install returns the value). Not '
                 'exhibited by the model: real thread interleavings, memory visibility, thread-local RNG (only sampled). evaluate_and_collect_all is pub(crate): '
                 'its two branches are compared through a harness twin and the real one only through RecreateWithSkipBest with at most one free vehicle. The '
                 'concrete lower-bound theorem covers single jobs and the single-layer distance objective; for the cost objective the hypothesis is false in '
                 'general (finding C15-F1). RegretInsertionEvaluator\'s use of the collected vector is not modelled. The clause "full solver runs remain valid '
                 'under every parallelism configuration" is exercised by the end-to-end oracle of C01 under several Parallelism layouts (small problems, full '
                 'validity checker in Coq) and by the layouts / decompose streams of this check (many-tour problems, job accounting and capacity only); '
                 'Parallelism::new(0, _) made every solver run panic (remainder by zero): finding C15-F2 of this check, repaired in /repo by b5c201c; the model '
                 'follows the repaired code (C15_zero_pools_run_inline; C15_zero_pools_panics_prefix_refuted for the old function), layouts 0x1 / 0x4 are generated '
                 'on every run and corpus/C15/zero_pools.json is the regression case.')
MANIFEST_TECHNIQUE = 'Coq proof over all reduction trees, grids and pool counts + vm_compute differential correspondence + multi-pool / multi-layout sampling'
