"""C15 — parallel evaluation results do not depend on how work is split."""
from coqterm import z, zlist, lst, nat
from props import corelib as K

ID = 'C15'
HARNESS = 'c15'
COQ_IMPORTS = 'From VRP Require Import Base.Tac Model.CostOrder Model.Reduce.'
MODEL_TARGETS = ['theories/Model/Reduce.vo']
MODEL_NEEDS_IMPL = True
SHARD = 60
SIZES = {'quick': 150, 'thorough': 2500, 'search': 800}
RULE = ('cases: 1-3 existing routes (tours of 0-4 activities) plus 0-2 free vehicles with individual costs/capacities, 2-4 candidate '
        'single jobs, metric and non-metric matrices, waiting-heavy tours; goal [unassigned, tours, cost]. For each case the real '
        'evaluate_all runs in rayon pools of 1,2,3,5,8 threads (3 repetitions each), the sequential fold and all two-chunk splits are '
        'computed with the real step/reducer, and every item is evaluated alone. non-trivial = distinct cases with >= 2 successful items '
        'of different cost.')
TRUSTED = ["rayon's fold/reduce only produces reductions over contiguous chunks in order (its documented contract); real thread interleavings are sampled, not enumerated"]
ASSUMPTIONS = ['costs compared as integer vectors (integer data)']


def generate(rng, tier, n):
    cases = []
    for k in range(n):
        w = K.gen_world(rng, metric=rng.chance(1, 2))
        base = {x: w[x] for x in ('n', 'dur', 'dist')}
        routes = []
        jid = 1
        for r in range(rng.range(1, 3)):
            v = K.gen_world(rng)['veh']
            v['start'] = 0
            if v['end'] is not None:
                v['end'] = rng.below(w['n'])
            ww = dict(base, veh=v)
            tour = K.gen_tour(rng, ww, maxlen=4)
            for a in tour:
                a['job'] = jid
                jid += 1
            if tour:
                routes.append({'veh': v, 'tour': tour})
        free = []
        for r in range(rng.range(0, 2)):
            v = K.gen_world(rng)['veh']
            v['start'] = 0
            if v['end'] is not None:
                v['end'] = 0
            free.append(v)
        if not routes and not free:
            free.append(w['veh'])
        jobs = []
        for q in range(rng.range(2, 4)):
            ww = dict(base, veh=(routes[0]['veh'] if routes else free[0]))
            jobs.append(K.gen_single(rng, ww, routes[0]['tour'] if routes else [], jid=90 + q, multi_alt=rng.chance(1, 4)))
        c = dict(base, routes=routes, free=free, jobs=jobs, goal='unassigned+tours+cost', pools=[1, 2, 3, 5, 8], reps=3)
        if rng.chance(1, 2):
            # all cost rates scaled by 2^-30 (exact in f64; the harness scales reported costs back): near-equal float costs, so a
            # comparison that tolerates small differences stops being a total order and the reduction becomes split-dependent
            c['cost_shift'] = 30
            for r in routes:
                r['veh'] = dict(r['veh'], cost_shift=30)
            c['free'] = [dict(v, cost_shift=30) for v in free]
        cases.append(c)
    return cases


def g_opt(v):
    return 'None' if v is None else '(Some %s)' % zlist(v)


def model_term(c, impl):
    if 'panic' in impl:
        return 'run_c15 []'
    items = ['(mk_item %s %s)' % (g_opt(i['full']), zlist(i['rc'])) for i in impl['items']]
    return 'run_c15 [%s]' % '; '.join(items)


def m_opt(v):
    if v == 'None':
        return None
    return list(v[1])


def vkey(v):
    """lexicographic key with zero padding"""
    return tuple(v) + (0,) * (8 - len(v))


def compare(c, impl, model):
    if 'panic' in impl:
        return 'implementation panicked: %s' % impl['panic']
    seq, splits = model
    if m_opt(seq) != impl['seq']:
        return 'sequential fold: impl %s model %s' % (impl['seq'], m_opt(seq))
    ms = [m_opt(s) for s in splits]
    if ms != impl['splits']:
        return 'two-chunk splits: impl %s model %s' % (impl['splits'], ms)
    return None


def oracle(c, impl):
    if 'panic' in impl:
        return [{'class': 'panic', 'what': impl['panic']}]
    fulls = [i['full'] for i in impl['items'] if i['full'] is not None]
    best = min(fulls, key=vkey) if fulls else None
    neg = any(i['full'] is not None and vkey(i['full']) < vkey(i['rc']) for i in impl['items'])
    v = []
    def bad(x):
        return (x is None) != (best is None) or (x is not None and vkey(x) != vkey(best))
    suffix = '-with-negative-activity-estimate' if neg else ''
    if bad(impl['seq']):
        v.append({'class': 'sequential-not-minimal' + suffix, 'what': 'sequential scan cost %s, minimal cost %s' % (impl['seq'], best)})
    if any(bad(s) for s in impl['splits']):
        v.append({'class': 'split-dependent' + suffix, 'what': 'two-chunk reductions give %s, minimal cost %s' % (impl['splits'], best)})
    pb = [p for p in impl['par'] if bad(p['cost'])]
    if pb:
        v.append({'class': 'parallel-not-minimal' + suffix, 'what': 'evaluate_all with %s threads gave %s, minimal cost %s' % (pb[0]['threads'], pb[0]['cost'], best)})
    return v


def nontrivial_key(c, impl):
    if 'panic' in impl:
        return None
    fulls = set(tuple(i['full']) for i in impl['items'] if i['full'] is not None)
    return (str(c['routes']), str(c['jobs'])) if len(fulls) >= 2 else None


def classify(c, impl):
    labs = ['routes=%d' % len(c['routes']), 'free=%d' % len(c['free']), 'jobs=%d' % len(c['jobs'])]
    if 'panic' not in impl:
        labs.append('items=%d' % len(impl['items']))
        labs.append('successes=%d' % sum(1 for i in impl['items'] if i['full'] is not None))
        labs.append('negative_estimate=%s' % any(i['full'] is not None and vkey(i['full']) < vkey(i['rc']) for i in impl['items']))
    return labs


MANIFEST_TEXT = ('Machine-checked proof (Coq): for every strict weak order on costs and every reduction tree over contiguous chunks (everything '
                 "rayon's fold/reduce can produce) the modelled fold step (eval_job_insertion_in_route with its prune-by-route-cost shortcut) and "
                 'reducer (choose_best_result) return a minimal-cost result whenever route-level estimates are lower bounds of full costs; hence all '
                 'schedules agree with the sequential scan. The model is tied to /repo on every run: the real step and reducer are folded sequentially '
                 'and over every two-chunk split and must agree with the model item by item; the real evaluate_all runs in rayon pools of 1,2,3,5,8 '
                 'threads and its cost must equal the minimum over the individually evaluated items.')
MANIFEST_NOTE = ('Trusted: Coq kernel+vm_compute; harness; rayon contract (contiguous ordered chunks). Not exhibited by the model: real thread '
                 'interleavings, memory visibility, thread-local RNG (only sampled). The clause "full solver runs remain valid under every parallelism '
                 'configuration" is exercised by the end-to-end oracle of C01 under several Parallelism layouts.')
MANIFEST_TECHNIQUE = 'Coq proof over all reduction trees + vm_compute differential correspondence + multi-pool sampling'
