"""C15 — parallel evaluation results do not depend on how work is split."""
from coqterm import z, zlist, lst, nat
from props import corelib as K

ID = 'C15'
HARNESS = 'c15'
COQ_IMPORTS = 'From VRP Require Import Base.Tac Model.CostOrder Model.Reduce.'
MODEL_TARGETS = ['theories/Model/Reduce.vo']
MODEL_NEEDS_IMPL = True
SHARD = 60
SIZES = {'quick': 150, 'thorough': 2500, 'search': 800}
RULE = ('cases: 1-3 existing routes (tours of 0-4 activities; one case in three: 4-7 short tours) plus 0-2 free vehicles with individual costs/capacities, 2-4 candidate '
        'single jobs, metric and non-metric matrices, waiting-heavy tours; goal [unassigned, tours, cost]. For each case the real '
        'evaluate_all runs in rayon pools of 1,2,3,4,5,8 threads (3 repetitions each), the sequential fold and all two-chunk splits are '
        'computed with the real step/reducer, and every item is evaluated alone. non-trivial = distinct cases with >= 2 successful items '
        'of different cost. Every 19th case is a whole Solver run (op layouts): 12-20 unit-demand jobs, vehicles of capacity 2-3 (so the '
        'solution has 4+ tours and the decomposition search forms several groups of tours), 60-200 generations, solved under 3-4 of the layouts '
        '1x1, 1x4, 2x1, 2x2, 3x2, 4x1, 8x1, default; on every returned solution: each job exactly once (served or unassigned), nothing '
        'foreign, no vehicle twice, no tour above capacity.')
TRUSTED = ["rayon's fold/reduce only produces reductions over contiguous chunks in order (its documented contract); real thread interleavings are sampled, not enumerated"]
ASSUMPTIONS = ['costs compared as integer vectors (integer data)']


LAYOUTS = [[1, 1], [1, 4], [2, 1], [2, 2], [3, 2], [4, 1], [8, 1], None]


def gen_layouts_case(rng):
    """whole solver runs under explicit pool layouts: many small tours (unit demand, capacity 2-3), so that the search operators
    which split a solution into groups of tours (decomposition) have several groups, more than there are pools"""
    w = K.gen_world(rng, nmax=8, metric=True)
    njobs = rng.range(12, 20)
    jobs = [{'id': 100 + i, 'places': [{'loc': rng.range(1, w['n'] - 1), 'svc': rng.choice([0, 2]), 'tws': [[0, 'inf']]}], 'dem': [0, 0, 1, 0]}
            for i in range(njobs)]
    vehicles = []
    total = 0
    while total < njobs + 2:
        cap = rng.range(2, 3)
        total += cap
        vehicles.append({'start': 0, 'end': 0, 'shift_start': 0, 'shift_end': 'inf', 'cap': cap,
                         'costs': [rng.range(0, 20), 1, rng.range(0, 2), 0, 0]})
    layouts = [LAYOUTS[i] for i in sorted(set([0, 2] + [rng.below(len(LAYOUTS)) for _ in range(2)]))]
    return {'op': 'layouts', 'n': w['n'], 'dur': w['dur'], 'dist': w['dist'], 'vehicles': vehicles, 'jobs': jobs,
            'layouts': layouts, 'generations': rng.choice([60, 120, 200])}


def generate(rng, tier, n):
    cases = []
    for k in range(n):
        if k % 19 == 7:
            cases.append(gen_layouts_case(rng))
            continue
        w = K.gen_world(rng, metric=rng.chance(1, 2))
        base = {x: w[x] for x in ('n', 'dur', 'dist')}
        routes = []
        jid = 1
        # one case in three has 4-7 (short) tours: more tours than threads in the small pools, and not a multiple of the pool size
        many = rng.chance(1, 3)
        for r in range(rng.range(4, 7) if many else rng.range(1, 3)):
            v = K.gen_world(rng)['veh']
            v['start'] = 0
            if v['end'] is not None:
                v['end'] = rng.below(w['n'])
            ww = dict(base, veh=v)
            tour = K.gen_tour(rng, ww, maxlen=2 if many else 4)
            for a in tour:
                a['job'] = jid
                jid += 1
            if tour:
                routes.append({'veh': v, 'tour': tour})
        free = []
        for r in range(rng.range(0, 2)):
            v = K.gen_world(rng)['veh']
            v['start'] = 0
            if v['end'] is not None:
                v['end'] = 0
            free.append(v)
        if not routes and not free:
            free.append(w['veh'])
        jobs = []
        for q in range(rng.range(2, 4)):
            ww = dict(base, veh=(routes[0]['veh'] if routes else free[0]))
            jobs.append(K.gen_single(rng, ww, routes[0]['tour'] if routes else [], jid=90 + q, multi_alt=rng.chance(1, 4)))
        if many and len(routes) >= 3 and rng.chance(1, 2):
            # only the LAST tour of the list can take the candidates (big static deliveries, one big vehicle): a reduction that loses
            # the tail of the tour list returns a failure or a worse insertion
            for j in jobs:
                j['dem'] = [0, 0, rng.range(21, 30), 0]
            routes[-1]['veh'] = dict(routes[-1]['veh'], cap=80)
            free = []
        c = dict(base, routes=routes, free=free, jobs=jobs, goal='unassigned+tours+cost', pools=[1, 2, 3, 4, 5, 8], reps=3)
        if rng.chance(1, 2):
            # all cost rates scaled by 2^-30 (exact in f64; the harness scales reported costs back): near-equal float costs, so a
            # comparison that tolerates small differences stops being a total order and the reduction becomes split-dependent
            c['cost_shift'] = 30
            for r in routes:
                r['veh'] = dict(r['veh'], cost_shift=30)
            c['free'] = [dict(v, cost_shift=30) for v in free]
        cases.append(c)
    return cases


def g_opt(v):
    return 'None' if v is None else '(Some %s)' % zlist(v)


def is_layouts(c):
    return c.get('op') == 'layouts'


def layouts_oracle(c, impl):
    """every job exactly once (in one tour or unassigned), nothing foreign, no tour above its vehicle's capacity"""
    v = []
    ids = ['j%d' % j['id'] for j in c['jobs']]
    caps = {'v%d' % k: x['cap'] for k, x in enumerate(c['vehicles'])}
    for r in impl['layouts']:
        lay = 'default' if r['layout'] is None else '%dx%d' % tuple(r['layout'])
        if 'error' in r:
            v.append({'class': 'solver-error-under-layout', 'what': 'layout %s: %s' % (lay, r['error'])})
            continue
        seen = [j for t in r['routes'] for j in t['jobs']] + list(r['unassigned'])
        lost = [j for j in ids if j not in seen]
        dup = sorted(set(j for j in seen if seen.count(j) > 1))
        foreign = [j for j in seen if j not in ids]
        if lost:
            v.append({'class': 'job-lost-under-layout', 'what': 'layout %s: %d of %d jobs are neither served nor unassigned: %s' % (lay, len(lost), len(ids), lost[:6])})
        if dup or foreign:
            v.append({'class': 'job-duplicated-under-layout', 'what': 'layout %s: duplicated %s foreign %s' % (lay, dup[:6], foreign[:6])})
        used = [t['vehicle'] for t in r['routes']]
        if len(set(used)) != len(used):
            v.append({'class': 'vehicle-twice-under-layout', 'what': 'layout %s: a vehicle drives two tours: %s' % (lay, used)})
        for t in r['routes']:
            if len(t['jobs']) > caps.get(t['vehicle'], 0):
                v.append({'class': 'capacity-under-layout', 'what': 'layout %s: %s serves %d unit jobs with capacity %s' % (lay, t['vehicle'], len(t['jobs']), caps.get(t['vehicle']))})
    return v


def model_term(c, impl):
    if is_layouts(c):
        return None            # whole-solver runs: the property predicate is evaluated on the returned solutions only
    if 'panic' in impl:
        return 'run_c15 []'
    items = ['(mk_item %s %s)' % (g_opt(i['full']), zlist(i['rc'])) for i in impl['items']]
    return 'run_c15 [%s]' % '; '.join(items)


def m_opt(v):
    if v == 'None':
        return None
    return list(v[1])


def vkey(v):
    """lexicographic key with zero padding"""
    return tuple(v) + (0,) * (8 - len(v))


def compare(c, impl, model):
    if 'panic' in impl:
        return 'implementation panicked: %s' % impl['panic']
    seq, splits = model
    if m_opt(seq) != impl['seq']:
        return 'sequential fold: impl %s model %s' % (impl['seq'], m_opt(seq))
    ms = [m_opt(s) for s in splits]
    if ms != impl['splits']:
        return 'two-chunk splits: impl %s model %s' % (impl['splits'], ms)
    return None


def oracle(c, impl):
    if 'panic' in impl:
        return [{'class': 'panic', 'what': impl['panic']}]
    if is_layouts(c):
        return layouts_oracle(c, impl)
    fulls =[i['full'] for i in impl['items'] if i['full'] is not None]
    best = min(fulls, key=vkey) if fulls else None
    neg = any(i['full'] is not None and vkey(i['full']) < vkey(i['rc']) for i in impl['items'])
    v = []
    def bad(x):
        return (x is None) != (best is None) or (x is not None and vkey(x) != vkey(best))
    suffix = '-with-negative-activity-estimate' if neg else ''
    if bad(impl['seq']):
        v.append({'class': 'sequential-not-minimal' + suffix, 'what': 'sequential scan cost %s, minimal cost %s' % (impl['seq'], best)})
    if any(bad(s) for s in impl['splits']):
        v.append({'class': 'split-dependent' + suffix, 'what': 'two-chunk reductions give %s, minimal cost %s' % (impl['splits'], best)})
    pb = [p for p in impl['par'] if bad(p['cost'])]
    if pb:
        v.append({'class': 'parallel-not-minimal' + suffix, 'what': 'evaluate_all with %s threads gave %s, minimal cost %s' % (pb[0]['threads'], pb[0]['cost'], best)})
    return v


def nontrivial_key(c, impl):
    if 'panic' in impl:
        return None
    if is_layouts(c):
        many = any('routes' in r and len(r['routes']) >= 4 for r in impl['layouts'])
        return ('layouts', str(c['jobs']), str(c['layouts'])) if many else None
    fulls = set(tuple(i['full']) for i in impl['items'] if i['full'] is not None)
    return (str(c['routes']), str(c['jobs'])) if len(fulls) >= 2 else None


def classify(c, impl):
    if is_layouts(c):
        labs = ['op=layouts']
        if 'panic' not in impl:
            for r in impl['layouts']:
                lay = 'default' if r['layout'] is None else '%dx%d' % tuple(r['layout'])
                labs.append('layout=' + lay)
                if 'routes' in r:
                    labs.append('solved_tours=%s' % ('>=4' if len(r['routes']) >= 4 else '<4'))
        return labs
    labs = ['routes=%d' % len(c['routes']), 'free=%d' % len(c['free']), 'jobs=%d' % len(c['jobs'])]
    if 'panic' not in impl:
        labs.append('items=%d' % len(impl['items']))
        labs.append('successes=%d' % sum(1 for i in impl['items'] if i['full'] is not None))
        labs.append('negative_estimate=%s' % any(i['full'] is not None and vkey(i['full']) < vkey(i['rc']) for i in impl['items']))
    return labs


MANIFEST_TEXT = ('Machine-checked proof (Coq): for every strict weak order on costs and every reduction tree over contiguous chunks (everything '
                 "rayon's fold/reduce can produce) the modelled fold step (eval_job_insertion_in_route with its prune-by-route-cost shortcut) and "
                 'reducer (choose_best_result) return a minimal-cost result whenever route-level estimates are lower bounds of full costs; hence all '
                 'schedules agree with the sequential scan. The model is tied to /repo on every run: the real step and reducer are folded sequentially '
                 'and over every two-chunk split and must agree with the model item by item; the real evaluate_all runs in rayon pools of 1,2,3,5,8 '
                 'threads and its cost must equal the minimum over the individually evaluated items.')
MANIFEST_NOTE = ('Trusted: Coq kernel+vm_compute; harness; rayon contract (contiguous ordered chunks). Not exhibited by the model: real thread '
                 'interleavings, memory visibility, thread-local RNG (only sampled). The clause "full solver runs remain valid under every parallelism '
                 'configuration" is exercised by the end-to-end oracle of C01 under several Parallelism layouts (small problems, full validity '
                 'checker in Coq) and by the layouts stream of this check (many-tour problems, job accounting and capacity only).')
MANIFEST_TECHNIQUE = 'Coq proof over all reduction trees + vm_compute differential correspondence + multi-pool sampling'
