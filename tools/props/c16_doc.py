"""C16, sub-stream `c16_doc`: from pragmatic DOCUMENTS to routing answers (Model/RoutingDoc.v), registered by
`SUBSTREAMS = ['c16_doc']` in tools/props/c16.py; theorems `C16_doc_*`, `C16_binary_search_*`, `C16_*approx*` in Properties/C16.v.

generate : op `doc` — whole problem documents read through the public pragmatic reader with supplied matrices
           ((problem, matrices).read_pragmatic(): validation E15xx -> read_fleet -> create_transport_costs) or without
           (map_to_problem_with_approx): named / positional / time-dependent matrices, shuffled, with `errorCodes`, vehicle
           scales, the custom location, queries `problem.transport.{duration,distance}(route of the vehicle, from, to,
           TravelTime::{Departure,Arrival}(t))`; a malformed stream with one inconsistency each (validation rules, naming,
           lengths, error-code shapes, timestamps); coordinate documents whose RAW haversine distances are recovered through
           the public API (profile speeds 2^-e) so that the integer post-processing is compared bit-exactly.
           op `bs` — slice::binary_search on strictly increasing u64 lists against the modelled loop.
model    : RoutingDoc.run_doc (vm_compute) on the very document; for coordinate documents `doc_with_approx hav` with hav the table
           of the recovered raw distances.
compare  : validation codes (exact list), the E0002 message kind, provider kind, size(), Profile{index, scale} of every vehicle,
           coord index of every location, every answer exactly (panic included).  Sets with equal truncated stamps inside a
           profile, and accepted MALFORMED time-dependent documents (matrices regrouped by the positional fall-back: gaps no
           longer b * 2^a, f64 interpolation inexact): acceptance, size and profiles only.  Approximated cells whose exact quotient d/speed lies within 2^-27 of a half-integer are not
           compared (the model divides exactly, f64 rounds the quotient first).
oracle   : the property statement re-implemented with Fractions, independent of the model: consistency of the document spelled
           out (doc_consistency) <-> accepted; answers = the entry of the matrix NAMED like the vehicle's profile (or at its
           position), durations * the vehicle's scale; flagged entries negative; time-dependent clauses; approximation symmetric,
           zero diagonal, times = round(fl(d / speed of the vehicle's profile)), distances = round(d) on the raw distances.
"""
import math
from fractions import Fraction as F
from coqterm import zlist, z, nat
from props import c16
from props.c16 import distinct_values, matrix_values, iso, gap, SCALES, val, rout, fq, spec_answer

ID = 'C16'
HARNESS = 'c16_doc'
COQ_IMPORTS = 'From VRP Require Import Base.Tac Model.Routing Model.RoutingDoc.\nFrom Coq Require Import QArith.\nClose Scope Q_scope.\nOpen Scope Z_scope.'
MODEL_TARGETS = ['theories/Model/RoutingDoc.vo']
MODEL_NEEDS_IMPL = True
SIZES = {'quick': 700, 'thorough': 9000, 'search': 3000}
RULE = ('cases: documents with 1-3 index locations (jobs in permuted order, vehicles starting anywhere, optionally the custom '
        'location), 1-3 fleet profiles, matrices named / positional / time-dependent (2-4 stamps per profile) in shuffled '
        'order with asymmetric all-distinct entries and errorCodes (also inside time-dependent sets), 1-4 vehicles with '
        'dyadic scales, queries with both TravelTime variants at / before / after / strictly between stamps (dyadic '
        'fractions), outside the matrix and at the custom index; malformed documents with exactly one inconsistency '
        '(duplicate / empty / unknown profile, index gap, size mismatch, mixed location kinds, mixed or unknown matrix '
        'names, timestamps without names, too few / extra matrices, single / mixed timestamps, errorCodes shorter / longer '
        '(zero or positive surplus, up to the next square) , travelTimes longer / shorter); coordinate documents (1-4 '
        'coordinates on a 1/1024 degree grid, repeated coordinates, 1-3 profiles with speeds, scales, custom location) read '
        'without matrices; strictly increasing u64 lists of length 1-9 with 5-10 probes for the binary search. '
        'non-trivial = accepted document with >= 2 locations or matrices and an off-diagonal query, a rejected malformed '
        'document, an approximated document with >= 2 coordinates, a search list with >= 2 elements.')
TRUSTED = ['c16_doc: the raw haversine distances are recovered from the public create_approx_matrices with speeds 2^-e '
           '(travel time = round(d * 2^e), exact once d * 2^e >= 2^53); f64 division d / speed is replayed with Python floats',
           'c16_doc: documents are rendered so that no rule outside validation/routing.rs fires (one delivery per job, one '
           'shift per vehicle)']

ERR_TEXT = dict(c16.ERRS)
ERR_TEXT[106] = 'not enough error codes specified'
ERR_TEXT[107] = 'error codes, travel times and distances must have the same length'


# ------------------------------------------------------------------------------------------------ generators
def ref(i):
    return ['ref', i]


def gen_locations(rng, n, custom):
    jobs = [ref(i) for i in range(n)]
    for _ in range(rng.below(2)):
        jobs.append(ref(rng.below(n)))
    jobs = rng.shuffle(jobs)
    if custom:
        jobs.insert(rng.below(len(jobs) + 1), ['custom'])
    return jobs


def gen_doc(rng, mode):
    """mode: 'named' | 'positional' | 'timed'"""
    n = rng.range(1, 3)
    k = rng.range(1, 3)
    names = distinct_values(rng, k, 0, 9)
    timed = mode == 'timed'
    positional = mode == 'positional'
    per = [rng.range(2, 4) if timed else 1 for _ in range(k)]
    mv = matrix_values(rng, n, sum(per))
    mats, c = [], 0
    stamps_of = {}
    for pi, name in enumerate(names):
        t = rng.range(0, 5000)
        stamps, gaps = [], []
        for j in range(per[pi]):
            stamps.append(t)
            a, b = gap(rng)
            gaps.append((a, b))
            t += (2 ** a) * b
        stamps_of[name] = (stamps, gaps)
        for j in range(per[pi]):
            du, di = mv[c]
            c += 1
            err = None
            if rng.chance(2, 5):
                err = [rng.choice([0, 0, 0, 1, 3, -1]) for _ in range(n * n)]
            mats.append({'profile': None if positional else name, 'ts': stamps[j] if timed else None,
                         'tss': iso(stamps[j]) if timed else None, 'times': du, 'dists': di, 'err': err})
    if not positional:
        mats = rng.shuffle(mats)
    custom = rng.chance(1, 6)
    vehicles = []
    for _ in range(rng.range(1, 4)):
        s = rng.choice(SCALES + [(0, 0), (0, 0)])
        vehicles.append([rng.choice(names), s[0], s[1], ref(rng.below(n))])
    for name in names:
        if not any(v[0] == name for v in vehicles):
            vehicles.append([name, 0, 0, ref(rng.below(n))])
    qs = []
    for _ in range(rng.range(5, 11)):
        vi = rng.below(len(vehicles))
        fr, to = rng.below(n), rng.below(n)
        t = F(rng.range(-4, 9000), rng.choice([1, 1, 2, 4]))
        if timed:
            stamps, gaps = stamps_of[vehicles[vi][0]]
            r = rng.below(10)
            if r < 2:
                t = F(rng.choice(stamps))
            elif r == 2:
                t = F(stamps[0]) - F(rng.range(1, 50), rng.choice([1, 2]))
            elif r == 3:
                t = F(stamps[-1]) + F(rng.range(1, 500), rng.choice([1, 2, 4]))
            elif r == 4 and rng.chance(1, 3):
                t = F(rng.choice(stamps)) + F(rng.range(1, 3), 4)            # inside the second of a stamp (finding F2)
            else:
                j = rng.below(len(stamps) - 1)
                a, b = gaps[j]
                cexp = rng.range(0, 2)
                steps = 2 ** (a + cexp)
                if steps > 1:
                    t = F(stamps[j]) + F(rng.range(1, steps - 1) * b, 2 ** cexp)
                else:
                    t = F(stamps[j])
                if t.denominator != 1 and math.floor(t) == stamps[j]:
                    # fractional inside the second of the left stamp (finding F2 region): one whole step of b instead
                    # (ratio 2^-a stays exact in f64), or the stamp itself when the gap is b
                    t = F(stamps[j] + b) if a > 0 else F(stamps[j])
        r = rng.below(14)
        if custom and r < 3:
            if r == 0:
                fr = n * n
            else:
                to = n * n
        elif r == 3:
            to = n + rng.below(2)                      # outside the matrix: panic or the neighbouring row
        qs.append([vi, fr, to, t.numerator, t.denominator, rng.below(2)])
    return {'op': 'doc', 'kind': mode, 'profiles': [[nm, None] for nm in names], 'vehicles': vehicles,
            'jobs': gen_locations(rng, n, custom), 'coords': [], 'mats': mats, 'raw': False, 'qs': qs}


def gen_malformed(rng):
    mode = rng.choice(['named', 'named', 'positional', 'timed'])
    c = gen_doc(rng, mode)
    mats = c['mats']
    names = [p[0] for p in c['profiles']]
    n = len(set(tuple(l) for l in c['jobs'] + [v[3] for v in c['vehicles']] if l[0] == 'ref'))
    timed = mode == 'timed'
    m = mats[rng.below(len(mats))]
    what = rng.below(22)
    if what == 0:
        c['profiles'].append([names[rng.below(len(names))], None])
        tag = 'dup-profile-name'
    elif what == 1:
        c['profiles'] = []
        tag = 'no-profiles'
    elif what == 2:
        c['vehicles'][rng.below(len(c['vehicles']))][0] = 55
        tag = 'unknown-vehicle-profile'
    elif what == 3:
        c['jobs'].append(ref(n + 1))
        tag = 'index-gap'
    elif what == 4:
        big = (n + 1) * (n + 1)
        for x in mats:
            x['times'] = distinct_values(rng, big)
            x['dists'] = distinct_values(rng, big)
            x['err'] = None
        tag = 'matrix-size-mismatch'
    elif what == 5:
        c['coords'] = [[52 * 1024 + 5, 1024, 13 * 1024 + 7, 1024]]
        c['jobs'].append(['coord', 0])
        tag = 'mixed-locations'
    elif what == 6:
        if len(mats) == 1:
            mats.append(dict(m))
        mats[0]['profile'] = None if mats[0]['profile'] is not None else names[0]
        mats[1]['profile'] = names[0] if mats[0]['profile'] is None else None
        tag = 'mixed-profile-names'
    elif what == 7:
        for x in mats:
            x['profile'] = None
        mats[0]['ts'], mats[0]['tss'] = 100, iso(100)
        tag = 'timestamp-without-profile'
    elif what == 8:
        extra = [20 + j for j in range(len(mats) - len(names) + 1)]
        c['profiles'] = c['profiles'] + [[e, None] for e in extra]
        tag = 'fewer-matrices-than-profiles'
    elif what == 9:
        m['err'] = [0] * (len(m['dists']) - rng.range(1, len(m['dists'])))
        tag = 'error-codes-shorter'
    elif what == 10:
        m['err'] = [rng.choice([0, 1]) for _ in m['dists']] + [1] * rng.below(2) + [0] + [1] * rng.below(2)
        tag = 'error-codes-longer-zero-surplus'
    elif what == 11:
        m['err'] = [rng.choice([0, 1]) for _ in m['dists']] + [rng.choice([1, 2]) for _ in range(rng.range(1, 2))]
        tag = 'error-codes-longer-positive-surplus'
    elif what == 12:
        big = (n + 1) * (n + 1)
        targets = mats if rng.chance(2, 3) else [m]
        for x in targets:
            x['err'] = [rng.choice([0, 0, 1]) for _ in x['dists']] + [rng.choice([1, 5]) for _ in range(big - n * n)]
        tag = 'error-codes-longer-to-next-square'
    elif what == 13:
        if m['err'] is None:
            m['err'] = [rng.choice([0, 0, 1]) for _ in m['dists']]
        m['times'] = m['times'] + distinct_values(rng, rng.range(1, 5))
        tag = 'travel-times-longer-with-codes'
    elif what == 14:
        cut = rng.range(1, len(m['times']))
        m['err'] = [0] * (len(m['dists']) - cut) + [rng.choice([1, 1, 0])] * cut
        m['times'] = m['times'][:-cut]
        tag = 'travel-times-shorter-with-codes'
    elif what == 15:
        m['err'] = None
        m['times'] = m['times'][:-1] if rng.chance(1, 2) else m['times'] + [7]
        tag = 'travel-times-length-without-codes'
    elif what in (16, 17):
        if mode == 'positional':
            for x, nm in zip(mats, names):
                x['profile'] = nm
        m['profile'] = 77
        c['mats'] = rng.shuffle(mats)
        tag = 'unknown-matrix-name'
    elif what == 18:
        mats.insert(rng.below(len(mats) + 1), dict(m))
        tag = 'extra-matrix'
    elif what == 19:
        if timed:
            p = mats[0]['profile']
            c['mats'] = [mats[0]] + [x for x in mats if x['profile'] != p]
        else:
            for j, x in enumerate(mats):
                x['profile'] = x['profile'] if x['profile'] is not None else names[j]
                x['ts'], x['tss'] = 10 + 8 * j, iso(10 + 8 * j)
        tag = 'single-timed-matrix'
    elif what == 20:
        if timed:
            m['ts'], m['tss'] = None, None
        else:
            if mode == 'positional':
                for x, nm in zip(mats, names):
                    x['profile'] = nm
            if len(mats) == 1:
                mats.append(dict(m))
            mats[0]['ts'], mats[0]['tss'] = 5, iso(5)
        tag = 'mixed-timestamps'
    else:
        if timed:
            grp = [x for x in mats if x['profile'] == m['profile']]
            grp[1]['ts'], grp[1]['tss'] = grp[0]['ts'], grp[0]['tss']
            tag = 'duplicate-timestamp'
        else:
            mats.append(dict(m, profile=88))
            tag = 'extra-unknown-matrix'
    c['kind'] = 'malformed'
    c['tag'] = tag
    return c


def gen_approx(rng):
    nc = rng.range(1, 4)
    coords = []
    for _ in range(nc):
        lat = F(52 * 1024 + rng.range(0, 2048), 1024)
        lng = F(13 * 1024 + rng.range(0, 2048), 1024)
        coords.append([lat.numerator, lat.denominator, lng.numerator, lng.denominator])
    if nc > 1 and rng.chance(1, 4):
        coords[-1] = list(coords[0])               # the same coordinate under two identifiers
    jobs = [['coord', rng.below(nc)] for _ in range(rng.range(1, 5))]
    custom = rng.chance(1, 5)
    if custom:
        jobs.insert(rng.below(len(jobs) + 1), ['custom'])
    k = rng.range(1, 3)
    names = distinct_values(rng, k, 0, 9)
    profiles = [[nm, rng.choice([None, None, [10, 1], [5, 1], [25, 2], [16, 1], [1, 2], [3, 1], [7, 1]])] for nm in names]
    vehicles = []
    for _ in range(rng.range(1, 3)):
        s = rng.choice(SCALES + [(0, 0), (0, 0)])
        vehicles.append([rng.choice(names), s[0], s[1], ['coord', rng.below(nc)]])
    for name in names:
        if not any(v[0] == name for v in vehicles):
            vehicles.append([name, 0, 0, ['coord', rng.below(nc)]])
    c = {'op': 'doc', 'kind': 'approx', 'profiles': profiles, 'vehicles': vehicles, 'jobs': jobs, 'coords': coords,
         'mats': None, 'raw': True, 'qs': None}
    c['qs'] = approx_points(c)                     # every cell for every vehicle
    return c


def gen_bs(rng):
    ln = rng.range(1, 9)
    x, l = rng.range(0, 5), []
    for _ in range(ln):
        l.append(x)
        x += rng.range(1, 6)
    xs = [rng.choice(l) if rng.chance(1, 2) else rng.range(0, x + 2) for _ in range(rng.range(5, 10))]
    return {'op': 'bs', 'kind': 'bs', 'l': l, 'xs': xs}


def generate(rng, tier, n):
    cases = []
    for _ in range(n):
        r = rng.below(100)
        if r < 22:
            cases.append(gen_doc(rng, 'named'))
        elif r < 30:
            cases.append(gen_doc(rng, 'positional'))
        elif r < 56:
            cases.append(gen_doc(rng, 'timed'))
        elif r < 82:
            cases.append(gen_malformed(rng))
        elif r < 95:
            cases.append(gen_approx(rng))
        else:
            cases.append(gen_bs(rng))
    return cases


# ------------------------------------------------------------------------------------------------ document helpers
def all_locs(c):
    return list(c['jobs']) + [v[3] for v in c['vehicles']]


def coord_key(c, l):
    """identifier of a location as the model sees it: equal coordinates share the identifier of their first occurrence"""
    if l[0] != 'coord':
        return tuple(l)
    cs = c['coords']
    for i, x in enumerate(cs):
        if x == cs[l[1]]:
            return ('coord', i)
    return tuple(l)


def direct_index(c):
    """CoordIndex as specified: coordinates in first-seen order, references at their own index, custom at n*n"""
    idx = {}
    for l in all_locs(c):
        k = coord_key(c, l)
        if k[0] == 'custom' or k in idx:
            continue
        idx[k] = k[1] if k[0] == 'ref' else len(idx)
    return idx


def approx_points(c):
    """queries of a coordinate document: every cell for every vehicle"""
    n = len(direct_index(c))
    return [[vi, i, j, 0, 1, (vi + i + j) % 2] for vi in range(len(c['vehicles'])) for i in range(n) for j in range(n)]


def queries(c):
    return c['qs'] if c['qs'] is not None else approx_points(c)


def raw_table(c, impl):
    """raw[i*n+j] as exact Fractions, or None"""
    if not isinstance(impl, dict) or 'raw' not in impl:
        return None
    return [F(int(v), 2 ** e) for v, e in impl['raw']]


# ------------------------------------------------------------------------------------------------ model terms
def loc_term(c, l):
    k = coord_key(c, l)
    if k[0] == 'ref':
        return '(LRef %s)' % nat(k[1])
    if k[0] == 'coord':
        return '(LCoord %s)' % nat(k[1])
    return 'LCustom'


def lst(items, ty):
    return '[' + '; '.join(items) + ']' if items else '(@nil %s)' % ty


def qterm(f):
    return '(qz %s %s)' % (z(f.numerator), z(f.denominator))


def doc_term(c, mats):
    profs = lst(['(mkDP %s %s)' % (nat(p[0]), 'None' if p[1] is None else '(Some %s)' % qterm(F(p[1][0], p[1][1])))
                 for p in c['profiles']], 'dprofile')
    vehs = lst(['(mkDVz %s %s %s)' % (nat(v[0]), z(v[1]), z(v[2])) for v in c['vehicles']], 'dvehicle')
    locs = lst([loc_term(c, l) for l in all_locs(c)], 'dloc')

    def pm(m):
        return '(mkPM %s %s %s %s %s)' % (
            'None' if m['profile'] is None else '(Some %s)' % nat(m['profile']),
            'None' if m['ts'] is None else '(Some %s)' % z(m['ts']),
            zlist(m['times']), zlist(m['dists']),
            'None' if m['err'] is None else '(Some %s)' % zlist(m['err']))
    return '(mkDoc %s %s %s %s)' % (profs, vehs, locs, lst([pm(m) for m in mats], 'pmatrix'))


def model_term(c, impl):
    if c['op'] == 'bs':
        return 'run_bs %s %s' % (zlist(c['l']), zlist(c['xs']))
    qs = lst(['(%s, %s, %s, %s, %s, %s)' % (nat(q[0]), nat(q[1]), nat(q[2]), z(q[3]), z(q[4]), z(q[5])) for q in queries(c)], 'dquery')
    if c['mats'] is not None:
        return 'run_doc %s %s' % (doc_term(c, c['mats']), qs)
    raw = raw_table(c, impl)
    idx = direct_index(c)
    n = len(idx)
    if raw is None or len(raw) != n * n:
        return None
    nc = len(c['coords'])
    table = []
    for a in range(nc):
        for b in range(nc):
            ka, kb = ('coord', a), ('coord', b)
            table.append(qterm(raw[idx[ka] * n + idx[kb]]) if ka in idx and kb in idx else '0%Q')
    hav = '(fun a b : nat => nth (a * %d + b) %s 0%%Q)' % (nc, lst(table, 'Q'))
    return 'run_doc (doc_with_approx %s %s) %s' % (hav, doc_term(c, []), qs)


# ------------------------------------------------------------------------------------------------ compare
def dup_trunc(c):
    seen = set()
    for m in c['mats'] or []:
        if m['ts'] is None:
            continue
        key = (m['profile'], max(0, m['ts']))
        if key in seen:
            return True
        seen.add(key)
    return False


def near_half(c, impl, q):
    """approximated cell whose exact quotient is too close to a rounding boundary for the exact model"""
    raw = raw_table(c, impl)
    n = len(direct_index(c))
    if raw is None or q[1] >= n or q[2] >= n:
        return False
    d = raw[q[1] * n + q[2]]
    name = c['vehicles'][q[0]][0]
    sp = [p[1] for p in c['profiles'] if p[0] == name]
    s = F(10) if not sp or sp[0] is None else F(sp[0][0], sp[0][1])
    for x in (d, d / s):
        frac = x - math.floor(x)
        if abs(frac - F(1, 2)) < F(1, 2 ** 27):
            return True
    return False


def compare(c, impl, model):
    if 'panic' in impl:
        return 'implementation panicked outside a query: %s' % impl['panic']
    if c['op'] == 'bs':
        for k, (ia, ma) in enumerate(zip(impl['ans'], model)):
            std, contract = (ma[0], ma[1]), ma[2]
            if tuple(ia) != tuple(std):
                return 'probe %s: slice::binary_search %s, modelled loop %s' % (c['xs'][k], ia, std)
            if tuple(std) != tuple(contract):
                return 'probe %s: modelled loop %s, contract model %s' % (c['xs'][k], std, contract)
        return None
    head = model[0] if isinstance(model, tuple) else model
    if head == 'OInvalid':
        exp = ['E%d' % x for x in model[1]]
        if impl['build'] != 'err' or impl['codes'] != exp:
            return 'validation: impl %s %s, model %s' % (impl['build'], impl.get('codes'), exp)
        return None
    if head == 'ORejected':
        code = model[1]
        if impl['build'] != 'err' or impl['codes'] != ['E0002']:
            return 'rejection: impl %s %s, model E0002 kind %s' % (impl['build'], impl.get('codes'), code)
        if ERR_TEXT[code] not in impl['msg']:
            return 'E0002 message: impl %r, model kind %s (%s)' % (impl['msg'], code, ERR_TEXT[code])
        return None
    _, aware, size, vehicles, answers, custom_idx, loc_idx = model
    if impl['build'] != 'ok':
        return 'acceptance: impl rejects with %s, model accepts' % impl.get('msg')
    if impl['size'] != size:
        return 'size: impl %s model %s' % (impl['size'], size)
    if impl['custom_idx'] != custom_idx or impl['loc_idx'] != list(loc_idx):
        return 'coord index: impl %s / %s, model %s / %s' % (impl['loc_idx'], impl['custom_idx'], list(loc_idx), custom_idx)
    for k, (iv, mv) in enumerate(zip(impl['vehicles'], vehicles)):
        if iv[0] != mv[0] or val(iv[1]) != rout(mv[1]):
            return 'vehicle %d profile: impl (%s, %s) model (%s, %s)' % (k, iv[0], val(iv[1]), mv[0], rout(mv[1]))
    if dup_trunc(c):
        return None
    if c.get('kind') == 'malformed' and any(m['ts'] is not None for m in c['mats'] or []):
        # an accepted malformed time-dependent document may regroup matrices (unknown names attached by position, finding F3):
        # the gaps are then no longer b * 2^a and the f64 interpolation is inexact - acceptance, size and profiles only
        return None
    for k, (ia, ma) in enumerate(zip(impl['ans'], answers)):
        q = queries(c)[k]
        if c['mats'] is None and near_half(c, impl, q):
            continue
        got = [val(x) for x in ia]
        exp = [rout(ma[0]), rout(ma[1])]
        if got != exp:
            return 'query %d %s: impl %s model %s' % (k, q, got, exp)
    return None


# ------------------------------------------------------------------------------------------------ oracle
def doc_consistency(c):
    """the consistent document, spelled out; None or the structural reason of the (first) inconsistency"""
    names = [p[0] for p in c['profiles']]
    locs = [coord_key(c, l) for l in all_locs(c)]
    if len(set(names)) != len(names):
        return 'dup-profile-name'
    if not names:
        return 'no-profiles'
    if any(v[0] not in names for v in c['vehicles']):
        return 'unknown-vehicle-profile'
    kinds = set(l[0] for l in locs) - {'custom'}
    if len(kinds) > 1:
        return 'mixed-locations'
    mats = c['mats']
    if mats is None:
        return 'indices-without-matrix' if 'ref' in kinds else None
    n = len(set(l for l in locs if l[0] != 'custom'))
    n = max(n, 1)
    if any(l[0] == 'ref' and l[1] >= n for l in locs):
        return 'index-gap'
    if not mats:
        return 'no-matrices'
    for m in mats:
        if m['err'] is not None and (len(m['err']) != len(m['dists']) or len(m['times']) != len(m['dists'])):
            return 'error-codes-length-mismatch'
    for m in mats:
        if len(m['times']) != len(m['dists']):
            return 'travel-times-length'
        if len(m['dists']) != n * n:
            return 'matrix-size'
    named = [m['profile'] is not None for m in mats]
    timed = [m['ts'] is not None for m in mats]
    if any(named) and not all(named):
        return 'mixed-profile-names'
    if not any(named):
        if any(timed):
            return 'timestamp-without-profile'
        return None if len(mats) == len(names) else 'positional-count'
    if any(m['profile'] not in names for m in mats):
        return 'unknown-matrix-profile'
    if any(timed) and not all(timed):
        return 'mixed-timestamps'
    counts = dict((nm, sum(1 for m in mats if m['profile'] == nm)) for nm in names)
    if not any(timed):
        return None if all(v == 1 for v in counts.values()) else 'profile-matrix-count'
    if any(v == 0 for v in counts.values()):
        return 'profile-without-matrix'
    return None if all(v >= 2 for v in counts.values()) else 'single-timed-matrix'


def round_haz(x):
    """f64::round on an exact value: half away from zero"""
    return math.floor(x + F(1, 2)) if x >= 0 else -math.floor(-x + F(1, 2))


def haversine(p1, p2):
    """the documented formula (haversine with the WGS-84 radius at the latitude difference), in Python floats; used with a
       relative tolerance only, to tie the raw distances to the coordinates they belong to"""
    (lat1d, lng1d), (lat2d, lng2d) = p1, p2
    rad = lambda x: math.pi * x / 180.
    d_lat, d_lng = rad(lat1d - lat2d), rad(lng1d - lng2d)
    lat1, lat2 = rad(lat1d), rad(lat2d)
    a = math.sin(d_lat / 2.) ** 2 + math.sin(d_lng / 2.) ** 2 * math.cos(lat1) * math.cos(lat2)
    cc = 2. * math.atan2(math.sqrt(a), math.sqrt(1. - a))
    wa, wb = 6378137.0, 6356752.3
    an, bn = wa * wa * math.cos(d_lat), wb * wb * math.sin(d_lat)
    ad, bd = wa * math.cos(d_lat), wb * math.sin(d_lat)
    return math.sqrt((an * an + bn * bn) / (ad * ad + bd * bd)) * cc


def oracle_approx(c, impl, v):
    idx = direct_index(c)
    n = len(idx)
    if impl['size'] != n:
        v.append({'class': 'approx-size', 'what': 'size %s for %d distinct coordinates' % (impl['size'], n)})
        return
    raw = raw_table(c, impl)
    if raw is None or len(raw) != n * n:
        v.append({'class': 'approx-raw-shape', 'what': 'no raw distances'})
        return
    # the raw distance of cell (i, j) is the haversine distance of the i-th and j-th unique coordinate (first-seen order)
    point = {}
    for k, i in idx.items():
        cc = c['coords'][k[1]]
        point[i] = (cc[0] / cc[1], cc[2] / cc[3])
    for i in range(n):
        for j in range(n):
            ref_d = haversine(point[i], point[j])
            if abs(float(raw[i * n + j]) - ref_d) > 1e-9 * ref_d + 1e-6:
                v.append({'class': 'approx-raw-distance-not-haversine',
                          'what': 'cell (%d,%d): raw distance %r, haversine of the two coordinates %r' % (i, j, float(raw[i * n + j]), ref_d)})
    mats = impl['approx']
    if [m['profile'] for m in mats] != ['p%d' % p[0] for p in c['profiles']]:
        v.append({'class': 'approx-matrix-names', 'what': 'matrices %s for profiles %s' % ([m['profile'] for m in mats], c['profiles'])})
        return
    for m, p in zip(mats, c['profiles']):
        times, dists = m['times'], m['dists']
        if len(times) != n * n or len(dists) != n * n or m['ts'] is not None or m['err'] is not None:
            v.append({'class': 'approx-shape', 'what': 'matrix of %s: %d/%d entries for %d locations' % (m['profile'], len(times), len(dists), n)})
            continue
        speed = 10.0 if p[1] is None else p[1][0] / p[1][1]
        for i in range(n):
            if times[i * n + i] != 0 or dists[i * n + i] != 0:
                v.append({'class': 'approx-diagonal', 'what': '%s entry (%d,%d) = %s/%s' % (m['profile'], i, i, times[i * n + i], dists[i * n + i])})
            for j in range(n):
                a, b = i * n + j, j * n + i
                if raw[a] != raw[b]:
                    # since repair d74b2b6 the function is symmetric to the last bit (C16_haversine_structure_symmetric)
                    v.append({'class': 'approx-raw-distance-asymmetric',
                              'what': 'cell (%d,%d): haversine %r one way, %r the other' % (i, j, float(raw[a]), float(raw[b]))})
                if times[a] != times[b] or dists[a] != dists[b]:
                    # former finding F6 (repaired by d74b2b6): the raw distances differ in the last bits only and straddle a
                    # rounding boundary
                    big = max(raw[a], raw[b])
                    ulp = F(2) ** (math.floor(math.log2(big)) - 52) if big > 0 else F(0)
                    last_bit = (abs(raw[a] - raw[b]) <= 4 * ulp and abs(times[a] - times[b]) <= 1 and abs(dists[a] - dists[b]) <= 1)
                    v.append({'class': 'approx-asymmetric-last-bit-at-rounding-boundary' if last_bit else 'approx-asymmetric',
                              'what': '%s (%d,%d): times/distance %s/%s vs %s/%s (raw %r vs %r)'
                                      % (m['profile'], i, j, times[a], dists[a], times[b], dists[b], float(raw[a]), float(raw[b]))})
                if times[a] < 0 or dists[a] < 0:
                    v.append({'class': 'approx-negative', 'what': '%s (%d,%d)' % (m['profile'], i, j)})
                d = float(raw[a])
                if F(d) != raw[a]:
                    v.append({'class': 'approx-raw-not-f64', 'what': 'raw distance %s is not a binary64 value' % raw[a]})
                    continue
                et, ed = round_haz(F(d / speed)), round_haz(raw[a])
                if times[a] != et or dists[a] != ed:
                    v.append({'class': 'approx-post-processing',
                              'what': '%s (%d,%d): d = %r speed %r: times %s (round(d/speed) = %s), distances %s (round(d) = %s)'
                                      % (m['profile'], i, j, d, speed, times[a], et, dists[a], ed)})
    # every vehicle is answered from the matrix of ITS profile, durations * its scale
    for q, a in zip(queries(c), impl['ans']):
        vi, i, j = q[0], q[1], q[2]
        name, sn, sd = c['vehicles'][vi][:3]
        scale = F(sn, sd) if sd else F(1)
        mm = [m for m in mats if m['profile'] == 'p%d' % name]
        if len(mm) != 1 or len(mm[0]['times']) != n * n:
            continue
        got = [val(x) for x in a]
        exp = [F(mm[0]['times'][i * n + j]) * scale, F(mm[0]['dists'][i * n + j])]
        if got != exp:
            v.append({'class': 'approx-provider-entry', 'what': 'vehicle %d cell (%d,%d): provider %s, matrix of its profile %s' % (vi, i, j, got, exp)})


def oracle_doc(c, impl):
    v = []
    why = doc_consistency(c)
    ok = impl['build'] == 'ok'
    if why is not None:
        if ok:
            v.append({'class': 'doc-accepted-' + why,
                      'what': 'inconsistent document (%s%s) accepted by read_pragmatic, size() = %s'
                              % (why, ', ' + c['tag'] if c.get('tag') else '', impl['size'])})
        return v
    if not ok:
        v.append({'class': 'doc-rejected-consistent', 'what': 'consistent document rejected: ' + impl.get('msg', '')})
        return v
    names = [p[0] for p in c['profiles']]
    idx = direct_index(c)
    n = max(len(idx), 1)
    has_custom = any(l[0] == 'custom' for l in all_locs(c))
    # coord index and vehicle profiles
    for l, got in zip(all_locs(c), impl['loc_idx']):
        k = coord_key(c, l)
        exp = n * n if k[0] == 'custom' else idx[k]
        if got != exp:
            v.append({'class': 'doc-coord-index', 'what': 'location %s mapped to %s, expected %s' % (l, got, exp)})
    for k, (veh, got) in enumerate(zip(c['vehicles'], impl['vehicles'])):
        scale = F(veh[1], veh[2]) if veh[2] else F(1)
        if got[0] != names.index(veh[0]) or val(got[1]) != scale:
            v.append({'class': 'doc-vehicle-profile', 'what': 'vehicle %d (%s): Profile(%s, %s), expected (%s, %s)'
                                                              % (k, veh, got[0], val(got[1]), names.index(veh[0]), scale)})
    if c['mats'] is None:
        oracle_approx(c, impl, v)
        return v
    mats = c['mats']
    if impl['size'] != n:
        v.append({'class': 'doc-size', 'what': 'size() = %s for %d locations' % (impl['size'], n)})
    positional = mats[0]['profile'] is None
    dup = dup_trunc(c)
    for q, a in zip(c['qs'], impl['ans']):
        vi, fr, to = q[0], q[1], q[2]
        t = F(q[3], q[4])
        got = [val(x) for x in a]
        if fr >= n or to >= n:
            if has_custom and (fr == n * n or to == n * n) and got != [F(0), F(0)]:
                v.append({'class': 'doc-custom-location', 'what': 'custom location query %s: got %s, expected zeros' % (q, got)})
            continue
        vname, sn, sd = c['vehicles'][vi][:3]
        scale = F(sn, sd) if sd else F(1)
        group = [mats[names.index(vname)]] if positional else [m for m in mats if m['profile'] == vname]
        cell = fr * n + to
        conv = []
        for m in group:
            flag = m['err'] is not None and m['err'][cell] > 0
            conv.append({'ts': None if m['ts'] is None else [m['ts'], 1], 'flag': flag,
                         'du': [F(-1) if (m['err'] is not None and m['err'][i] > 0) else F(x) for i, x in enumerate(m['times'])],
                         'di': [F(-1) if (m['err'] is not None and m['err'][i] > 0) else F(x) for i, x in enumerate(m['dists'])]})
        if 'panic' in got:
            v.append({'class': 'doc-panic-on-supplied-entry', 'what': 'query %s panicked' % q})
            continue
        timed = conv[0]['ts'] is not None
        if not timed:
            if conv[0]['flag'] and not (got[0] < 0 and got[1] < 0) and scale > 0:
                v.append({'class': 'doc-unreachable-not-negative', 'what': 'cell %d flagged unreachable, query %s returns %s' % (cell, q, got)})
            exp = (conv[0]['du'][cell] * scale, conv[0]['di'][cell])
            if got[0] != exp[0]:
                v.append({'class': 'doc-duration', 'what': 'vehicle %s query %s: duration %s, supplied entry * scale = %s' % (c['vehicles'][vi][:3], q, got[0], exp[0])})
            if got[1] != exp[1]:
                v.append({'class': 'doc-distance', 'what': 'vehicle %s query %s: distance %s, supplied entry = %s' % (c['vehicles'][vi][:3], q, got[1], exp[1])})
            continue
        if dup:
            continue
        ms = sorted(conv, key=lambda m: m['ts'][0])
        stamps = [F(m['ts'][0]) for m in ms]
        # a fractional time inside the second of a stamp (recorded finding F2)
        snapped = [m for m in ms if max(0, m['ts'][0]) == max(0, math.floor(t)) and m['du'][cell] * scale == got[0] and m['di'][cell] == got[1]]
        exp = spec_answer(ms, n, scale, fr, to, t)
        if exp is None:
            continue
        dur, dist, lo, hi = exp
        if t.denominator != 1 and snapped and (got[0] != dur or got[1] != dist):
            v.append({'class': 'fractional-time-truncated-to-matrix-second',
                      'what': 'document query %s at t=%s returns the value of the matrix of the same whole second instead of the interpolant %s' % (q, t, dur)})
            continue
        # the entry in force (left matrix strictly between two stamps, the matrix itself at / outside) flagged unreachable:
        # negative duration and distance (true since repair d8f731f of /repo; the class below was finding C16-F5)
        left = None
        for j in range(len(ms) - 1):
            if stamps[j] < t < stamps[j + 1]:
                left = ms[j]
        if left is not None and left['flag'] and scale > 0 and not (got[0] < 0 and got[1] < 0):
            v.append({'class': 'timed-unreachable-left-entry-nonnegative-duration',
                      'what': 'query %s at t=%s: the left matrix flags cell %d unreachable (distance %s) but the duration is %s'
                              % (q, t, cell, got[1], got[0])})
            continue
        if left is None:
            at = [m for m, s in zip(ms, stamps) if s == t] or ([ms[0]] if t < stamps[0] else [ms[-1]])
            if at[0]['flag'] and scale > 0 and not (got[0] < 0 and got[1] < 0):
                v.append({'class': 'doc-unreachable-not-negative', 'what': 'cell %d flagged unreachable at t=%s, query %s returns %s' % (cell, t, q, got)})
        if got[0] != dur:
            kind = 'outside-bracket' if (lo is not None and not (lo <= got[0] <= hi)) else ('not-linear' if lo is not None else 'wrong-matrix')
            v.append({'class': 'doc-timed-duration-' + kind, 'what': 'query %s at t=%s: got %s, expected %s' % (q, t, got[0], dur)})
        if got[1] != dist:
            v.append({'class': 'doc-timed-distance', 'what': 'query %s at t=%s: got %s, expected %s' % (q, t, got[1], dist)})
    return v


def oracle_bs(c, impl):
    v = []
    l = c['l']
    for x, a in zip(c['xs'], impl['ans']):
        kind, k = a
        pos = sum(1 for y in l if y < x)
        exp = [0, l.index(x)] if x in l else [1, pos]
        if [kind, k] != exp:
            v.append({'class': 'bs-contract', 'what': 'binary_search(%s, %s) = %s, expected %s' % (l, x, a, exp)})
    return v


def oracle(c, impl):
    if 'panic' in impl:
        return [{'class': 'panic-' + c['op'] + '-' + str(c.get('tag', c.get('kind'))), 'what': 'panicked outside a query: ' + impl['panic']}]
    vs = oracle_bs(c, impl) if c['op'] == 'bs' else oracle_doc(c, impl)
    out, seen = [], set()
    for x in vs:
        if x['class'] not in seen:
            seen.add(x['class'])
            out.append(x)
    return out


def nontrivial_key(c, impl):
    if 'panic' in impl:
        return None
    if c['op'] == 'bs':
        return ('bs', str(c['l']), str(c['xs'])) if len(c['l']) > 1 else None
    if impl['build'] != 'ok':
        return ('rejected', c.get('tag'), str(c['mats']), str(c['profiles'])) if c.get('tag') else None
    if c['mats'] is None:
        return ('approx', str(c['coords']), str(c['profiles'])) if len(direct_index(c)) > 1 else None
    offdiag = any(q[1] != q[2] for q in c['qs'])
    if (len(c['mats']) >= 2 or len(direct_index(c)) >= 2) and offdiag:
        return ('doc', str(c['mats']), str(c['qs']), str(c['vehicles']))
    return None


def classify(c, impl):
    labs = ['op=' + c['op'], 'kind=' + str(c.get('kind'))]
    if 'tag' in c:
        labs.append('malformed=' + c['tag'])
    if 'panic' in impl:
        return labs + ['harness-panic']
    if c['op'] == 'bs':
        return labs
    labs.append('built=' + impl['build'])
    if impl['build'] != 'ok':
        labs.append('codes=' + '+'.join(impl['codes']))
    else:
        for q, a in zip(queries(c), impl['ans']):
            labs.append('query=' + ('panic' if 'panic' in a else ('arrival' if q[5] else 'departure')))
        if c['mats'] and any(m['err'] is not None for m in c['mats']):
            labs.append('error-codes')
    return labs


_SHRINK_BUDGET = [20]


def shrink_candidates(c):
    if c['op'] != 'doc' or c['qs'] is None or _SHRINK_BUDGET[0] <= 0:
        return
    _SHRINK_BUDGET[0] -= 1
    qs = c['qs']
    for k in range(len(qs)):
        if len(qs) > 1:
            yield dict(c, qs=qs[:k] + qs[k + 1:])
