"""C07 — interrupting the solver at any moment still yields a valid solution (plugin for tools/verif.py).

Built on the shared end-to-end oracle (tools/props/e2e.py, harness binary `solve`, Coq checker Spec/Valid.v valid_b).

cases      : FAULT ENUMERATION.  For every generated small problem x max_generations N the real solver is first run
             uninterrupted with the deterministic layout (parallelism null, one outer thread): that gives the number of quota
             polls K.  Then the solver is re-run for EVERY k in 0..=K+1 with a quota that turns true at its k-th poll and stays
             true (k = K+1 fires after the last poll of the uninterrupted run), and once more without firing.  EVERY run labels
             each quota poll with the code site that made it (insertion loop / Iterative::run / decompose search / swap*).
oracle     : each run returns a document (no error, no panic); the verified checker valid_b (groups A = C02 accounting,
             F = C01 feasibility, R = C03 reproducibility) accepts it - classes that are already recorded findings of C01/C02/C03
             are inherited, not re-reported; nothing is inserted once the quota answered true (insertions <= k - 1, none at k = 0);
             no generation starts once the quota answered true (generations <= Iterative::run polls that answered false);
             generations run <= max_generations (the unchanged code runs N + 1: known finding `generations-exceed-max-by-one`).
compare    : the Coq model Evolution.run_evolve (the SAME evolve function the theorems are about, fed with the poll positions
             of Iterative::run observed in THIS run) predicts: solution / error, generations run (|telemetry.evolution|),
             metrics.generations and the total number of polls (the run ends at the first Iterative::run poll that sees the quota
             or the generation limit); insertions <= polls of the insertion loop that answered false.  (Runs are compared with
             their own poll log because the "deterministic" layout is not perfectly reproducible between runs.)
"""
import hashlib
import json
import os
import subprocess

from props import e2e, c01, c02, c03

ID = 'C07'
HARNESS = 'solve'
COQ_IMPORTS = 'From VRP Require Import Base.Tac Model.Core Spec.Valid Model.Homes Model.Evolution.'
MODEL_TARGETS = ['theories/Spec/Valid.vo', 'theories/Model/Evolution.vo']
MODEL_NEEDS_IMPL = True
SUBSTREAMS = ['c07_loop']          # the loops driven with user-supplied pluggable pieces (tools/props/c07_loop.py)
SHARD = 24
SIZES = {'quick': 24, 'thorough': 80, 'search': 40}          # number of PROBLEMS (each expands to K + 3 runs)
CAP = {'quick': 90, 'thorough': 260}
RULE = ('cases: SIZES[tier] generated pragmatic problems (2-5 jobs in the quick tier, up to 7 in thorough; e2e.gen_checked_problem: '
        'singles and multi jobs, windows, capacity, skills, limits, metric and non-metric matrices) x max_generations 1-3 (thorough: '
        'also 4, 5, 10), in 60% of the problems COMBINED with the other criteria the builder accepts: min-cv "sample" (sizes 1..40, '
        'below / at / above max_generations; thresholds that never fire, fire once the sample is full, 0.05) or "period", max-time '
        '(an hour), target proximity (never / at once); per problem the uninterrupted run gives the poll count K (problems with K above the tier cap are '
        'regenerated) and then k = 0, 1, ..., K, K+1 and "never" are ALL run (exhaustive per problem, see coverage.fault_enumeration). '
        'non-trivial = distinct (problem, k) whose quota fired inside the run (k <= K) and whose document still has a tour.')
TRUSTED = ['the shared end-to-end rendering (tools/props/e2e.py) and harness op "solve"; its CountingQuota (public Quota trait) answers '
           'true from the k-th poll on; poll sites (which polls are Iterative::run\'s / the insertion loop\'s) come from '
           'std::backtrace symbol names of the harness build; insertions are counted by the verification hook in insertions.rs',
           'layout: parallelism = null, one outer rayon thread, repeatable RNG; runs of the same problem are NOT assumed to be '
           'reproducible (each run is compared with the model on its own poll log)',
           'violation classes of groups A / F / R are named by the C02 / C01 / C03 plugins']
ASSUMPTIONS = ['the evaluator only returns jobs taken from `required` (ev_ok); goal.notify_failure consumes an unused registry route '
               'whenever it reports the failure as handled (tour_limits.rs) - both by reading, not proved',
               'a population that received at least one individual ranks one of the individuals it received first (populations are '
               'modelled as "everything ever added")',
               'wall-clock criteria (MaxTime, TimeQuota, CompositeTimeQuota) are oracles; thread interleavings inside a generation '
               'are not modelled; max_generations = 0 (returns the first initial solution since /repo 2c5dd99, "cannot find any '
               'solution" before) is outside the statement ("a positive time/generation limit") and is modelled but not part of the oracle']

_ROOT = os.path.dirname(os.path.dirname(os.path.dirname(os.path.abspath(__file__))))
_BUILD = os.environ.get('VERIF_BUILD', os.path.join(_ROOT, 'build'))
_COV = {'problems': 0, 'planned_pairs': 0, 'groups': {}, 'skipped_over_cap': 0, 'learning_failures': 0, 'inherited': {},
        'rejected_inputs': {}}
_SEEN = {}


# ------------------------------------------------------------------------------------------------ learning run
def _run_solve(cases, tag):
    exe = os.path.join(_BUILD, 'cargo', 'debug', 'solve')
    wd = os.path.join(_BUILD, ID)
    os.makedirs(wd, exist_ok=True)
    cf, of = os.path.join(wd, tag + '.jsonl'), os.path.join(wd, tag + '.impl.jsonl')
    with open(cf, 'w') as fh:
        for c in cases:
            fh.write(json.dumps(c) + '\n')
    if os.path.exists(of):
        os.remove(of)
    subprocess.run([exe, cf, of], stdout=subprocess.DEVNULL, stderr=subprocess.DEVNULL, timeout=1200,
                   env=dict(os.environ, RAYON_NUM_THREADS='4'))
    res = {}
    if os.path.exists(of):
        for line in open(of):
            r = json.loads(line)
            res[r['id']] = {'panic': r['panic']} if 'panic' in r else r['res']
    return res


def input_rejected(impl):
    """the harness could not even build the problem / configuration (reader validation, config builder): the generated INPUT is
    outside the statement ("a valid problem"); not a verdict about the solver (counted in the coverage, reported to the generator)"""
    return isinstance(impl, dict) and 'error' in impl and str(impl['error']).startswith(('read:', 'config:'))


def _doc_hash(s):
    return hashlib.sha256(json.dumps(s, sort_keys=True).encode()).hexdigest()[:16]


def sites_info(sites):
    """poll labels of an uninterrupted run -> (polls before the first Iterative::run poll, polls inside each generation) or None"""
    pos = [i + 1 for i, s in enumerate(sites) if s == 'iterative']
    if not pos or pos[-1] != len(sites):
        return None
    return pos[0] - 1, [pos[i + 1] - pos[i] - 1 for i in range(len(pos) - 1)]


def _cfg(N, k, seed, extras=None):
    cfg = {'max_generations': N, 'parallelism': None, 'quota_after_polls': k, 'seed': seed, 'outer_threads': 1, 'trace': 0,
           'poll_sites': True}
    cfg.update(extras or {})
    return cfg


EXTRA_KEYS = ('max_time', 'min_cv', 'target_proximity')


def gen_extras(rng, N):
    """the other termination criteria EvolutionConfigBuilder accepts, combined with max_generations = N"""
    ex = {}
    if rng.chance(4, 10):
        return ex
    if rng.chance(3, 4):
        if rng.chance(2, 3):
            ex['min_cv'] = ['sample', rng.choice([1, 2, 3, max(1, N), N + 1, N + 2, 2 * N + 3, 12, 40]),
                            rng.choice([-1.0, -1.0, 1e9, 0.05]), rng.choice([True, True, False])]
        else:
            ex['min_cv'] = ['period', rng.choice([3600, 100000]), rng.choice([-1.0, 1e9]), rng.choice([True, False])]
    if rng.chance(1, 3):
        ex['max_time'] = 3600
    if rng.chance(1, 4):
        ex['target_proximity'] = [[0.0, 0.0, 0.0], rng.choice([0.0, 0.0, 1e18])]
    return ex


def extras_of(cfg):
    return {k: cfg[k] for k in EXTRA_KEYS if cfg.get(k) is not None}


def cannot_fire(cfg):
    """the extra criteria of this configuration can never be true: threshold -1 (cv > -1 always), a period of an hour or more,
    max-time of an hour, proximity threshold 0 (distance < 0 never)"""
    cv, tp, mt = cfg.get('min_cv'), cfg.get('target_proximity'), cfg.get('max_time')
    return ((cv is None or cv[2] == -1.0 or (cv[0] == 'period' and cv[1] >= 3600)) and (tp is None or tp[1] == 0.0)
            and (mt is None or mt >= 3600))


def generate(rng, tier, n):
    tier = tier if tier in CAP else 'thorough'
    cap = CAP[tier]
    sizes = [2, 3, 3, 4, 4, 5] if tier == 'quick' else [2, 3, 4, 4, 5, 5, 6, 7]
    gens = [1, 1, 2, 2, 3] if tier == 'quick' else [1, 1, 2, 2, 3, 3, 4, 5, 10]
    out = []
    done = 0
    attempts = 0
    while done < n and attempts < 6 * n + 10:
        batch = []
        for _ in range(min(8, n - done) + 2):
            attempts += 1
            p = e2e.gen_checked_problem(rng, njobs=rng.choice(sizes))
            N, seed = rng.choice(gens), rng.below(1000)
            c = e2e.solve_case(p, _cfg(N, None, seed, gen_extras(rng, N)))
            c['meta'] = p['meta']
            c['id'] = 'L%d' % len(batch)
            batch.append(c)
        learned = _run_solve(batch, 'learn')
        for c in batch:
            if done >= n:
                break
            r = learned.get(c['id'])
            N, seed = c['config']['max_generations'], c['config']['seed']
            extras = extras_of(c['config'])
            if input_rejected(r):
                # the generated problem does not pass the real validation (generator defect, e.g. E1304 with the 'reloads'
                # feature): not a case of this property; take the next problem
                _COV['rejected_inputs'][str(r['error'])[:60]] = _COV['rejected_inputs'].get(str(r['error'])[:60], 0) + 1
                continue
            info = sites_info(r.get('poll_sites') or []) if isinstance(r, dict) and e2e.outcome(r) == 'solution' else None
            group = '%s/N%d/s%d%s' % (hashlib.sha256(json.dumps(c['problem'], sort_keys=True).encode()).hexdigest()[:10], N, seed,
                                      '/' + hashlib.sha256(json.dumps(extras, sort_keys=True).encode()).hexdigest()[:6] if extras else '')
            if info is None:
                # the uninterrupted run itself misbehaves (panic / error / unlabelled polls): hand the single case to the oracle
                _COV['learning_failures'] += 1
                d = {k: v for k, v in c.items() if k != 'id'}
                d['c07'] = {'group': group, 'learning_failed': True}
                out.append(d)
                done += 1
                continue
            K = r['polls']
            if K > cap:
                # too long to enumerate, but the uninterrupted run itself is still judged (generation bound, validity)
                _COV['skipped_over_cap'] += 1
                d = {k: v for k, v in c.items() if k != 'id'}
                d['c07'] = {'group': group, 'over_cap': True}
                out.append(d)
                continue
            learn = {'group': group, 'K': K, 'init_polls': info[0], 'gen_polls': info[1], 'doc': _doc_hash(r['solution'])}
            ks = list(range(0, K + 2)) + [None]
            for k in ks:
                d = e2e.solve_case({'problem': c['problem'], 'matrices': c['matrices']}, _cfg(N, k, seed, extras))
                d['meta'] = c.get('meta')
                d['c07'] = learn
                out.append(d)
            _COV['groups'][group] = {'max_generations': N, 'K': K, 'ks': len(ks), 'extras': extras}
            _COV['planned_pairs'] += len(ks)
            done += 1
    _COV['problems'] += done
    return out


# ------------------------------------------------------------------------------------------------ model
def _sol(impl):
    return impl.get('solution') if e2e.outcome(impl) == 'solution' else None


def _learn(c, impl):
    """(polls before the first Iterative::run poll, polls inside each generation, polls) of THIS run, from its own poll labels"""
    if isinstance(impl, dict) and isinstance(impl.get('poll_sites'), list):
        info = sites_info(impl['poll_sites'])
        if info:
            return info[0], info[1], len(impl['poll_sites'])
    return None


def _before(impl, k, label):
    """number of polls labelled `label` that answered false (1-based index < k; all of them when the quota never fires)"""
    sites = impl.get('poll_sites') or []
    return sum(1 for i, x in enumerate(sites) if x == label and (k is None or i + 1 < k))


def _nat(n):
    return '%d%%nat' % n


def model_term(c, impl):
    s = _sol(impl)
    if s is None or e2e.unsupported(c, s):
        valid = '(@nil violation)'
    else:
        ids = e2e.Ids(c)
        valid = '(valid_b %s %s)' % (e2e.g_problem(c, ids), e2e.g_solution(c, s, ids))
    l = _learn(c, impl)
    if l is None:
        ev = '(9%nat, 0%nat, 0%nat, 0%nat, 0%nat)'
    else:
        k = c['config'].get('quota_after_polls')
        cv = c['config'].get('min_cv')
        ev = '(run_evolve_cfg %s %s %s %s %s [%s] %s)' % (
            _nat(c['config']['max_generations']), 'true' if c['config'].get('max_time') is not None else 'false',
            'None' if cv is None else '(Some (%s, %s))' % ('true' if cv[0] == 'sample' else 'false', _nat(cv[1])),
            'true' if c['config'].get('target_proximity') is not None else 'false',
            _nat(l[0]), '; '.join(_nat(x) for x in l[1]), 'None' if k is None else '(Some %s)' % _nat(k))
    return '(%s, %s)' % (valid, ev)


def compare(c, impl, model):
    if e2e.outcome(impl) == 'panic' or input_rejected(impl):
        return None                                  # the oracle reports a panic; a rejected input is no case of this property
    _, (code, gens, metric, evo, polls) = model
    k = c['config'].get('quota_after_polls')
    if code == 9:
        if isinstance(impl.get('poll_sites'), list):
            return "the last quota poll of the run was not made by Iterative::run (or it made none): %s" % json.dumps(impl['poll_sites'][-6:])
        return None
    out = e2e.outcome(impl)
    if code == 0 and out != 'solution':
        return 'model: a solution is returned; implementation: %s' % json.dumps({x: y for x, y in impl.items() if x != 'poll_sites'})[:300]
    if code == 1 and not (out == 'error' and 'cannot find any solution' in str(impl.get('error'))):
        return 'model: error "cannot find any solution"; implementation: %s' % out
    if code not in (0, 1):
        return 'model evaluation ended with code %d' % code
    if out != 'solution':
        return None
    if not cannot_fire(c['config']):
        # another configured criterion (min-cv, target proximity) may stop the run earlier: the model (in which it never
        # fires) is an upper bound
        if isinstance(impl.get('evolution'), int) and impl['evolution'] > evo:
            return 'generations run: implementation %d, model upper bound %d (k = %s, %s)' % (impl['evolution'], evo, k, json.dumps(extras_of(c['config'])))
        return None
    if impl.get('polls') != polls:
        return ('polls: the model stops at poll %d (the first Iterative::run poll that sees termination or the quota), the '
                'implementation made %s polls (k = %s)' % (polls, impl.get('polls'), k))
    if impl.get('evolution') != evo:
        return 'generations run: model %d, implementation telemetry has %s evolution entries (k = %s)' % (evo, impl.get('evolution'), k)
    if impl.get('generations') != metric:
        return 'metrics.generations: model %d, implementation %s (k = %s)' % (metric, impl.get('generations'), k)
    ins = impl.get('insertions')
    if isinstance(ins, int) and ins > _before(impl, k, 'insertion'):
        return '%d insertions but only %d polls of the insertion loop answered false (k = %s)' % (ins, _before(impl, k, 'insertion'), k)
    return None


# ------------------------------------------------------------------------------------------------ oracle
def _inherited_classes():
    p = os.path.join(_ROOT, 'known_findings.json')
    out = set()
    try:
        for e in json.load(open(p)).get('entries', []):
            if e.get('kind') == 'finding' and e.get('property') in ('C01', 'C02', 'C03'):
                if e.get('class'):
                    out.add(e['class'])
                out.update(e.get('classes') or [])
    except Exception:
        pass
    return out


_INHERITED = _inherited_classes()


def _filter(viols):
    keep = []
    for v in viols:
        if v.get('class') in _INHERITED:
            _COV['inherited'][v['class']] = _COV['inherited'].get(v['class'], 0) + 1
        else:
            keep.append(v)
    return keep


def break_only_tour(s, k):
    """tour #k of the document has no activity besides departure / arrival / (optional) breaks, and at least one break"""
    try:
        kinds = [a.get('type') for st in s['tours'][k]['stops'] for a in st['activities']]
    except Exception:
        return False
    return 'break' in kinds and all(x in ('departure', 'arrival', 'break') for x in kinds)


def account_violations(c, s, items):
    """c02._violations with one more structural class: a tour that serves nothing but an optional break (finding C07-F3, repaired by
    /repo 1ddcae7: a ruin took the last job out of a tour and left its break behind, the job was re-inserted elsewhere,
    OptionalBreakState::remove_invalid_breaks kept a break that stands at the departure location) - also in uninterrupted runs"""
    items = list(items)
    out = c02._violations(c, s, items)
    if len(out) == len(items):
        for t, x in zip(items, out):
            if t[0] == 'ATourEmpty' and x.get('class') == 'empty-tour' and isinstance(t[1], int) and break_only_tour(s, t[1]):
                x['class'] = 'tour-serves-only-an-optional-break'
    return out


def _note_seen(c):
    l = c.get('c07') or {}
    if 'K' in l:
        _SEEN.setdefault(l['group'], set()).add(c['config'].get('quota_after_polls'))


def oracle(c, impl):
    _note_seen(c)
    N = c['config']['max_generations']
    k = c['config'].get('quota_after_polls')
    where = 'max_generations %d%s, quota %s' % (N, ''.join(', %s %s' % (a, json.dumps(b)) for a, b in sorted(extras_of(c['config']).items())),
                                                'never fires' if k is None else 'true from poll %d on' % k)
    if e2e.outcome(impl) == 'panic':
        msg = str((impl or {}).get('panic'))
        return _filter([{'class': e2e.panic_class(c, msg), 'what': 'solving a valid problem panicked (%s): %s' % (where, msg[:300])}])
    if N < 1:
        return []                                    # outside the statement ("a positive generation limit")
    if input_rejected(impl):
        # the reader's validation / the config builder rejected the generated input: outside the statement ("a valid problem")
        _COV['rejected_inputs'][str(impl['error'])[:60]] = _COV['rejected_inputs'].get(str(impl['error'])[:60], 0) + 1
        return []
    if e2e.outcome(impl) == 'error':
        return [{'class': 'interrupted-solve-returns-error', 'what': 'no solution document (%s): %s' % (where, str(impl.get('error'))[:300])}]
    s = impl['solution']
    v = []
    evo = impl.get('evolution')
    if isinstance(evo, int) and evo > N:
        d = evo - N
        v.append({'class': 'generations-exceed-max-by-one' if d == 1 else 'generations-exceed-max-by-%d' % d,
                  'what': '%d generations were run with max_generations = %d (telemetry evolution entries 0..%d; %s)' % (evo, N, evo - 1, where)})
    if k is not None and isinstance(evo, int) and isinstance(impl.get('poll_sites'), list) and evo > _before(impl, k, 'iterative'):
        v.append({'class': 'generation-started-after-quota-reached',
                  'what': '%d generations were run but Iterative::run saw the quota unreached only %d times (quota true from poll %d on)' % (
                      evo, _before(impl, k, 'iterative'), k)})
    ins = impl.get('insertions')
    if k is not None and isinstance(ins, int) and ins > max(0, k - 1):
        v.append({'class': 'insertion-after-quota-reached',
                  'what': '%d insertions were applied although the quota answered true from poll %d on (at most %d polls were false)' % (ins, k, max(0, k - 1))})
    if k == 0:
        tours, un = e2e.doc_summary(s)
        if tours:
            v.append({'class': 'insertion-after-quota-reached', 'what': 'the quota was true at the very first poll but the document has tours %s' % json.dumps(tours)[:200]})
    if e2e.unsupported(c, s):
        v += account_violations(c, s, e2e.py_accounting(c, s))
    return _filter(v)


def oracle_model(c, impl, model):
    s = _sol(impl)
    if s is None or e2e.unsupported(c, s) or c['config']['max_generations'] < 1:
        return []
    viols = model[0]
    v = account_violations(c, s, e2e.coq_viols(viols, 'A'))
    v += c01.oracle_model(c, impl, viols)
    v += c03.oracle_model(c, impl, (viols,))
    for t in e2e.coq_viols(viols, 'P'):
        v.append({'class': 'checker-precondition-' + t[0], 'what': str(t)})
    k = c['config'].get('quota_after_polls')
    for x in v:
        x['what'] = '%s  [max_generations %d, quota_after_polls %s]' % (x['what'], c['config']['max_generations'], k)
    return _filter(v)


def nontrivial_key(c, impl):
    s = _sol(impl)
    l = c.get('c07') or {}
    k = c['config'].get('quota_after_polls')
    if s is None or not s['tours'] or 'K' not in l or k is None or k > l['K']:
        return None
    return (l['group'], k)


def classify(c, impl):
    cfg = c['config']
    k = cfg.get('quota_after_polls')
    l = c.get('c07') or {}
    labs = ['result=' + e2e.outcome(impl), 'max_generations=%d' % cfg['max_generations']]
    cv = cfg.get('min_cv')
    labs.append('min_cv=%s' % ('none' if cv is None else '%s/%s/%s' % (
        cv[0], 'size<=N' if cv[0] == 'sample' and cv[1] <= cfg['max_generations'] else 'size>N' if cv[0] == 'sample' else 'long',
        'never' if cv[2] == -1.0 else 'may-fire')))
    labs.append('max_time=%s' % ('none' if cfg.get('max_time') is None else 'large'))
    tp = cfg.get('target_proximity')
    labs.append('target_proximity=%s' % ('none' if tp is None else 'never' if tp[1] == 0.0 else 'fires'))
    if 'K' in l:
        K, P = l['K'], l['init_polls']
        if k is None:
            labs.append('quota=never')
        elif k == 0:
            labs.append('quota=true-at-first-poll')
        elif k <= P:
            labs.append('quota=fires-inside-initial-construction')
        elif k > K:
            labs.append('quota=after-the-last-poll')
        elif k == K:
            labs.append('quota=fires-at-the-last-poll')
        else:
            pos, g = P + 1, 0
            site = 'at-an-Iterative::run-poll' if k == pos else None
            for gp in l['gen_polls']:
                if site:
                    break
                if k <= pos + gp:
                    site = 'inside-a-generation'
                elif k == pos + gp + 1:
                    site = 'at-an-Iterative::run-poll'
                pos += gp + 1
            labs.append('quota=fires-' + (site or 'inside-a-generation'))
    s = _sol(impl)
    if s is not None:
        tours, un = e2e.doc_summary(s)
        labs.append('tours=%s' % ('0' if not tours else '1' if len(tours) == 1 else '2+'))
        labs.append('unassigned=%s' % ('none' if not un else 'all' if not tours else 'some'))
        labs.append('generations_run=%s' % impl.get('evolution'))
    return labs


def extra_coverage():
    groups = []
    exhaustive = True
    pairs = 0
    for g, info in sorted(_COV['groups'].items()):
        want = set(range(0, info['K'] + 2)) | {None}
        seen = _SEEN.get(g, set())
        ok = want <= seen
        exhaustive = exhaustive and ok
        pairs += len(seen)
        groups.append({'problem': g, 'max_generations': info['max_generations'], 'other_criteria': info.get('extras') or {},
                       'polls_of_uninterrupted_run_K': info['K'],
                       'k_values_run': len(seen), 'every_k_from_0_to_K_plus_1_and_never_was_run': ok})
    ks = [x['polls_of_uninterrupted_run_K'] for x in groups]
    return {'fault_enumeration': {
        'problems': len(groups), 'problem_k_pairs_enumerated': pairs, 'exhaustive_over_k_for_every_problem': exhaustive,
        'K_min': min(ks) if ks else None, 'K_max': max(ks) if ks else None,
        'problems_with_other_termination_criteria_combined': sum(1 for x in groups if x['other_criteria']),
        'problems_not_enumerated_because_K_exceeded_the_tier_cap_(uninterrupted_run_still_judged)': _COV['skipped_over_cap'],
        'uninterrupted_runs_that_failed_to_learn': _COV['learning_failures'],
        'generated_inputs_rejected_by_the_reader_or_config_builder_(not_judged)': _COV['rejected_inputs'],
        'violations_inherited_from_C01_C02_C03_known_findings': _COV['inherited'],
        'per_problem': groups[:200]}}


MANIFEST_TEXT = ('Machine-checked proof (Coq, no axioms) over an executable model of the loops that poll the computation quota and the '
                 'termination criteria (InsertionHeuristic::process, EvolutionSimulator::run initial phase incl. supplied individuals / '
                 'operator order / initial.max_size, Iterative::run as the code has it - termination and quota test, selected(), '
                 'diversify_many / search_many of a hyper-heuristic that is an ORACLE returning any list per generation, also the empty '
                 'one, on_generation in every iteration - Telemetry on_generation / on_result with track_population, MaxGeneration / '
                 'CompositeTermination, Greedy population, Solver::solve, DecomposeSearch inner loop, CompositeTimeQuota): for EVERY quota '
                 'and offspring oracle the insertion loop returns with `required` drained and every job in exactly one home, the evolution '
                 'returns a solution whenever the population it starts from is not empty (else the documented error), no generation '
                 'starts after the quota fired, loop iterations = search_many = add_all = population.on_generation calls = generations '
                 'counted (an empty generation neither stalls the counter nor loses an individual), metrics.generations is the index of '
                 'the last generation, and the generation count is exactly max_generations + 1 when nothing else stops the run (the '
                 'clause "never more than the configured maximum" is refuted: finding C07-F1); "a positive time limit that is hit still '
                 'yields a solution" holds for every clock since the initial phase builds one solution before its stop tests apply '
                 '(finding C07-F2, repaired in /repo 2c5dd99; the pre-repair function is kept in the model under a switch and the old '
                 'behaviour is a refuted-witness theorem). Tied to /repo by (a) exhaustive fault enumeration: for each generated '
                 'problem the real solver is re-run with the quota firing at every poll index 0..K+1, every returned document is checked '
                 'by the verified Coq checker valid_b, and generations / outcome / polls are diffed against the Coq model; (b) sub-stream '
                 'c07_loop: the real EvolutionConfigBuilder / VrpConfigBuilder + Iterative strategy driven with scripted user-supplied '
                 'HyperHeuristic / HeuristicPopulation / Termination / InitialOperator pieces (0, 1, many offspring per generation), the '
                 'complete sequence of calls on them with arguments, iterations, telemetry and result diffed against the same model.')
MANIFEST_NOTE = ('Trusted: Coq kernel + vm_compute; e2e rendering; harness (CountingQuota, backtrace poll labels, deterministic layout, '
                 'scripted pluggable pieces and their event log). Wall-clock criteria and thread interleavings are oracles / not modelled; '
                 'CompositeTimeQuota is modelled by reading (crate-private). Known finding: max_generations = N >= 1 runs N + 1 '
                 'generations (C07-F1). Repaired: max_time with a late start returned "cannot find any solution" (C07-F2, 2c5dd99); a tour '
                 'that served only an optional break (C07-F3, 1ddcae7). Violation classes that are '
                 'recorded findings of C01/C02/C03 are inherited, not re-reported.')
MANIFEST_TECHNIQUE = 'Coq proof over executable loop model + exhaustive quota-fault enumeration on the real solver checked by a verified Coq checker'
