"""C05 sub-stream `c05_feat`: the REMAINING caching features of vrp-core inside the goal - tour limits (limit duration),
recharge (distance counters + recharge intervals), the simple reload feature (reload intervals + per-interval load profile),
tour order (soft: per-solution violation count; hard), the four work balance objectives (per-route value + per-solution
aggregate), fast service (per-route multi-job ranges, read through the objective), tour compactness (per-solution aggregate).
Registered by `SUBSTREAMS` in tools/props/c05.py; same harness binary `ops` (case key `feat` switches "recompute" to: pending
lists kept, empty caches, GoalContext::accept_route_state on every tour, restore); model Model/CacheF.v, theorems in
Properties/C05.v (C05_f_*, C05_handover_fresh_<feature>, C05_insertion_fresh_<feature>, C05_aggregates_*)."""
import math
import re
from coqterm import z, zlist, lst, nat
from props import opslib as O
from props import c05 as P
from props.corelib import tz, tout, INF, g_demand

HARNESS = 'ops'
COQ_IMPORTS = 'From VRP Require Import Base.Tac Model.Core Model.Eval Model.Cache Model.CacheF.'
MODEL_TARGETS = ['theories/Model/CacheF.vo']
MODEL_NEEDS_IMPL = True
SHARD = 6
SIZES = {'quick': 90, 'thorough': 600, 'search': 300}

BALANCE = ['balance_max_load', 'balance_activities', 'balance_distance', 'balance_duration']
RULE = ('cases: problems whose goal holds the caching features the parent stream does not have - tour limits (limit duration), recharge '
        '(stations as conditional marker jobs, per-vehicle distance limit), the simple reload feature (reload markers), tour order '
        '(soft objective or hard constraint), 1-3 of the objectives balance-max-load / -activities / -distance / -duration, fast '
        'service, tour compactness, each listed before or after the cost objective and - as vrp-pragmatic does - before the capacity '
        'feature; + a history of 5-14 real ruin / recreate / local / search operator calls (scripted Random; 1 step in 5 under a '
        'counting quota); every second history observes every single applied insertion (first 40). After every step and every '
        'observed insertion the cached state digest and the schedules of every tour are compared with (1) an independent Python '
        'recomputation from the dumped tour, (2) the Coq recomputation `spec_cache` (run of the handlers\' read functions in '
        'dependency order), and the context rebuilt from the same tours (pending lists kept, empty caches, '
        'GoalContext::accept_route_state, restore) with the Coq run of the handlers in GOAL order on an empty cache; per-solution '
        'aggregates and the objective values tour order / work balance / fast service with the fold over the tours (the '
        'coefficient of variation is the same IEEE computation in Python). For every goal met, Coq evaluates the side conditions '
        'of the theorems (keys_ok, ideal_ok) and the sets of keys / aggregates the theorems declare right (good_route, '
        'good_handover, good_handover_aggs); they have to agree with the structural reading the oracle classes are derived from. '
        'non-trivial = distinct histories with at least one step that changed the tours.')
TRUSTED = ['harness `rebuild_full`: tours + pending lists copied into a new SolutionContext with RouteState::default(), '
           'GoalContext::accept_route_state on every tour, the stale flag set again (so the result does not depend on the number '
           'of rounds accept_solution_state needs), restore()',
           'the hooks RouteState/SolutionState::verif_digest (values are rendered WITHOUT their keys: the comparison is between '
           'multisets of rendered values; an entry that two keys render alike is attributed to a work balance value first) and the '
           'insertion observer (cfg(reinterpretcat_vrp_verif))',
           'the multi-job ranges of the fast-service feature are rendered "opaque": they are read through the objective value',
           'Python `cv_safe` = rosomaxa get_cv_safe (same IEEE-754 operations in the same order) applied to the vector of route '
           'estimates the model predicts',
           'tour compactness: only live vs rebuilt (the job-neighbourhood index is not modelled)']
ASSUMPTIONS = ['integer data, one load dimension, time-independent routing',
               'single-activity view of an insertion in the insertion theorems (a multi job is inserted activity by activity before '
               'accept_insertion runs once; the theorems are stated for an arbitrary change of the tour, so this is not a restriction)',
               'inside InfeasibleSearch the goal is a different one: the objective vector of observed insertions is not read there; '
               'tours serving two compatibility values are compared without the tag, as in the parent stream',
               'an absent group set and an empty group set are the same observable']


# ---------------------------------------------------------------- generation
def gen_case(rng, tier, observe):
    n = rng.range(4, 7)
    dur, dist = O.gen_matrix(rng, n, True)
    variant = rng.choice(['plain', 'plain', 'reload', 'recharge'])
    feats = {'compat': rng.chance(1, 5), 'groups': rng.chance(1, 6), 'order': False, 'order_hard': False, 'limits': rng.chance(1, 3)}
    k = rng.below(5)
    if k == 0:
        feats['order'] = True
    elif k == 1:
        feats['order_hard'] = True
    nveh = rng.range(2, 4)
    vehicles = [O.gen_vehicle(rng, n) for _ in range(nveh)]
    if variant == 'reload':
        for v in vehicles:
            v['cap'] = rng.range(2, 4)
    if feats['limits']:
        for v in vehicles:
            if rng.chance(2, 3):
                v['dur_limit'] = rng.range(60, 260)
            if rng.chance(1, 3):
                v['dist_limit'] = rng.range(80, 300)
    jobs = O.gen_jobs(rng, n, rng.range(5, 11), feats if not feats['order_hard'] else dict(feats, order=True))
    if variant == 'reload':
        for j in jobs:
            if 'multi' not in j and rng.chance(2, 3):
                j['dem'] = [0, 0, rng.range(1, 2), 0]
    objectives = []
    kinds = rng.shuffle(BALANCE + ['fast_service', 'compact'])[:rng.choice([1, 1, 2, 2, 3])]
    for kind in kinds:
        o = {'kind': kind, 'pos': rng.choice(['before_cost', 'after_cost'])}
        if kind == 'compact':
            o['radius'] = rng.range(1, 3)
        objectives.append(o)
    feats['objectives'] = objectives
    c = {'n': n, 'dur': dur, 'dist': dist, 'vehicles': vehicles, 'jobs': jobs, 'features': feats, 'locks': [], 'ignored': [],
         'feat': True, 'stream': 'feat', 'variant': variant}
    if variant == 'reload':
        rel = []
        for v in range(nveh):
            for _ in range(rng.choice([1, 1, 2])):
                rel.append({'id': 100 + len(rel), 'vehicle': v,
                            'places': [{'loc': rng.choice([vehicles[v]['start'], rng.below(n)]), 'svc': rng.choice([0, 0, 2]), 'tws': [[0, 'inf']]}]})
        c['reload'] = {'reloads': rel}
    if variant == 'recharge':
        st = []
        for v in range(nveh):
            if rng.chance(4, 5):
                vehicles[v]['recharge_limit'] = rng.range(40, 140)
            for _ in range(rng.choice([1, 1, 2])):
                st.append({'id': 200 + len(st), 'vehicle': v,
                           'places': [{'loc': rng.below(n), 'svc': rng.choice([0, 3]), 'tws': [[0, 'inf']]}]})
        c['recharge'] = {'stations': st}
    if rng.chance(1, 5):
        free = [j['id'] for j in jobs]
        c['ignored'] = sorted(rng.shuffle(free)[:rng.range(1, 2)])
    hist, prev_ruin = [], False
    for _ in range(rng.range(5, 14) if tier == 'quick' else rng.range(8, 22)):
        op = O.arm_quota(rng, O.gen_op(rng, prev_ruin))
        if variant != 'plain' and op['op'].startswith('search:lkh'):
            # LKHSearch re-sequences a tour without regard to marker jobs and rebuilds the pending lists: job bookkeeping
            # under conditional jobs is C04's subject, not a cache question (as in the stream c05_shared)
            op['op'] = 'search:rr'
        prev_ruin = op['op'].startswith('ruin')
        hist.append(op)
    c['seed'] = rng.next() % (2 ** 53)
    c['history'] = hist
    c['observe'] = observe
    return c


def generate(rng, tier, n):
    return [gen_case(rng, tier, observe=(k % 2 == 0)) for k in range(n)]


# ---------------------------------------------------------------- independent recomputation from the dumped tours (Python)
FMAX = 'inf'


def veh_of(c, r):
    return c['vehicles'][r['v']]


def is_reload(c, j):
    return 'reload' in c and any(x['id'] == j for x in c['reload']['reloads'])


def is_recharge(c, j):
    return 'recharge' in c and any(x['id'] == j for x in c['recharge']['stations'])


def py_schedule(c, acts):
    """update_schedules: the start keeps its schedule; [(arr, dep)]"""
    n = c['n']
    out = [(tz(acts[0]['arr']), tz(acts[0]['dep']))]
    loc, dep = acts[0]['loc'], tz(acts[0]['dep'])
    for a in acts[1:]:
        arr = dep + c['dur'][loc * n + a['loc']]
        dep = max(arr, tz(a['tws'])) + tz(a['svc'])
        loc = a['loc']
        out.append((arr, dep))
    return out


def py_states(c, v, acts, sched):
    """update_states: latest arrivals and future waiting"""
    n = c['n']
    end_time = tz(v['shift_end'])
    prev_loc = v['end'] if v['end'] is not None else v['start']
    waiting = 0
    lat, wai = [], []
    for a, (arr, _) in zip(reversed(acts), reversed(sched)):
        if a['job'] < 0:
            lat.append(0)
            wai.append(0)
            continue
        if end_time >= INF // 2:
            latest = tz(a['twe'])
        else:
            latest = min(tz(a['twe']), end_time - c['dur'][a['loc'] * n + prev_loc] - tz(a['svc']))
        waiting = waiting + max(tz(a['tws']) - arr, 0)
        lat.append(latest)
        wai.append(waiting)
        end_time, prev_loc = latest, a['loc']
    lat.reverse()
    wai.reverse()
    if acts[-1]['job'] < 0 and len(acts) > 1:
        lat.pop()
        wai.pop()
    return lat, wai


def py_marker_intervals(acts, is_marker):
    """get_route_intervals"""
    last = len(acts) - 1
    acc = []
    for idx, a in enumerate(acts):
        m = a['job'] >= 0 and is_marker(a['job'])
        is_last = idx == last
        if m or is_last:
            start = acc[-1][1] + 1 if acc else 0
            end = last if is_last else idx - 1
            if m and is_last:
                acc.append((start, end - 1))
                acc.append((end, end))
            else:
                acc.append((start, end))
    return acc


def py_loads(acts, ivs):
    """CapacitatedMultiTrip::recalculate_states (SingleDimLoad): (current, max past, max future, max load)"""
    L = len(acts)
    cur, past, fut = [0] * L, [0] * L, [0] * L
    acc, mx = 0, 0
    for s, e in ivs:
        sl = acts[s:e + 1]
        start_delivery = acc + sum(a['dem'][2] for a in sl)
        end_pickup = sum(a['dem'][0] for a in sl)
        current, m = start_delivery, 0
        for i, a in enumerate(sl):
            current = current + (a['dem'][0] + a['dem'][1] - a['dem'][2] - a['dem'][3])
            m = max(m, current)
            cur[s + i] = current
            past[s + i] = m
        cm = current
        for i in range(e, s - 1, -1):
            cm = max(cm, cur[i])
            fut[i] = cm
        acc, mx = current - end_pickup, max(cm, mx)
    return cur, past, fut, mx


def py_recharge_counters(c, acts, ivs):
    n = c['n']
    last = len(acts) - 1
    out = [0] * len(acts)
    for s, e in ivs:
        e2 = e + 1 if e != last else e
        accd = 0
        for i in range(s, e2):
            accd += c['dist'][acts[i]['loc'] * n + acts[i + 1]['loc']]
            out[i + 1] = accd
    return out


def order_of(c, a):
    """('v', x) | 'default' | 'ignored' as the harness' order function gives it for the activity's single"""
    if a['job'] < 0:
        return 'ignored'
    j = next((j for j in c['jobs'] if j['id'] == a['job']), None)
    if j is None or 'multi' in j or 'order' not in j:
        return 'default'
    return ('v', j['order'])


def order_greater(x, y):
    if isinstance(x, tuple) and isinstance(y, tuple):
        return x[1] > y[1]
    return x == 'default' and isinstance(y, tuple)


def py_order_violations(c, routes):
    total = 0
    for r in routes:
        os_ = [order_of(c, a) for a in r['acts'] if a['job'] >= 0]
        total += sum(1 for x, y in zip(os_, os_[1:]) if order_greater(x, y))
    return total


def cv_safe(vals):
    """rosomaxa get_cv_safe, the same IEEE operations in the same order"""
    vals = [float(x) for x in vals]
    if not vals:
        return 0.0
    s = 0.0
    for x in vals:
        s += x
    mean = s / float(len(vals))
    first, second = 0.0, 0.0
    for x in vals:
        dev = x - mean
        first, second = first + dev * dev, second + dev
    variance = (first - (second * second / float(len(vals)))) / float(len(vals))
    if mean == 0.0:
        return 0.0
    try:
        value = math.sqrt(variance) / mean
    except ValueError:
        return 1.0          # sqrt of a negative number: NaN -> 1
    return 1.0 if value != value else value


def demand_type(dem):
    ps, pd, ds, dd = dem
    if ds != 0 and ps == 0:
        return 'delivery'
    if ds == 0 and ps != 0:
        return 'pickup'
    return 'other'


def py_fast(c, acts, sched, reload_ivs):
    """FastServiceObjective::fitness contribution of one tour"""
    last = len(acts) - 1

    def interval(idx):
        for s, e in (reload_ivs or []):
            if s <= idx < e:
                return s, e
        return 0, max(last, 0)

    start_time = lambda idx: sched[interval(idx)[0]][1]
    end_time = lambda idx: sched[interval(idx)[1]][0]
    total = 0
    seen = []
    for idx, a in enumerate(acts):
        j = a['job']
        if j < 0 or j in seen:
            continue
        seen.append(j)
        if is_reload(c, j):
            continue
        job = next((x for x in c['jobs'] if x['id'] == j), None)
        if job is not None and 'multi' in job:
            lastidx = max(i for i, b in enumerate(acts) if b['job'] == j)
            total += end_time(lastidx) - start_time(idx)
            continue
        kind = 'from_start' if job is None else {'delivery': 'from_start', 'pickup': 'to_end', 'other': 'start_to_end'}[demand_type(job['dem'])]
        if kind == 'from_start':
            total += sched[idx][1] - start_time(idx)
        elif kind == 'to_end':
            total += end_time(idx) - sched[idx][1]
        else:
            total += end_time(idx) - start_time(idx)
    return total


def objective_kinds(c):
    return [o['kind'] for o in c['features'].get('objectives', [])]


def py_route_spec(c, r):
    """every cached value of one tour as a function of the bare tour: dict name -> digest entry; plus the schedule"""
    v = veh_of(c, r)
    acts = r['acts']
    sched = py_schedule(c, acts)
    lat, wai = py_states(c, v, acts, sched)
    n = c['n']
    dist = sum(c['dist'][a['loc'] * n + b['loc']] for a, b in zip(acts, acts[1:]))
    durn = sched[-1][1] - sched[0][1]
    out = {'latest': ('vf', tuple(tout(x) for x in lat)), 'waiting': ('vf', tuple(wai)), 'distance': ('f', dist), 'duration': ('f', durn)}
    reload_ivs = py_marker_intervals(acts, lambda j: is_reload(c, j)) if 'reload' in c else None
    if reload_ivs is not None:
        out['reload_intervals'] = ('vuu', tuple(reload_ivs))
    cur, past, fut, mx = py_loads(acts, reload_ivs if reload_ivs is not None else [(0, len(acts) - 1)])
    out['current'], out['past'], out['future'] = ('vl1', tuple(cur)), ('vl1', tuple(past)), ('vl1', tuple(fut))
    out['max_load'] = ('f', P.num(float(mx) / float(v['cap'])))
    jobs = {j['id']: j for j in c['jobs']}
    ids = O.route_jobs(r)
    if c['features'].get('compat'):
        tags = [jobs[j]['compat'] for j in ids if j in jobs and jobs[j].get('compat')]
        if tags:
            out['compat'] = ('s', tags[0])
    if c['features'].get('groups'):
        gs = sorted(set(jobs[j]['group'] for j in ids if j in jobs and jobs[j].get('group')))
        if gs:
            out['groups'] = ('hs', tuple(gs))
    if c['features'].get('limits') and v.get('dur_limit') is not None:
        out['limit_duration'] = ('f', v['dur_limit'])
    if 'recharge' in c:
        rivs = py_marker_intervals(acts, lambda j: is_recharge(c, j))
        out['recharge_intervals'] = ('vuu', tuple(rivs))
        if v.get('recharge_limit') is not None:
            out['recharge_distance'] = ('vf', tuple(py_recharge_counters(c, acts, rivs)))
    closed = acts[-1]['job'] < 0 and len(acts) > 1
    nacts = len(acts) - (2 if closed else 1)
    for kind in objective_kinds(c):
        if kind == 'balance_max_load':
            ivs = reload_ivs if reload_ivs is not None else [(0, 0)]
            out[kind] = ('f', max([P.num(float(fut[s]) / float(v['cap'])) for s, _ in ivs] or [0]))
        elif kind == 'balance_activities':
            out[kind] = ('f', nacts)
        elif kind == 'balance_distance':
            out[kind] = ('f', dist)
        elif kind == 'balance_duration':
            out[kind] = ('f', durn)
        elif kind == 'fast_service':
            out['multi_job_ranges'] = 'opaque'
    return out, [[tout(a), tout(b)] for a, b in sched], py_fast(c, acts, sched, reload_ivs)


def canon(dig):
    """a digest as a sorted list of parsed entries: P.canon_digest + the interval vectors parsed, the unreadable entries dropped"""
    out = []
    for e in P.canon_digest(dig):
        if e[0] == 'vuu':
            e = ('vuu', tuple((int(a), int(b)) for a, b in re.findall(r'\((\d+),\s*(\d+)\)', e[1])))
        if e[0] == 'opaque' or e == ('opaque', ''):
            continue
        out.append(e)
    return sorted(out, key=str)


def spec_digest(spec):
    return sorted((e for e in spec.values() if e != 'opaque'), key=str)


def py_solution_spec(c, routes, specs):
    """the per-solution aggregates as the fold over the tours: dict name -> value"""
    out = {}
    if c['features'].get('order'):
        out['order'] = py_order_violations(c, routes)
    for kind in objective_kinds(c):
        if kind in BALANCE:
            out[kind] = cv_safe([s[0][kind][1] for s in specs])
    if 'fast_service' in objective_kinds(c):
        out['fast_service'] = sum(s[2] for s in specs)
    return out


# ---------------------------------------------------------------- Gallina rendering
OKIND = {'balance_max_load': 'OMaxLoad', 'balance_activities': 'OActivities', 'balance_distance': 'ODistance',
         'balance_duration': 'ODuration', 'fast_service': 'OFast'}
KEYS = {0: 'schedule', 1: 'latest', 2: 'waiting', 3: 'distance', 4: 'duration', 5: 'reload_intervals', 6: 'current', 7: 'past',
        8: 'future', 9: 'max_load', 10: 'compat', 11: 'groups', 12: 'limit_duration', 13: 'recharge_intervals',
        14: 'recharge_distance', 15: 'balance_max_load', 16: 'balance_activities', 17: 'balance_distance', 18: 'balance_duration',
        19: 'multi_job_ranges'}
AGG_KEYS = {0: 'order', 15: 'balance_max_load', 16: 'balance_activities', 17: 'balance_distance', 18: 'balance_duration'}


def b(x):
    return 'true' if x else 'false'


def opt(x):
    return 'None' if x is None else '(Some %s)' % z(x)


def g_cfg(c):
    f = c['features']
    objs = [o for o in f.get('objectives', []) if o['kind'] in OKIND]
    before = [OKIND[o['kind']] for o in objs if o['pos'] == 'before_cost']
    after = [OKIND[o['kind']] for o in objs if o['pos'] != 'before_cost']
    return '(mkCfg %s %s %s %s %s %s [%s] [%s])' % (b('reload' in c), b('recharge' in c), b(f.get('limits')), b(f.get('compat')),
                                                    b(f.get('groups')), b(f.get('order')), '; '.join(before), '; '.join(after))


def g_fact(c, jobs, a):
    j = a['job']
    job = jobs.get(j)
    core = '(mkAct %s %s %s %s %s %s %s %s)' % (z(j), z(a['loc']), z(tz(a['svc'])), z(tz(a['tws'])), z(tz(a['twe'])),
                                                g_demand(a['dem']), z(tz(a['arr'])), z(tz(a['dep'])))
    order = None if job is None or 'multi' in job else job.get('order')
    return '(mkFA %s %s %s %s %s %s %s)' % (core, b(j >= 0 and is_reload(c, j)), b(j >= 0 and is_recharge(c, j)), opt(order),
                                            b(job is not None and 'multi' in job),
                                            z(O.CODES.get(job.get('compat'), 0) if job and c['features'].get('compat') else 0),
                                            z(O.CODES.get(job.get('group'), 0) if job and c['features'].get('groups') else 0))


def g_ftour(c, jobs, r):
    v = veh_of(c, r)
    lim = v.get('dur_limit') if c['features'].get('limits') else None
    rl = v.get('recharge_limit') if 'recharge' in c else None
    return '(mkFT (mkFV %s %s %s) %s)' % (z(v['cap']), opt(lim), opt(rl), lst(r['acts'], lambda a: g_fact(c, jobs, a)))


def model_states(c, impl):
    """the route lists the model is evaluated on: every handed-over state (tours with jobs), then every observed insertion"""
    out = [[r for r in d['routes'] if O.route_jobs(r)] for d in O.states(impl)]
    out += [[r for r in m['routes'] if O.route_jobs(r)] for m in impl.get('feat_observations', [])]
    return out


def model_term(c, impl):
    if 'panic' in impl:
        return None
    jobs = {j['id']: j for j in c['jobs']}
    mat = lambda m: '(mat %s %s)' % (z(c['n']), zlist(m))
    return 'run_feat %s %s %s %s' % (mat(c['dur']), mat(c['dist']), g_cfg(c),
                                     lst(model_states(c, impl), lambda rs: lst(rs, lambda r: g_ftour(c, jobs, r))))


# ---------------------------------------------------------------- model values -> digest entries
def unopt(v):
    if v == 'None':
        return None
    assert isinstance(v, tuple) and v[0] == 'Some', v
    return v[1]


def ratio(n, d):
    return P.num(float(n) / float(d)) if d else 0


def entry_of(c, k, v):
    """a cached value of the model as the digest renders it; None = no digest entry"""
    inv = {v_: k_ for k_, v_ in O.CODES.items() if k_ in ('A', 'B', 'C')}
    ginv = {v_: k_ for k_, v_ in O.CODES.items() if k_.startswith('g')}
    tag = v[0]
    if k == 0 or tag == 'VRanges':
        return None
    if tag == 'VZ':
        return ('s', inv[v[1]]) if k == 10 else ('f', tout(v[1]))
    if tag == 'VQ':
        return ('f', ratio(v[1], v[2]))
    if tag == 'VList':
        return ('vl1' if k in (6, 7, 8) else 'vf', tuple(tout(x) for x in v[1]))
    if tag == 'VIvs':
        return ('vuu', tuple((a, b_) for a, b_ in v[1]))
    if tag == 'VSet':
        return ('hs', tuple(sorted(ginv[g] for g in v[1]))) if v[1] else None
    raise ValueError('unknown model value %r' % (v,))


def model_route(c, dumped):
    """[(key, option value)] of the model -> (dict name -> digest entry, schedule or None)"""
    out, sched = {}, None
    for k, ov in dumped:
        v = unopt(ov)
        if v is None:
            continue
        if k == 0:
            sched = [[tout(a), tout(b_)] for a, b_ in v[1]]
            continue
        e = entry_of(c, k, v)
        if k == 19:
            out[KEYS[k]] = 'opaque'
        elif e is not None:
            out[KEYS[k]] = e
    return out, sched


def fval_num(v):
    return float(v[1]) if v[0] == 'VZ' else (float(v[1]) / float(v[2]) if v[2] else 0.0)


def model_aggs(dumped):
    """[(key, option svalue)] -> dict name -> number (count, or the coefficient of variation of the vector of route estimates)"""
    out = {}
    for k, ov in dumped:
        v = unopt(ov)
        if v is None:
            continue
        out[AGG_KEYS[k]] = v[1] if v[0] == 'SCount' else cv_safe([fval_num(x) for x in v[1]])
    return out


def split_model(c, impl, model):
    """((keys_ok, ideal_ok), (good_route, good_handover, good_aggs), per state (spec routes, rebuilt routes, spec aggs, rebuilt aggs, fast))"""
    k_ok, i_ok, good, states = model          # Coq prints ((a, b), c, d) as (a, b, c, d)
    return (k_ok, i_ok), good, states


# ---------------------------------------------------------------- shared judging of cached vs recomputed
def msdiff(a, b_):
    a, b_ = list(a), list(b_)
    extra = []
    for x in a:
        if x in b_:
            b_.remove(x)
        else:
            extra.append(x)
    return extra, b_


def names_of(spec, entry):
    return sorted(k for k, v in spec.items() if v == entry)


def bal_status(c, kind):
    """does the handler of this work balance objective run AFTER the handlers of every state key it reads (goal order)?"""
    o = next(o for o in c['features']['objectives'] if o['kind'] == kind)
    if kind == 'balance_activities':
        return True
    if kind == 'balance_max_load':
        return False          # objective features are listed before the capacity feature, whose max-future loads it reads
    return o['pos'] != 'before_cost'


# F3 and F5 are repaired in /repo (5d6f1d2, 38e261f): the classes stay, they are not known findings any more (regression mutants C05-17 / C05-18)
F3 = 'work-balance-route-value-not-refreshed-at-handover'
F4 = 'work-balance-route-value-computed-before-the-state-it-reads-is-refreshed'
F4A = 'work-balance-aggregate-computed-before-the-state-it-reads-is-refreshed'
F5 = 'solution-aggregate-counts-tour-without-jobs-removed-after-the-refresh'
F6 = 'solution-aggregate-counts-tour-emptied-by-a-state-handler-of-the-same-refresh'


def route_violations(c, spec, sched, live_dig, live_sched, where, target=None):
    """classes of the differences between a live route state and the recomputation `spec` (dict name -> entry);
    target: True / False / None = the route received the observed insertion / did not / unknown (hand-over: None)"""
    out = []
    if live_sched is not None and sched is not None and live_sched != sched:
        out.append(('stale-activity-schedule', 'the activity schedule differs from update_schedules of the tour'))
    extra, missing = msdiff(canon(live_dig), spec_digest(spec))
    plain, bal = [], []
    for e in missing:
        ns = names_of(spec, e)
        # the digest is a multiset of anonymous values: an entry that several keys would render alike is attributed to a work
        # balance value when one of them is such a value, and among those to one whose handler runs before its inputs' handlers
        bs = sorted((n for n in ns if n.startswith('balance_')), key=lambda n: bal_status(c, n))
        (bal if bs else plain).append((bs[0] if bs else '|'.join(ns), e))
    if len(extra) > len(missing):
        plain.append(('unexpected-' + '+'.join(sorted(set(e[0] for e in extra))), None))
    if plain:
        out.append(('stale-' + '+'.join(sorted(set(n for n, _ in plain))),
                    'cached %s differs from recomputation from the tour (cached but not expected: %s)' % ([n for n, _ in plain], extra)))
    for kind, e in bal:
        if not bal_status(c, kind):
            cls = F4
        elif target is True:
            cls = 'stale-work-balance-route-value-of-the-tour-that-received-the-insertion'
        else:
            cls = F3
        out.append((cls, 'the cached per-route value of %s differs from its recomputation %s (cached but not expected: %s)' % (kind, e, extra)))
    return [{'class': cl, 'what': '%s: %s' % (where, w)} for cl, w in out]


def empty_estimate(c, kind, v):
    """the route estimate of the tour of vehicle v when it has no job (start -> end, or the start alone)"""
    veh = c['vehicles'][v]
    if kind in ('balance_activities', 'balance_max_load') or veh['end'] is None:
        return 0
    n = c['n']
    return c['dist'][veh['start'] * n + veh['end']] if kind == 'balance_distance' else c['dur'][veh['start'] * n + veh['end']]


def explains_emptied(c, routes, kind, values, live):
    """is the live aggregate the coefficient of variation over the tours of the state PLUS tours without jobs of vehicles that
    are not in the handed-over solution?  (InsertionContext::restore / finalize_insertion_ctx: accept_solution_state, THEN
    remove_empty_routes - a tour emptied by a ruin, or added for a duration-limited vehicle and never used, is still counted)"""
    import itertools
    used = [r['v'] for r in routes]
    free = [v for v in range(len(c['vehicles'])) if v not in used]
    base = list(values)
    for m in range(1, len(free) + 1):
        for sub in itertools.combinations(free, m):
            extra = [empty_estimate(c, kind, v) for v in sub]
            for perm in itertools.islice(itertools.permutations(base + extra), 720):
                if cv_safe(perm) == live:
                    return True
    return False


def fnum(x):
    return float(x) if isinstance(x, str) else x


def solution_violations(c, impl, k, d, route_values, aggs, fast):
    """route_values: dict kind -> [route estimate per tour with jobs]; aggs: dict name -> value from the tours; fast: fast-service value"""
    out = []
    op = 'construction' if k == 0 else c['history'][k - 1]['op']
    where = 'state %d (after %s)' % (k, op)
    if any(r['stale'] for r in d['routes']):
        out.append(('stale-flag-at-handover-after-' + op, 'a tour is handed over with the stale flag set'))
    names = impl['names']
    fit = {n: fnum(x) for n, x in zip(names, d['fit'])}
    rfit = {n: fnum(x) for n, x in zip(names, d['rebuilt']['fit'])}
    sdig = [e for e in canon(d['sdig'])]
    if 'order' in aggs:
        if fit.get('order') != aggs['order'] or ('u', str(aggs['order'])) not in [(e[0], str(e[1])) for e in sdig]:
            out.append(('stale-tour-order-violations', 'cached violation count %s / objective %s, counted over the tours %s' % (
                [e for e in sdig if e[0] == 'u'], fit.get('order'), aggs['order'])))
    for kind in BALANCE:
        if kind not in aggs:
            continue
        live = fit.get(kind)
        if live == aggs[kind] and ('f', P.num(aggs[kind])) in sdig:
            continue
        if not bal_status(c, kind):
            cls = F4A
        elif explains_emptied(c, [r for r in d['routes'] if O.route_jobs(r)], kind, route_values[kind], live):
            # since /repo 38e261f restore / finalize drop the job-less tours BEFORE the handlers run: a job-less tour can be counted
            # only when a handler of the same refresh empties it - remove_trivial_markers taking an obsolete marker, the last
            # activity, out of a tour - which needs marker jobs in the problem (finding C05-F6); without them it is the repaired C05-F5
            cls = F6 if ('reload' in c or 'recharge' in c) else F5
        else:
            cls = 'stale-solution-aggregate-' + kind
        out.append((cls, 'the objective %s reads %r (solution state %s); the fold over the tours gives %r' % (kind, live, sdig, aggs[kind])))
    if 'fast_service' in names and fit.get('fast_service') != fast:
        out.append(('stale-fast-service-multi-job-ranges-or-schedules', 'the fast-service objective reads %r, from the tours alone %r' % (
            fit.get('fast_service'), fast)))
    empty = any(not O.route_jobs(r) for r in d['routes'])
    changed = any(f.get('jobs') != [a['job'] for a in r['acts']] for r in d['routes'] for f in d['rebuilt']['routes'] if f['v'] == r['v'])
    for n in names:
        if n in ('unassigned', 'tours', 'cost', 'compact') and not changed and fit[n] != rfit[n]:
            if n in ('tours', 'cost') and empty:
                continue
            out.append(('solution-fitness:' + n, 'objective %s: live %r, context rebuilt from the same tours and pending lists %r' % (n, fit[n], rfit[n])))
    # "two solutions with identical tours compare equal": GoalContext::total_order(live, rebuilt) when every objective agrees
    cmp_ = d['rebuilt'].get('cmp')
    if cmp_ is not None and not changed and all(fit[n] == rfit[n] for n in names) and cmp_ != 'Equal':
        out.append(('identical-tours-do-not-compare-equal', 'all objective values agree but total_order(live, rebuilt) = %s' % cmp_))
    return [{'class': cl, 'what': '%s: %s' % (where, w)} for cl, w in out]


def insertion_targets(impl):
    """per observation index: the vehicle whose tour differs from the previous observation of the same stage (None = unknown)"""
    obs = impl.get('feat_observations', [])
    out = []
    for i, m in enumerate(obs):
        t = None
        if i > 0 and obs[i - 1]['stage'] == m['stage'] and obs[i - 1]['n'] + 1 == m['n']:
            prev = {r['v']: [a['job'] for a in r['acts']] for r in obs[i - 1]['routes']}
            cur = {r['v']: [a['job'] for a in r['acts']] for r in m['routes']}
            diff = [v for v in cur if prev.get(v) != cur[v]]
            if len(diff) == 1 and all(v in cur for v in prev):
                # exactly one tour changed, and it is the previous tour (or a new one) plus the activities of ONE job
                old = prev.get(diff[0], [x for x in cur[diff[0]] if x < 0])
                added = list(cur[diff[0]])
                for x in old:
                    if x in added:
                        added.remove(x)
                    else:
                        added = None
                        break
                if added and len(set(added)) == 1 and len(added) + len(old) == len(cur[diff[0]]) and \
                        [x for x in cur[diff[0]] if x != added[0]] == [x for x in old if x != added[0]]:
                    t = diff[0]
        out.append(t)
    return out


def two_tags(c, r):
    compat = {j['id']: j.get('compat') for j in c['jobs']}
    return len(set(compat[a['job']] for a in r['acts'] if compat.get(a['job']))) > 1


def judge(c, impl, route_spec, sol_spec):
    """route_spec(state index, route index among the tours with jobs, route) -> (spec dict, schedule);
    sol_spec(state index, routes) -> (route_values, aggs, fast)"""
    out = []
    sts = O.states(impl)
    for k, d in enumerate(sts):
        op = 'construction' if k == 0 else c['history'][k - 1]['op']
        routes = [r for r in d['routes'] if O.route_jobs(r)]
        for i, r in enumerate(routes):
            spec, sched = route_spec(k, i, r)
            out += route_violations(c, spec, sched, r['dig'], [[a['arr'], a['dep']] for a in r['acts']],
                                    'state %d (after %s), vehicle %d' % (k, op, r['v']))
        out += solution_violations(c, impl, k, d, *sol_spec(k, routes))
    targets = insertion_targets(impl)
    for i, m in enumerate(impl.get('feat_observations', [])):
        routes = [r for r in m['routes'] if O.route_jobs(r)]
        for ri, r in enumerate(routes):
            spec, sched = route_spec(len(sts) + i, ri, r)
            if two_tags(c, r):
                spec = {n: e for n, e in spec.items() if n != 'compat'}
                r = dict(r, dig=[x for x in r['dig'] if not x.startswith('s:')])
            tgt = None if targets[i] is None else (targets[i] == r['v'])
            vs = route_violations(c, spec, sched, r['dig'], [[a['arr'], a['dep']] for a in r['acts']],
                                  'after insertion #%d during %s, vehicle %d' % (m['n'], m['stage'], r['v']), target=tgt)
            for v in vs:
                if v['class'] not in (F3, F4) and not v['class'].endswith('received-the-insertion'):
                    v['class'] += '-after-insertion'
            out += vs
        if 'fast_service' in impl['names'] and len(m['fit']) == len(impl['names']) and 'infeasible' not in m['stage']:
            fast = sol_spec(len(sts) + i, routes)[2]
            live = fnum(m['fit'][impl['names'].index('fast_service')])
            if live != fast:
                out.append({'class': 'stale-fast-service-multi-job-ranges-or-schedules-after-insertion',
                            'what': 'after insertion #%d during %s: the fast-service objective reads %r, from the tours alone %r' % (
                                m['n'], m['stage'], live, fast)})
    seen, uniq = set(), []
    for v in out:
        if v['class'] not in seen:
            seen.add(v['class'])
            uniq.append(v)
    return uniq


# ---------------------------------------------------------------- oracle (independent Python recomputation)
def oracle(c, impl):
    if 'panic' in impl:
        return [{'class': 'panic', 'what': 'an operator panicked: ' + impl['panic'][:300]}]
    cache = {}

    def route_spec(k, i, r):
        spec, sched, fast = py_route_spec(c, r)
        cache[(k, i)] = (spec, fast)
        return spec, sched

    def sol_spec(k, routes):
        specs = [py_route_spec(c, r) for r in routes]
        aggs = py_solution_spec(c, routes, specs)
        vals = {kind: [s[0][kind][1] for s in specs] for kind in BALANCE if kind in aggs}
        return vals, aggs, sum(s[2] for s in specs)

    return judge(c, impl, route_spec, sol_spec)


# ---------------------------------------------------------------- oracle through the Coq model
def oracle_model(c, impl, model):
    if 'panic' in impl:
        return []
    checks, good, states = split_model(c, impl, model)
    out = []
    if checks != ('true', 'true'):
        out.append({'class': 'model-side-condition-fails', 'what': 'keys_ok / ideal_ok of the goal configuration evaluate to %r' % (checks,)})
    # the Coq table analysis and the structural reading used for the classes have to agree
    g_route, g_hand, g_aggs = good
    for kind in objective_kinds(c):
        if kind in BALANCE:
            k = [k_ for k_, n in AGG_KEYS.items() if n == kind][0]
            # since /repo 5d6f1d2 the per-route value is refreshed at hand-over: good exactly when its inputs are refreshed before it
            if (k in g_aggs) != bal_status(c, kind) or (k in g_hand) != bal_status(c, kind):
                out.append({'class': 'table-analysis-disagreement',
                            'what': 'work balance %s: Coq good_handover_aggs %r / good_handover %r, structural reading %r' % (
                                kind, g_aggs, g_hand, bal_status(c, kind))})

    def route_spec(k, i, r):
        return model_route(c, states[k][0][i])

    def sol_spec(k, routes):
        aggs = model_aggs(states[k][2])
        vals = {}
        for key, ov in states[k][2]:
            v = unopt(ov)
            if v is not None and v[0] == 'SVec':
                vals[AGG_KEYS[key]] = [P.num(fval_num(x)) for x in v[1]]
        return vals, aggs, states[k][4]

    return out + judge(c, impl, route_spec, sol_spec)


# ---------------------------------------------------------------- correspondence: model vs the implementation's own recomputation
def compare(c, impl, model):
    if 'panic' in impl:
        return None
    checks, good, states = split_model(c, impl, model)
    sts = O.states(impl)
    obs = impl.get('feat_observations', [])
    if len(states) != len(sts) + len(obs):
        return 'model evaluated %d states, implementation dumped %d' % (len(states), len(sts) + len(obs))
    for k, st in enumerate(states):
        spec_routes, rebuilt_routes, spec_aggs, rebuilt_aggs, fast = st
        if k < len(sts):
            d = sts[k]
            routes = [r for r in d['routes'] if O.route_jobs(r)]
            rb = {r['v']: r for r in d['rebuilt']['routes']}
        else:
            d = None
            routes = [r for r in obs[k - len(sts)]['routes'] if O.route_jobs(r)]
            rb = {r['v']: {'dig': r['fresh_dig'], 'sched': r['fresh_sched'], 'jobs': [a['job'] for a in r['acts']]} for r in routes if 'fresh_dig' in r}
        if len(spec_routes) != len(routes):
            return 'state %d: model has %d tours, dump %d' % (k, len(spec_routes), len(routes))
        unchanged = True
        for i, r in enumerate(routes):
            # the two readings of "recompute from the tour alone": Coq (run of the read functions in dependency order) and Python
            ms, msched = model_route(c, spec_routes[i])
            ps, psched, pfast = py_route_spec(c, r)
            if spec_digest(ms) != spec_digest(ps) or msched != psched:
                return 'state %d vehicle %d: recomputation from the tour: Coq %s %s, Python %s %s' % (k, r['v'], spec_digest(ms), msched, spec_digest(ps), psched)
            f = rb.get(r['v'])
            if f is None or f.get('jobs') != [a['job'] for a in r['acts']]:
                unchanged = False
                continue          # the rebuild's own solution-level clean-up changed the tour
            mr, mrs = model_route(c, rebuilt_routes[i])
            fd = canon(f['dig'])
            if two_tags(c, r):
                mr = {n: e for n, e in mr.items() if n != 'compat'}
                fd = [e for e in fd if e[0] != 's']
            if spec_digest(mr) != fd:
                return 'state %d vehicle %d: rebuilt route state: model (handlers in goal order on an empty cache) %s implementation %s' % (
                    k, r['v'], spec_digest(mr), fd)
            if mrs != f['sched']:
                return 'state %d vehicle %d: rebuilt schedule: model %s implementation %s' % (k, r['v'], mrs, f['sched'])
        if d is None:
            continue
        ps = py_solution_spec(c, routes, [py_route_spec(c, r) for r in routes])
        ma = model_aggs(spec_aggs)
        ma_fast = dict(ma, fast_service=fast) if 'fast_service' in ps else ma
        if ma_fast != ps:
            return 'state %d: aggregates from the tours: Coq %s Python %s' % (k, ma_fast, ps)
        if unchanged and len(routes) == len(d['rebuilt']['routes']):
            names = impl['names']
            rfit = {n: fnum(x) for n, x in zip(names, d['rebuilt']['fit'])}
            for n, v in model_aggs(rebuilt_aggs).items():
                if rfit.get(n) != v:
                    return 'state %d: rebuilt aggregate %s: model %r implementation %r' % (k, n, v, rfit.get(n))
            if 'fast_service' in names and rfit['fast_service'] != fast:
                return 'state %d: rebuilt fast-service objective: model %r implementation %r' % (k, fast, rfit['fast_service'])
    return None


# ---------------------------------------------------------------- bookkeeping
def nontrivial_key(c, impl):
    if 'panic' in impl:
        return None
    sts = O.states(impl)
    sig = lambda d: [(r['v'], [(a['job'], a['sub']) for a in r['acts']]) for r in d['routes']]
    if all(sig(sts[k]) == sig(sts[0]) for k in range(len(sts))):
        return None
    return (c['seed'], tuple(o['op'] for o in c['history']))


def classify(c, impl):
    f = c['features']
    labs = ['variant:' + c.get('variant', '?'), 'observe=%s' % c.get('observe', False)]
    labs += ['objective:%s:%s' % (o['kind'], o['pos']) for o in f.get('objectives', [])]
    labs += ['feature:' + k for k in ('compat', 'groups', 'order', 'order_hard', 'limits') if f.get(k)]
    labs.append('steps_with_quota=%d' % sum(1 for o in c['history'] if o.get('quota') is not None))
    if 'panic' in impl:
        return labs + ['panic']
    labs.append('observed_insertions>0' if impl.get('feat_observations') else 'observed_insertions=0')
    sts = O.states(impl)
    if any(len(dict.fromkeys(x for x in canon(r['dig']) if x[0] == 'vuu' and len(x[1]) > 1)) for d in sts for r in d['routes']):
        labs.append('states_with_a_marker_inside_a_tour')
    for o in c['history']:
        labs.append(o['op'])
    return labs


def shrink_candidates(c):
    h = c['history']
    for k in range(len(h) - 1, -1, -1):
        d = dict(c)
        d['history'] = h[:k] + h[k + 1:]
        yield d
