"""C08 — a population never loses its best-known solution (plugin for tools/verif.py).
Cases are operation histories over {add, add_all, on_generation(stats), select} (ranked / size / selection_phase are read after
every operation) for the three populations of the rosomaxa crate, driven through the public HeuristicPopulation trait."""
from coqterm import z, zlist, lst, boolean

ID = 'C08'
HARNESS = 'c08'
COQ_IMPORTS = 'From VRP Require Import Base.Tac Model.Population.'
MODEL_TARGETS = ['theories/Model/Population.vo']
SIZES = {'quick': 1200, 'thorough': 20000, 'search': 12000}
SUBSTREAMS = ['c08_builder']     # the configuration side of the last clause: EvolutionConfigBuilder setter orders -> build -> EvolutionSimulator::run (Model/EvoConfig.v)
RULE = ('cases: operation histories (3-16 ops) over add / add_all (batches of 0-5, also empty) / on_generation(speed Unknown|Moderate|'
        'Slow r/16, termination estimate t/1024 at and around the exploration-ratio boundary) / select (scripted uniform_int draws and '
        'is_hit answers), for Greedy (selection size 0-4, optional initial best), Elitism (max size 1-5, selection size 0-5, five '
        'dedup predicates incl. the default relative-distance one and an asymmetric one) and Rosomaxa (initial size 4-6 plus a '
        'malformed stream 0-3, selection size 2-9, elite size 1-3, node size 1-3, exploration ratio e/64); individuals are '
        '(id, key, tag, weight) with few distinct keys so ties, near-duplicates and strictly better late arrivals are frequent. '
        'One case in eight instead runs the real evolution loop (EvolutionSimulator + Iterative + TelemetryHeuristicContext) over such a population, '
        'seeded with 0-3 initial solutions (+ operator-created ones) and scripted offspring for 1-9 generations (oracle only); one case in forty is an '
        'end-to-end vrp-core solve (6-14 jobs, integer matrix and costs) seeded through the pragmatic writer + initial-solution reader with a '
        'solution of a longer unseeded run, 1-2 generations, Greedy / Elitism / default population (oracle only). '
        'non-trivial = history in which an offered individual was dropped (dedup / truncation / comparable-filter) or the phase changed, '
        'or an evolution of more than one generation.')
TRUSTED = ['slice::sort_by is a stable sort (std documentation): modelled by stable insertion sort',
           'Vec::dedup_by(same_bucket(a, b)) passes the current element as a and the last retained one as b and removes a (std documentation); '
           'Vec::truncate / Iterator::{take, chain, filter_map} semantics',
           'the GSOM network of Rosomaxa is not modelled: it is treated as a bag of offered individuals; what node selections return is '
           'validated on every run (members of the offered set), not proved',
           'the harness solution/objective types (integer key ordering) and the scripted Random in harness/src/bin/c08.rs']
ASSUMPTIONS = ['HeuristicObjective::total_order is a total preorder (C09 discharges this for goals of single-objective layers)',
               'configuration: Elitism max_population_size >= 1 (asserted by the code), Rosomaxa elite_size >= 1, selection_size >= 2 '
               '(checked by Rosomaxa::new), initial_size >= 4 (smaller values panic in Network::new: modelled as panic, not as a population state); '
               'select_nonempty needs selection_size >= 1 for Greedy/Elitism',
               'deep_copy / on_init preserve the individual (identity and fitness)']

KINDS = ('greedy', 'elitism', 'rosomaxa')


# ------------------------------------------------------------------ generation
class Universe:
    """individuals of one case: unique ids, keys with many ties; avoids the exact float boundaries of the two
    relative-distance dedup predicates (20*|a-b| == max and 50*|a-b| == max) so f64 and Z agree trivially"""

    def __init__(self, rng, keymode):
        self.rng = rng
        self.n = 0
        self.keys = []
        self.ws = []
        self.keymode = keymode
        self.base = rng.range(-3, 40) if keymode != 2 else rng.range(80, 200)
        self.span = rng.choice([2, 3, 5, 8, 12])

    def _ok(self, vals, v, den):
        for u in vals:
            m = max(abs(u), abs(v))
            if m != 0 and den * abs(u - v) == m:
                return False
        return True

    def key(self):
        for _ in range(50):
            if self.keys and self.rng.chance(1, 3):
                k = self.rng.choice(self.keys) + self.rng.choice([-1, 0, 0, 1])
            else:
                k = self.base + self.rng.below(self.span)
            if self._ok(self.keys, k, 20):
                self.keys.append(k)
                return k
        return self.keys[0]

    def weight(self):
        for _ in range(50):
            if self.ws and self.rng.chance(1, 2):
                w = self.rng.choice(self.ws) + self.rng.choice([-1, 0, 1, 2])
            else:
                w = self.rng.range(0, 120)
            if self._ok(self.ws, w, 50):
                self.ws.append(w)
                return w
        return self.ws[0]

    def ind(self, better_than=None):
        self.n += 1
        k = self.key()
        if better_than is not None:
            k2 = better_than - self.rng.range(1, 3)
            if self._ok(self.keys, k2, 20):
                k = k2
                self.keys.append(k)
        return [self.n, k, self.rng.below(4), self.weight()]


def gen_ops(rng, u, kind, cfg, nops):
    ops = []
    g = 0
    best = None
    er = cfg.get('er', 32)
    for _ in range(nops):
        r = rng.below(100)
        if r < 32:
            x = u.ind(best if rng.chance(1, 4) else None)
            ops.append({'op': 'add', 'x': x})
            best = x[1] if best is None else min(best, x[1])
        elif r < 62:
            n = rng.choice([0, 1, 2, 2, 3, 3, 4, 5])
            xs = [u.ind(best if rng.chance(1, 5) else None) for _ in range(n)]
            if n >= 2 and rng.chance(1, 3):
                # a batch whose later element is strictly better than an earlier improving one
                xs.sort(key=lambda x: -x[1])
            ops.append({'op': 'add_all', 'xs': xs})
            for x in xs:
                best = x[1] if best is None else min(best, x[1])
        elif r < 76:
            ops.append(gen_tick(rng, er, g))
            g += 1
        else:
            ops.append({'op': 'select', 'draws': [rng.below(1000) for _ in range(rng.below(7))],
                        'hits': [rng.below(2) for _ in range(rng.below(4))]})
    return ops


def gen_tick(rng, er, g, want=None):
    """statistics of one generation; t is placed at / next to the exploration-ratio boundary half of the time.
       want: 'stay' (t below the boundary) / 'leave' (t above) / None"""
    sp = rng.choice([0, 0, 1, 2])
    r = rng.choice([0, 1, 4, 8, 12, 16, 16, 20, 24]) if sp == 2 else 16
    bound = er * r if sp == 2 else er * 16
    if want == 'stay':
        t = rng.choice([bound - 1, bound - 1, bound // 2, 0, bound])
    elif want == 'leave':
        t = rng.choice([bound + 1, bound + 1, bound, 1024])
    else:
        t = rng.choice([bound - 1, bound, bound + 1, rng.below(1025), rng.below(1025)])
    t = max(0, min(1024, t))
    return {'op': 'gen', 'sp': sp, 'r': r, 't': t, 'g': g, 'imp': rng.below(17)}


def gen_rosomaxa_ops(rng, u, cfg):
    """histories that walk Initial -> Exploration -> Exploitation (or skip exploration) with additions in every phase"""
    ops = []
    g = 0
    best = None
    er = cfg['er']

    def adds(n):
        nonlocal best
        while n > 0:
            if rng.chance(1, 2):
                x = u.ind(best if rng.chance(1, 3) else None)
                ops.append({'op': 'add', 'x': x})
                xs = [x]
                n -= 1
            else:
                k = rng.range(0, min(4, max(n, 1)))
                xs = [u.ind(best if rng.chance(1, 4) else None) for _ in range(k)]
                ops.append({'op': 'add_all', 'xs': xs})
                n -= max(k, 1)
            for x in xs:
                best = x[1] if best is None else min(best, x[1])
            if rng.chance(1, 3):
                sel()

    def sel():
        ops.append({'op': 'select', 'draws': [rng.below(1000) for _ in range(rng.below(9))],
                    'hits': [rng.below(2) for _ in range(rng.below(4))]})

    def tick(want):
        nonlocal g
        ops.append(gen_tick(rng, er, g, want))
        g += 1

    shape = rng.below(10)
    init = cfg['initial']
    if shape < 6:
        # full walk
        adds(rng.range(max(init - 1, 1), init + 2))
        if rng.chance(1, 3):
            tick('stay')
            adds(rng.range(1, 3))
        tick('stay')
        sel()
        for _ in range(rng.range(1, 3)):
            adds(rng.range(1, 4))
            tick('stay' if rng.chance(2, 3) else None)
            sel()
        tick('leave')
        sel()
        adds(rng.range(1, 3))
        for _ in range(rng.below(3)):
            tick(None)
            sel()
        adds(rng.range(0, 2))
    elif shape < 8:
        # skip exploration: leave while still initial
        adds(rng.range(1, max(init - 1, 1)))
        sel()
        tick('leave')
        sel()
        adds(rng.range(1, 4))
        for _ in range(rng.range(1, 4)):
            tick(None)
            sel()
            adds(rng.range(0, 2))
    else:
        n = rng.range(4, 14)
        for _ in range(n):
            r = rng.below(10)
            if r < 5:
                adds(rng.range(1, 3))
            elif r < 8:
                tick(None)
            else:
                sel()
    return ops[:40]


def generate(rng, tier, n):
    cases = []
    for k in range(n):
        if k % 40 == 7:
            cases.append(gen_solve(rng.fork('solve%d' % k)))
            continue
        r = rng.below(100)
        if r < 20:
            kind = 'greedy'
            u = Universe(rng, 0)
            cfg = {'sel': rng.choice([0, 1, 1, 2, 3, 4]), 'best': [u.ind()] if rng.chance(1, 4) else []}
            two = rng.chance(1, 3)
            ops = gen_ops(rng, u, kind, cfg, rng.range(2, 10))
        elif r < 55:
            kind = 'elitism'
            mode = rng.choice([0, 1, 2, 3, 4, 4, 1, 2])
            u = Universe(rng, 2 if mode == 4 and rng.chance(2, 3) else 0)
            cfg = {'max': rng.choice([1, 1, 2, 2, 3, 4, 5]), 'sel': rng.choice([0, 1, 2, 3, 4, 5, 2, 3]), 'dedup': mode}
            two = rng.chance(1, 2) and mode != 4
            ops = gen_ops(rng, u, kind, cfg, rng.range(3, 16))
        else:
            kind = 'rosomaxa'
            u = Universe(rng, 0)
            malformed = rng.chance(1, 25)
            cfg = {'initial': rng.range(0, 3) if malformed else rng.choice([4, 4, 5, 6]),
                   'sel': rng.choice([2, 3, 4, 6, 7, 8, 9]), 'elite': rng.choice([1, 2, 2, 3]), 'node': rng.range(1, 3),
                   'rebalance': rng.range(2, 8), 'er': rng.choice([0, 16, 32, 40, 48, 58, 60, 64])}
            two = rng.chance(1, 2)
            ops = gen_rosomaxa_ops(rng, u, cfg)
        if rng.chance(1, 8):
            cases.append(gen_evo(rng, u, kind, cfg, two))
        else:
            cases.append({'kind': kind, 'cfg': cfg, 'two': two, 'seed': rng.below(1 << 30), 'ops': ops})
    return cases


def gen_solve(rng):
    """end to end: a small pragmatic problem (index locations, integer matrix and integer cost coefficients, so every fitness value
    is an exactly represented integer), solved unseeded for gens0 generations, the solution written and read back through the
    pragmatic initial-solution reader and used to seed a short second solve"""
    import json as _json
    n = rng.range(6, 14)
    pts = [(rng.below(30), rng.below(30)) for _ in range(n + 1)]
    dist = [abs(a[0] - b[0]) + abs(a[1] - b[1]) for a in pts for b in pts]
    jobs = []
    for i in range(1, n + 1):
        place = {'location': {'index': i}, 'duration': rng.choice([0, 5, 10])}
        if rng.chance(1, 3):
            st = rng.below(200)
            place['times'] = [['2020-01-01T00:%02d:%02dZ' % (st // 60, st % 60), '2020-01-01T01:%02d:%02dZ' % (st // 60, st % 60)]]
        jobs.append({'id': 'j%d' % i, 'deliveries': [{'places': [place], 'demand': [rng.range(1, 3)]}]})
    nveh = rng.range(2, 4)
    problem = {'plan': {'jobs': jobs},
               'fleet': {'vehicles': [{'typeId': 'v', 'vehicleIds': ['v_%d' % (k + 1) for k in range(nveh)], 'profile': {'matrix': 'car'},
                                       'costs': {'fixed': rng.choice([0, 10, 50]), 'distance': 1, 'time': rng.choice([0, 1])},
                                       'shifts': [{'start': {'earliest': '2020-01-01T00:00:00Z', 'location': {'index': 0}},
                                                   'end': {'latest': '2020-01-01T08:00:00Z', 'location': {'index': 0}}}],
                                       'capacity': [rng.range(5, 12)]}],
                         'profiles': [{'name': 'car'}]}}
    matrix = {'profile': 'car', 'travelTimes': dist, 'distances': dist}
    return {'kind': 'solve', 'problem': _json.dumps(problem), 'matrix': _json.dumps(matrix), 'gens0': rng.range(40, 120),
            'gens': rng.range(1, 2), 'init_size': rng.choice([1, 1, 1, 2, 4]), 'pop': rng.choice(['greedy', 'elitism', 'default', 'default']),
            'sel': rng.choice([1, 2, 4]), 'ops': []}


def gen_evo(rng, u, kind, cfg, two):
    """the real evolution loop (EvolutionSimulator + Iterative + TelemetryHeuristicContext) over the population, seeded with
    initial solutions; offspring of every generation are scripted"""
    if kind == 'rosomaxa' and cfg['initial'] < 4:
        cfg = dict(cfg, initial=4)
    if kind != 'rosomaxa' and cfg['sel'] == 0:
        cfg = dict(cfg, sel=1)
    n_init = rng.choice([0, 1, 1, 2, 3])
    inits = [u.ind() for _ in range(n_init)]
    max_init = max(1, rng.choice([n_init, n_init, n_init + 1, n_init + 2, max(n_init - 1, 1)]))
    created = [u.ind() for _ in range(max(0, max_init - n_init))]
    gens = rng.range(1, 9)
    seeds = inits[:max_init] + created
    if len(seeds) >= 2 and rng.chance(1, 2):
        # a later seed is the strictly best one
        j = rng.range(1, len(seeds) - 1)
        seeds[j][1] = min(x[1] for x in seeds) - rng.range(1, 3)
    best = min([x[1] for x in seeds])
    offspring = []
    for g in range(gens + 2):
        k = rng.choice([0, 1, 2, 2, 3, 4])
        # mostly worse than the seed, sometimes better
        xs = []
        for _ in range(k):
            x = u.ind(best if rng.chance(1, 6) else None)
            if rng.chance(3, 4) and x[1] <= best:
                x[1] = best + rng.range(1, 4)
            xs.append(x)
        offspring.append(xs)
    return {'kind': kind, 'evo': True, 'cfg': cfg, 'two': two, 'seed': rng.below(1 << 30), 'inits': inits, 'created': created,
            'max_init': max_init, 'gens': gens, 'want': rng.range(1, 3), 'offspring': offspring, 'ops': []}


def corpus():
    return [
        # regression (fixed in 646d0ea): Greedy::add_all used to stop looking at the batch after the first accepted individual
        {'kind': 'greedy', 'cfg': {'sel': 1, 'best': []}, 'two': False, 'seed': 1,
         'ops': [{'op': 'add_all', 'xs': [[1, 5, 0, 1], [2, 3, 0, 1]]}, {'op': 'select', 'draws': [], 'hits': []}]},
        {'kind': 'greedy', 'cfg': {'sel': 2, 'best': [[1, 9, 0, 1]]}, 'two': False, 'seed': 1,
         'ops': [{'op': 'add', 'x': [2, 9, 0, 1]}, {'op': 'add', 'x': [3, 4, 0, 1]}, {'op': 'add_all', 'xs': [[4, 6, 0, 1]]},
                 {'op': 'select', 'draws': [], 'hits': []}]},
        # default dedup: 100 and 101 are twins, the earlier (better) one must stay
        {'kind': 'elitism', 'cfg': {'max': 2, 'sel': 3, 'dedup': 4}, 'two': False, 'seed': 1,
         'ops': [{'op': 'add', 'x': [1, 101, 0, 1]}, {'op': 'add', 'x': [2, 100, 0, 1]}, {'op': 'add_all', 'xs': [[3, 140, 0, 1], [4, 99, 0, 1]]},
                 {'op': 'gen', 'sp': 2, 'r': 1, 't': 0, 'g': 0, 'imp': 0}, {'op': 'select', 'draws': [5, 6, 7], 'hits': []}]},
        {'kind': 'elitism', 'cfg': {'max': 3, 'sel': 0, 'dedup': 2}, 'two': True, 'seed': 1,
         'ops': [{'op': 'add_all', 'xs': []}, {'op': 'add_all', 'xs': [[1, 5, 1, 1], [2, 5, 2, 1], [3, 4, 1, 1], [4, 7, 0, 1]]},
                 {'op': 'select', 'draws': [1, 2], 'hits': []}]},
        # rosomaxa: all three phases, a better individual arrives during exploitation
        {'kind': 'rosomaxa', 'cfg': {'initial': 4, 'sel': 7, 'elite': 2, 'node': 2, 'rebalance': 3, 'er': 32}, 'two': False, 'seed': 7,
         'ops': [{'op': 'add', 'x': [1, 20, 0, 10]}, {'op': 'add_all', 'xs': [[2, 18, 0, 30], [3, 25, 0, 50]]},
                 {'op': 'add', 'x': [4, 19, 0, 70]}, {'op': 'select', 'draws': [], 'hits': []},
                 {'op': 'gen', 'sp': 0, 'r': 16, 't': 512, 'g': 0, 'imp': 0}, {'op': 'select', 'draws': [3, 1, 1], 'hits': [1, 0, 1]},
                 {'op': 'add_all', 'xs': [[5, 17, 0, 90], [6, 30, 0, 95]]}, {'op': 'gen', 'sp': 0, 'r': 16, 't': 511, 'g': 1, 'imp': 3},
                 {'op': 'select', 'draws': [1], 'hits': [0, 1, 0]}, {'op': 'gen', 'sp': 0, 'r': 16, 't': 512, 'g': 2, 'imp': 3},
                 {'op': 'add', 'x': [7, 11, 0, 5]}, {'op': 'gen', 'sp': 2, 'r': 8, 't': 0, 'g': 3, 'imp': 0},
                 {'op': 'select', 'draws': [1, 1, 1], 'hits': []}]},
    ]


# ------------------------------------------------------------------ model term
def zi(x):
    return '(ZI %s %s %s %s)' % (z(x[0]), z(x[1]), z(x[2]), z(x[3]))


def zop(o):
    if o['op'] == 'add':
        return '(ZAdd %s)' % zi(o['x'])
    if o['op'] == 'add_all':
        return '(ZAddAll %s)' % lst(o['xs'], zi)
    if o['op'] == 'gen':
        return '(ZGen %s %s %s)' % (z(o['sp']), z(o['r']), z(o['t']))
    return '(ZSelect %s %s)' % (zlist(o['draws']), zlist(o['hits']))


def model_term(c):
    if c['kind'] == 'solve':
        return None   # the vrp-core search is not modelled: oracle only
    if c.get('evo'):
        return None   # statistics (speed) depend on wall-clock time: the loop is checked by the oracle only (theorem C08_seeded_never_worse covers every statistics sequence)
    ops = lst(c['ops'], zop)
    cfg = c['cfg']
    # (trace after every operation, panicked, the bools returned by the add / add_all operations)
    if c['kind'] == 'greedy':
        a = '%s %s %s' % (z(cfg['sel']), lst(cfg['best'], zi), ops)
        return '(run_greedy %s, rets_greedy %s)' % (a, a)
    if c['kind'] == 'elitism':
        a = '%s %s %s %s %s' % (z(cfg['max']), z(cfg['sel']), z(cfg['dedup']), boolean(c['two']), ops)
        return '(run_elitism %s, rets_elitism %s)' % (a, a)
    a = '%s %s %s %s %s %s' % (z(cfg['initial']), z(cfg['sel']), z(cfg['elite']), z(cfg['er']), boolean(c['two']), ops)
    return '(run_rosomaxa %s, rets_rosomaxa %s)' % (a, a)


# ------------------------------------------------------------------ compare (model vs implementation)
def compare(c, impl, model):
    trace, panicked, rets = model
    panicked = (panicked == 'true')
    if 'panic' in impl:
        return None if panicked else 'implementation panicked (%s), the model did not' % impl['panic'][:200]
    if panicked:
        return 'the model panics (Network::new on fewer than 4 individuals) but the implementation returned'
    got = impl['trace']
    if len(got) != len(trace):
        return 'trace length: impl %d model %d' % (len(got), len(trace))
    for k, (o, gi, mi) in enumerate(zip(c['ops'], got, trace)):
        mphase, mranked, msel = mi
        if gi['phase'] != mphase:
            return 'op %d (%s): selection phase impl %s model %s' % (k, o['op'], gi['phase'], mphase)
        ids = [p[0] for p in gi['ranked']]
        if ids != mranked:
            return 'op %d (%s): ranked ids impl %s model %s' % (k, o['op'], ids, mranked)
        if o['op'] in ('add', 'add_all'):
            # the bool the operation returned (theorems C08_add_returns_*)
            want = {1: True, 0: False}.get(rets[k]) if k < len(rets) else None
            if gi.get('ret') is not want:
                return 'op %d (%s): returned %r, model %r' % (k, o['op'], gi.get('ret'), want)
        if o['op'] == 'select':
            sids = [p[0] for p in gi['sel']]
            if c['kind'] == 'rosomaxa' and mphase == 1:
                # exploration: only the elite part of the selection is modelled (the node part comes from the network)
                if sids[:len(msel)] != msel:
                    return 'op %d (select, exploration): elite prefix impl %s model %s' % (k, sids, msel)
            elif sids != msel:
                return 'op %d (select): impl %s model %s' % (k, sids, msel)
    return None


# ------------------------------------------------------------------ oracle (the property on the implementation's own output)
def max_size(c):
    if c['kind'] == 'greedy':
        return 1
    return c['cfg']['max'] if c['kind'] == 'elitism' else c['cfg']['elite']


def expects_panic(c):
    """malformed configuration stream: Rosomaxa with initial_size < 4 cannot build its network"""
    return c['kind'] == 'rosomaxa' and c['cfg']['initial'] < 4


def oracle_evo(c, impl):
    kind = c['kind']
    if 'panic' in impl:
        return [{'class': '%s-evo-panic' % kind, 'what': 'evolution panicked: ' + impl['panic'][:200]}]
    v = []
    seeds = c['inits'][:c['max_init']] + c['created'] + (c['cfg']['best'] if kind == 'greedy' else [])
    if [p[0] for p in impl['created']] != [x[0] for x in c['created']]:
        return [{'class': 'harness-evo-created-mismatch', 'what': 'initial operator calls %s, expected %s' % (impl['created'], c['created'])}]
    ngen = len(impl['parents'])
    offered = {x[0]: x[1] for x in seeds}
    res = impl['result']
    for g in range(ngen):
        for p in impl['parents'][g]:
            if offered.get(p[0]) != p[1]:
                v.append({'class': '%s-evo-parent-not-offered' % kind, 'what': 'generation %d: parent %s was never offered' % (g, p)})
        if not impl['parents'][g]:
            v.append({'class': '%s-evo-no-parents' % kind, 'what': 'generation %d: nothing selected from a seeded population' % g})
        for x in c['offspring'][g] if g < len(c['offspring']) else []:
            offered[x[0]] = x[1]
    if not res:
        v.append({'class': '%s-evo-no-result' % kind, 'what': 'seeded evolution returned no solution'})
        return v[:3]
    keys = [p[1] for p in res]
    if keys[0] > min(x[1] for x in seeds):
        v.append({'class': '%s-evo-result-worse-than-initial' % kind,
                  'what': 'result %s is worse than an initial solution (keys %s)' % (res[0], [x[1] for x in seeds])})
    elif kind != 'greedy' and keys[0] > min(offered.values()):
        v.append({'class': '%s-evo-best-lost' % kind, 'what': 'result %s is worse than offered minimum %d' % (res[0], min(offered.values()))})
    if any(a > b for a, b in zip(keys, keys[1:])) or len(res) > c['want']:
        v.append({'class': '%s-evo-result-unsorted-or-too-long' % kind, 'what': 'result %s' % res})
    for p in res:
        if offered.get(p[0]) != p[1]:
            v.append({'class': '%s-evo-result-not-offered' % kind, 'what': 'result individual %s was never offered' % p})
    return v[:3]


def oracle_solve(c, impl):
    if 'panic' in impl:
        return [{'class': 'solve-panic', 'what': 'seeded solve panicked: ' + impl['panic'][:300]}]
    v = []
    if impl['result_vs_given'] > 0:
        why = 'initial-reader-degrades-solution' if impl['read_vs_given'] > 0 else 'result-worse-than-initial'
        v.append({'class': 'solve-seeded-%s-%s' % (why, c['pop']),
                  'what': 'seeded solve returned fitness %s, the initial solution had %s (as read back: %s)' % (
                      impl['fit_result'], impl['fit_given'], impl['fit_read'])})
    return v


def _rel_lt(den, a, b):
    m = max(abs(a), abs(b))
    return True if m == 0 else den * abs(a - b) < m


def py_dedup(c, x, y):
    """the dedup predicate of the case (x = later individual, y = earlier/retained one), same as zdedup in Model/Population.v"""
    mode = c['cfg']['dedup'] if c['kind'] == 'elitism' else 5
    if mode == 0:
        return False
    if mode == 1:
        return x[2] == y[2]
    if mode == 2:
        return (x[2] + 2 * y[2]) % 3 == 0
    if mode == 3:
        return True
    if mode == 4:
        return _rel_lt(20, x[1], y[1])
    if x[1] == y[1]:
        return x[2] == y[2] if c['two'] else True
    return _rel_lt(50, x[3], y[3])


def oracle(c, impl):
    if c['kind'] == 'solve':
        return oracle_solve(c, impl)
    if c.get('evo'):
        return oracle_evo(c, impl)
    if 'panic' in impl:
        if expects_panic(c):
            return []
        return [{'class': '%s-panic' % c['kind'], 'what': 'population operation panicked: ' + impl['panic'][:200]}]
    kind = c['kind']
    v = []
    seen = set()

    def add(cls, what):
        if cls not in seen:
            seen.add(cls)
            v.append({'class': cls, 'what': what})

    offered = {}
    info = {}
    prev_ids = []
    if kind == 'greedy':
        for x in c['cfg']['best']:
            offered[x[0]] = x[1]
            info[x[0]] = x
            prev_ids = [x[0]]
    sel_cfg = c['cfg']['sel']
    slow = False
    slow_r = 16
    prev_best = min(offered.values()) if offered else None      # Greedy::new may be given a best_known
    lost_before = False
    size_before = False
    unsorted_before = False
    for k, (o, g) in enumerate(zip(c['ops'], impl['trace'])):
        batch = []
        if o['op'] == 'add':
            batch = [o['x']]
        elif o['op'] == 'add_all':
            batch = o['xs']
        for x in batch:
            offered[x[0]] = x[1]
            info[x[0]] = x
        if o['op'] == 'gen' and kind == 'elitism':
            slow = (o['sp'] == 2)
            slow_r = o['r']
        ranked = g['ranked']
        keys = [p[1] for p in ranked]
        where = 'op %d (%s)' % (k, o['op'])
        ph = ('-p%d' % g['phase']) if kind == 'rosomaxa' else ''
        # ranking sorted
        if (any(a > b for a, b in zip(keys, keys[1:])) or any(x > 0 for x in g['first_cmp'])) and not unsorted_before:
            unsorted_before = True
            add('%s%s-ranked-unsorted-after-%s' % (kind, ph, o['op']), '%s: ranked keys %s not sorted' % (where, keys))
        # size within bounds, size == what ranked shows
        if g['size'] > max_size(c) and not size_before:
            size_before = True
            add('%s%s-size-above-max-after-%s' % (kind, ph, o['op']), '%s: size %d > configured %d' % (where, g['size'], max_size(c)))
        if g['size'] != len(ranked):
            add('%s%s-size-differs-from-ranked' % (kind, ph), '%s: size %d but ranked has %d' % (where, g['size'], len(ranked)))
        for p in ranked:
            if offered.get(p[0]) != p[1]:
                add('%s%s-ranked-not-offered' % (kind, ph), '%s: ranked individual %s was never offered' % (where, p))
        # best never lost
        if offered:
            m = min(offered.values())
            if not ranked or keys[0] > m:
                if not lost_before:
                    cause = o['op']
                    if o['op'] == 'add_all':
                        # is the lost individual behind an element of the same batch that was accepted as an improvement?
                        for j, x in enumerate(batch):
                            if x[1] == m and any(y[1] < prev_best if prev_best is not None else True for y in batch[:j]):
                                cause = 'add_all-tail-after-improvement'
                                break
                    add('%s%s-best-lost-on-%s' % (kind, ph, cause),
                        '%s: best ranked %s is worse than offered minimum %d' % (where, keys[:1], m))
                lost_before = True
        # dedup: no neighbours of the ranking are twins; whatever left the population has a no-worse twin that stays,
        # or the population is full of no-worse individuals (theorems C08_no_adjacent_twins / C08_*_twin_rule)
        if kind != 'greedy' and all(p[0] in info for p in ranked):
            now = [info[p[0]] for p in ranked]
            if o['op'] in ('add', 'add_all'):
                for a, b in zip(now, now[1:]):
                    if py_dedup(c, b, a):
                        add('%s%s-adjacent-twins-in-ranked' % (kind, ph), '%s: %s is ranked directly after its twin %s' % (where, b, a))
                cands = [info[i] for i in prev_ids if i in info]
                cands += [x for x in batch if kind == 'elitism' or prev_best is None or x[1] <= prev_best]
                ids_now = set(y[0] for y in now)
                for x in cands:
                    if x[0] in ids_now:
                        continue
                    twin = any(y[1] <= x[1] and py_dedup(c, x, y) for y in now)
                    full = len(now) == max_size(c) and all(y[1] <= x[1] for y in now)
                    if not twin and not full:
                        add('%s%s-dropped-without-better-survivor' % (kind, ph),
                            '%s: %s left the population %s without a no-worse twin staying and without the population being full '
                            'of no-worse individuals' % (where, x, now))
            elif [y[0] for y in now] != prev_ids:
                add('%s%s-ranked-changed-by-%s' % (kind, ph, o['op']), '%s: ranked changed from %s to %s' % (where, prev_ids, [y[0] for y in now]))
        # the returned bool: true whenever the head got strictly better or an empty population was filled; false only when the head
        # keeps its fitness (theorems C08_add_returns_true_on_improvement / C08_add_returns_false_keeps_best_fitness)
        if o['op'] in ('add', 'add_all') and isinstance(g.get('ret'), bool) and all(p[0] in info for p in ranked):
            improved = bool(keys) and (prev_best is None or keys[0] < prev_best)
            if improved and not g['ret']:
                add('%s%s-%s-returned-false-on-improvement' % (kind, ph, o['op']),
                    '%s: best key went from %s to %s but the operation returned false' % (where, prev_best, keys[0]))
            if not g['ret'] and prev_ids and ranked and prev_ids[0] in info:
                a, b = info[prev_ids[0]], info[ranked[0][0]]
                if a[1] != b[1] or (c['two'] and a[2] != b[2]):
                    add('%s%s-%s-returned-false-but-best-fitness-changed' % (kind, ph, o['op']),
                        '%s: first ranked went from %s to %s although the operation returned false' % (where, a, b))
        # selection
        if o['op'] == 'select':
            if ranked and (sel_cfg >= 1 or slow) and ranked[0] not in g['sel']:
                add('%s%s-selection-without-best' % (kind, ph), '%s: selection %s does not contain the first ranked %s' % (where, g['sel'], ranked[0]))
            if ranked and kind in ('greedy', 'elitism'):
                # theorems C08_elitism_select_size / C08_greedy_select_size
                want = max(1, (2 * sel_cfg * slow_r + 16) // 32) if slow else sel_cfg
                if len(g['sel']) != want:
                    add('%s-selection-size' % kind, '%s: %d individuals selected, selection size is %d' % (where, len(g['sel']), want))
            if kind == 'rosomaxa' and g['phase'] == 0 and [p[0] for p in g['sel']] != list(offered.keys()):
                add('rosomaxa-p0-selection-not-all-offered', '%s: initial-phase selection %s differs from the offered sequence %s' % (
                    where, [p[0] for p in g['sel']], list(offered.keys())))
            for p in g['sel']:
                if offered.get(p[0]) != p[1]:
                    add('%s%s-selected-not-offered' % (kind, ph), '%s: selected %s was never offered' % (where, p))
            if g['size'] > 0 and not g['sel'] and (sel_cfg >= 1 or slow):
                add('%s%s-select-empty' % (kind, ph), '%s: nothing selected from a population of size %d' % (where, g['size']))
        prev_best = keys[0] if keys else None
        prev_ids = [p[0] for p in ranked]
    return v


# ------------------------------------------------------------------ statistics / shrinking
def nontrivial_key(c, impl):
    if 'panic' in impl:
        return None
    if c['kind'] == 'solve':
        return ('solve', c['problem'], c['gens0'], c['gens'], c['pop'])
    if c.get('evo'):
        return ('evo', c['kind'], str(c['cfg']), str(c['inits']), str(c['offspring'])) if len(impl['parents']) > 1 else None
    n_off = sum(1 if o['op'] == 'add' else len(o['xs']) if o['op'] == 'add_all' else 0 for o in c['ops'])
    tr = impl['trace']
    if not tr:
        return None
    phases = tuple(sorted(set(g['phase'] for g in tr)))
    dropped = n_off > tr[-1]['size']
    if dropped or len(phases) > 1:
        return (c['kind'], str(c['cfg']), str(c['ops']))
    return None


def classify(c, impl):
    labs = ['kind=' + c['kind']]
    if c['kind'] == 'solve':
        if 'panic' not in impl:
            labs.append('solve-result-vs-initial=%d' % impl['result_vs_given'])
        return labs + ['solve-pop=' + c['pop']]
    if c.get('evo'):
        return labs + ['evo', 'evo-' + c['kind']]
    if c['kind'] == 'elitism':
        labs.append('dedup=%d' % c['cfg']['dedup'])
    if 'panic' in impl:
        labs.append('panic')
        return labs
    tr = impl['trace']
    if c['kind'] == 'rosomaxa' and tr:
        labs.append('phases=' + ''.join(str(p) for p in sorted(set(g['phase'] for g in tr))))
        for o, g in zip(c['ops'], tr):
            if o['op'] in ('add', 'add_all'):
                labs.append('add-in-phase-%d' % g['phase'])
            if o['op'] == 'select':
                labs.append('select-in-phase-%d' % g['phase'])
    if any(o['op'] == 'add_all' and len(o['xs']) == 0 for o in c['ops']):
        labs.append('empty-batch')
    return labs


_SHRINK_BUDGET = [120]   # shrink rounds per process: a broken tree yields hundreds of failing cases, minimising a few is enough


def shrink_candidates(c):
    _SHRINK_BUDGET[0] -= 1
    if _SHRINK_BUDGET[0] < 0 or c.get('evo') or c['kind'] == 'solve':
        return
    ops = c['ops']
    for i in range(len(ops)):
        d = dict(c)
        d['ops'] = ops[:i] + ops[i + 1:]
        yield d
    for i, o in enumerate(ops):
        if o['op'] == 'add_all' and len(o['xs']) > 1:
            for j in range(len(o['xs'])):
                d = dict(c)
                o2 = dict(o)
                o2['xs'] = o['xs'][:j] + o['xs'][j + 1:]
                d['ops'] = ops[:i] + [o2] + ops[i + 1:]
                yield d


MANIFEST_TEXT = ('Machine-checked proof (Coq, no axioms) over an executable model of Greedy, Elitism (extend / stable sort / dedup_by with an '
                 'arbitrary predicate / truncate, selection with index oracle and the Slow-speed size rule) and Rosomaxa (elite + '
                 'comparable-with-best filter + Initial/Exploration/Exploitation phase machine, network abstracted to a bag of offered '
                 'individuals): for every total preorder and every history of add / add_all / on_generation / select / ranked from a valid '
                 'configuration, the first ranked individual is an offered one and no worse than every offered one, ranked is sorted, size <= '
                 'configured bound, selections are offered individuals, contain the head and are non-empty when the population is, phases only '
                 'move forward, the ranking depends on the offering operations only, the twin rule of dedup holds, add / add_all return true '
                 'whenever the head improves. The configuration side of the last clause is modelled too (Model/EvoConfig.v): '
                 'EvolutionConfigBuilder as a state machine over its setters in ANY order, build, EvolutionSimulator::new/run (seeds before '
                 'anything else, take(max_size), operator slots, quota test, processing hooks), get_default_population, the setter sequences of '
                 'VrpConfigBuilder::prebuild and vrp-cli: the seeds offered are those of the LAST with_init_solutions whatever is called before or '
                 'after it, and the run returns a solution no worse than each of the first max_size seeds, every created individual and every '
                 'offspring. Tied to /repo on every run: histories through the real populations (public trait, scripted Random) and setter sequences '
                 'in random orders through the real EvolutionConfigBuilder + EvolutionSimulator on rosomaxa::example over a recording population '
                 '(plus vrp-cli create_builder_from_config with a seed) are diffed with the model evaluated inside Coq (vm_compute), and the '
                 'property is evaluated directly on the implementation output.')
MANIFEST_NOTE = ('Trusted: Coq kernel + vm_compute; harness, generators, comparison; std semantics of sort_by (stable), dedup_by, truncate. '
                 'Only validated, not proved: what the GSOM network returns during Exploration selections (checked to be offered individuals), '
                 'f64 arithmetic of the dedup distances and ratio rules on the dyadic/integer data used, deep_copy/on_init preserving individuals. '
                 'vrp-core Solver + pragmatic initial_reader + vrp-cli create_builder_from_config are exercised end to end (seed offered first, seeded solve '
                 'no worse than the given solution) but their search is not modelled; processing hooks are assumed not to worsen a solution / to keep a fresh population; '
                 'a custom EvolutionStrategy (with_strategy) is user code: no claim.')
MANIFEST_TECHNIQUE = 'Coq proof over executable model + vm_compute differential correspondence with the Rust implementation'
