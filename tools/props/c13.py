"""C13 — scientific instance files (Solomon, Li&Lim, TSPLIB CVRP/EUC_2D) are read faithfully (plugin for tools/verif.py).

Python generates ABSTRACT instances, prints them in the three text grammars (random white space incl. TAB/CR/VT/FF, header
lines, '+' signs / leading zeros / decimal and exponent spellings of the numbers), the harness feeds the text to the real
read_solomon/read_lilim/read_tsplib and dumps the core Problem; the Coq model reads THE SAME CHARACTERS (Model/SciText.v:
read_line, split_whitespace, str::parse, split(':'), then the token-level readers of Model/Scientific.v) under vm_compute.
oracle = impl dump vs. the abstract instance (independent of the model); compare = impl dump vs. model.
Further streams: initial-solution text round trip (written text compared character by character), the std text primitives,
sub-stream c13_bind (do capacity / time windows of the read problem bind as the file says)."""
import math, re, struct
from fractions import Fraction

ID = 'C13'
HARNESS = 'c13'
COQ_IMPORTS = 'From VRP Require Import Base.Tac Model.Scientific Model.SciText.\nFrom Coq Require Import String.'
MODEL_TARGETS = ['theories/Model/Scientific.vo', 'theories/Model/SciText.vo']
SUBSTREAMS = ['c13_bind']
SIZES = {'quick': 1400, 'thorough': 12000, 'search': 6000}
RULE = ('cases: abstract Solomon / Li&Lim / TSPLIB instances (0-8 customers or 0-4 pickup-delivery requests; coordinates mostly '
        'on a small grid so that customers share locations with each other and with the depot, sometimes large/negative; '
        'demands near the capacity; windows, service times, fleet size 1-6; TSPLIB coordinates optionally as decimals incl. '
        'exact .5 ties; Li&Lim lines in shuffled order) printed as CHARACTERS with random white space (space, TAB, CR, VT, FF), '
        'header lines, trailing newline, and random spellings of every number that the Rust parser of that column accepts '
        '("+5", "007", "-0"; for the f64 route of TSPLIB also "5.", "5e0", "50e-1", "0.5e1"); rounded and unrounded distances; '
        'every third case through the vrp-cli format registry (reader, initial-solution reader and writer of the format name; '
        'a few unknown names); ~8% "exotic" texts (numbers at the i32 limits, doubles next to a rounding tie, inf / nan / huge '
        'exponents in TSPLIB) compared with the model field by field; ~12% malformed texts (token dropped/replaced by a word or '
        'an out-of-range / mis-signed number, line dropped/duplicated/blank, wrong key, truncated) compared on {Ok,Err,Panic}; '
        '~22% initial-solution round trips (random route sets incl. empty routes, INCOMPLETE ones and ones with an id in two '
        'routes; dyadic costs incl. ties of the 3rd decimal; hand-made init texts with junk lines / unknown ids / too many '
        'routes / "+7" or "007" ids); ~3% the std primitives alone (read_line + split_whitespace, str::parse of i32 / usize / f64). '
        'non-trivial = distinct valid instance text with >= 2 jobs, or an init case with >= 2 routes.')
TRUSTED = ['Rust string literals reach Coq unchanged (the generated case file holds the text as a Coq string literal; 7-bit ASCII only)',
           'f64::from_str is correctly rounded (documented) - the model computes the nearest-even double of the decimal exactly; '
           'f64 sqrt is correctly rounded (IEEE-754) and equals Python math.sqrt; round(sqrt(s)) has no ties for integer s < 2^40',
           'Jobs::new, Fleet::new and goal construction do not change the observed fields (validated on every run, not modelled); '
           'the constraints of the constructed goal are exercised by sub-stream c13_bind',
           'HashMap iteration order of the TSPLIB reader is an oracle argument of the model; comparison is canonical by job id']
ASSUMPTIONS = ['coordinates |x| < 2^19 so that squared distances are exact in f64 and round(sqrt) is tie-free (distances are not compared on exotic texts)',
               'ids, demands, times are i32 values; ids/service/fleet/capacity non-negative in well-formed instances',
               'instance / solution texts are 7-bit ASCII (UTF-8 decoding and the non-ASCII white space of char::is_whitespace are outside the model)']

I32_MIN, I32_MAX = -2 ** 31, 2 ** 31 - 1


# ------------------------------------------------------------------ rendering for Coq
def coq_str(text):
    """a Coq string literal holding exactly the characters of text (control characters are written raw)"""
    assert all(ord(ch) < 128 and ch != '\0' for ch in text), 'generated texts are 7-bit ASCII'
    return '"' + text.replace('"', '""') + '"%string'


def zl(xs):
    return '[' + '; '.join(('(%d)' % x) if x < 0 else str(x) for x in xs) + ']'


# ------------------------------------------------------------------ printing with random layout
WORDS = ['C101', 'VEHICLE', 'NUMBER', 'CAPACITY', 'CUSTOMER', 'CUST', 'NO.', 'XCOORD.', 'YCOORD.', 'DEMAND', 'READY', 'TIME',
         'DUE', 'DATE', 'SERVICE', 'x', 'test', 'abc']


def sep(rng):
    return rng.choice([' ', ' ', ' ', '  ', '\t', '   ', ' \t ', '\x0b', ' \x0c', '\r '])


def fmt_line(rng, toks, pretty):
    if pretty:
        return ' '.join(toks)
    lead = rng.choice(['', '', ' ', '    ', '\t'])
    trail = rng.choice(['', '', ' ', '\r', ' \t', '\x0c', '\x0b\r'])
    out = lead
    for k, t in enumerate(toks):
        if k:
            out += sep(rng)
        out += t
    return out + trail


def spell(rng, v, kind, plain=False):
    """a text that Rust's str::parse of the column's type (kind: 'i32' | 'usize' | 'f64') reads as the integer v"""
    s = str(v)
    if plain or not rng.chance(1, 5):
        return s
    k = rng.below(6 if kind == 'f64' else 3)
    a, neg = str(abs(v)), v < 0
    sign = '-' if neg else ''
    if k == 0 or (k == 2 and (v != 0 or kind == 'usize')):
        return s if neg else '+' + s
    if k == 1:
        return sign + '0' * rng.range(1, 3) + a
    if k == 2:
        return '-0'
    if k == 3:
        return s + rng.choice(['.', '.0', '.000', 'e0', 'E0', 'e+0', 'e-0', '.0E+00'])
    if k == 4:
        return s + '0' + rng.choice(['e-1', 'E-1', '.0e-1'])
    return sign + (a[:-1] or '0') + '.' + a[-1] + rng.choice(['e1', 'E+1', 'e01'])


EXOTIC_F64 = ['2.4999999999999999999', '0.49999999999999999', '1e3', '-1E2', 'inf', '-inf', 'nan', 'NaN', 'Infinity', '-INFINITY',
              '1e400', '-1e-400', '2147483647.5', '-2147483648.5', '3000000000', '-3000000000', '12345678.5', '0.5', '1.5', '2.5',
              '-0.5', '+.5e1', '5.e-1', '-0', '1e999999999', '1e-999999999', '4.5000000000000000001', '1.4999999999999998',
              '1.49999999999999989', '8388608.5', '8388607.5', '4503599627370496.5', '0.500000000000000000000000001',
              '1073741823.5', '0.25', '0.2500000000000000000001', '6.5', '-6.5', '1.5e0', '15e-1', '0.15E+1', '99999999999999999999']
EXOTIC_I32 = ['+0', '-0', '0000', '2147483647', '-2147483648', '+7', '-007', '00012', '+2147483647']
EXOTIC_NAT = ['+0', '0000', '2147483647', '+7', '00012', '007']
BAD_NUMBERS = ['2147483648', '-2147483649', '-2147483648', '-2147483648', '-inf', '18446744073709551616', '99999999999999999999', '+', '-', '--5', '+-5', '5:', '0x10',
               '1_000', '1e3', '5.', '.5', 'inf', 'nan', '1.5', '-0', '+ 5', '5-', '']


def junk_line(rng):
    n = rng.below(5)
    return ' '.join(rng.choice(WORDS) for _ in range(n))


def join_lines(rng, lines):
    text = '\n'.join(lines)
    if rng.chance(4, 5):
        text += '\n'
    return text


# ------------------------------------------------------------------ abstract instances
def gen_coord(rng, mode):
    if mode == 0:
        return (rng.range(0, 4), rng.range(0, 4))
    if mode == 1:
        return (rng.range(0, 100), rng.range(0, 100))
    if mode == 2:
        return (rng.range(-60, 60), rng.range(-60, 60))
    return (rng.range(-300000, 300000), rng.range(-300000, 300000))


def gen_tw(rng):
    a = rng.range(0, 200)
    if rng.chance(1, 8):
        return (a, a)
    return (a, a + rng.range(1, 1000))


def gen_ids(rng, n, start=1):
    if rng.chance(3, 4):
        return list(range(start, start + n))
    pool = rng.shuffle(list(range(0, 3 * n + 5)))
    ids = pool[:n]
    if rng.chance(1, 6):
        ids = [x * rng.range(1, 1000) + 100000 for x in ids]
        ids = list(dict.fromkeys(ids))
        while len(ids) < n:
            ids.append(max(ids) + 1)
    return ids


def gen_solomon(rng, init=False):
    n = rng.choice([0, 1, 1, 2, 2, 3, 3, 4, 5, 6, 8])
    if init:
        n = max(n, 1)
    mode = rng.choice([0, 0, 0, 1, 1, 2, 3])
    cap = rng.choice([rng.range(0, 30), rng.range(1, 200), 200, 1000])
    ids = gen_ids(rng, n)
    if n >= 2 and not init and rng.chance(1, 10):
        ids[rng.below(n)] = ids[rng.below(n)]          # duplicate customer numbers are read as they are
    custs = []
    for i in range(n):
        x, y = gen_coord(rng, mode)
        s, e = gen_tw(rng)
        dem = rng.choice([0, 1, cap, cap + 1, max(cap - 1, 0), rng.range(0, 50), rng.range(0, 50)])
        custs.append({'id': ids[i], 'x': x, 'y': y, 'dem': dem, 's': s, 'e': e, 'srv': rng.choice([0, 0, 10, 90, rng.range(0, 50)])})
    dx, dy = gen_coord(rng, mode)
    if custs and rng.chance(1, 4):
        c = rng.choice(custs)
        dx, dy = c['x'], c['y']
    ds, de = 0, rng.range(100, 3000)
    if rng.chance(1, 6):
        ds = rng.range(1, 50)
    depot = {'id': rng.choice([0, 0, 0, 7]), 'x': dx, 'y': dy, 'dem': rng.choice([0, 0, 3]), 's': ds, 'e': de, 'srv': rng.choice([0, 0, 5])}
    number = rng.range(1, 6)
    if init:
        number = max(number, 2)
    return {'fmt': 'solomon', 'number': number, 'cap': cap, 'depot': depot, 'custs': custs}


def print_solomon(rng, I, pretty=False):
    if pretty:
        h1 = ['C101', '', 'VEHICLE', 'NUMBER     CAPACITY']
        h2 = ['', 'CUSTOMER', 'CUST NO.  XCOORD.   YCOORD.    DEMAND   READY TIME  DUE DATE   SERVICE   TIME', '']
    else:
        h1 = [junk_line(rng) for _ in range(4)]
        h2 = [junk_line(rng) for _ in range(4)]

    ex = bool(I.get('exotic')) and not pretty

    def cl(c, extra=False):
        t = [spell(rng, c[k], 'i32', pretty) for k in ('id', 'x', 'y', 'dem', 's', 'e', 'srv')]
        if ex:
            for col in (1, 2, 4, 5):
                if rng.chance(1, 3):
                    t[col] = rng.choice(EXOTIC_I32)
            for col in (0, 3, 6):
                if rng.chance(1, 5):
                    t[col] = rng.choice(EXOTIC_NAT)
        if extra:
            t += [rng.choice(['0', 'x', '17', 'TIME'])]
        return fmt_line(rng, t, pretty)
    vt = [spell(rng, I['number'], 'usize', pretty), spell(rng, I['cap'], 'usize', pretty)]
    if ex and rng.chance(1, 3):
        vt[1] = rng.choice(EXOTIC_NAT + ['18446744073709551615', '4294967296', '2147483648'])
    if not pretty and rng.chance(1, 10):
        vt.append(rng.choice(['1', 'speed']))
    lines = h1 + [fmt_line(rng, vt, pretty)] + h2 + [cl(I['depot'], not pretty and rng.chance(1, 12))]
    lines += [cl(c, not pretty and rng.chance(1, 12)) for c in I['custs']]
    return join_lines(rng, lines)


def gen_lilim(rng):
    nreq = rng.choice([0, 1, 1, 2, 2, 3, 4])
    mode = rng.choice([0, 0, 1, 1, 2, 3])
    cap = rng.choice([rng.range(1, 30), rng.range(1, 200), 200])
    ids = gen_ids(rng, 2 * nreq)
    ids = rng.shuffle(ids) if rng.chance(1, 2) else ids
    reqs = []
    for r in range(nreq):
        q = rng.choice([1, cap, cap + 1, rng.range(1, 40), rng.range(1, 40)])
        nodes = []
        for k in range(2):
            x, y = gen_coord(rng, mode)
            s, e = gen_tw(rng)
            nodes.append({'id': ids[2 * r + k], 'x': x, 'y': y, 's': s, 'e': e, 'srv': rng.choice([0, 10, 90, rng.range(0, 50)])})
        reqs.append({'p': nodes[0], 'd': nodes[1], 'q': q})
    dx, dy = gen_coord(rng, mode)
    if reqs and rng.chance(1, 4):
        n0 = rng.choice(reqs)[rng.choice(['p', 'd'])]
        dx, dy = n0['x'], n0['y']
    depot = {'id': 0, 'x': dx, 'y': dy, 's': 0, 'e': rng.range(100, 3000), 'srv': 0}
    # file layout: pickups keep their relative order (job index = order of pickups), deliveries anywhere
    order = []
    for r in range(nreq):
        order.append(('p', r))
    for r in range(nreq):
        pos = rng.below(len(order) + 1) if rng.chance(1, 2) else [k for k, o in enumerate(order) if o == ('p', r)][0] + 1
        order.insert(pos, ('d', r))
    return {'fmt': 'lilim', 'number': rng.range(1, 6), 'cap': cap, 'speed': rng.choice([1, 1, 2]), 'depot': depot, 'reqs': reqs,
            'order': [[k, r] for k, r in order]}


def print_lilim(rng, I, pretty=False):
    def nl(n, dem, psib, dsib):
        t = [spell(rng, v, 'i32', pretty) for v in (n['id'], n['x'], n['y'], dem, n['s'], n['e'], n['srv'], psib, dsib)]
        return '\t'.join(t) if pretty else fmt_line(rng, t, False)
    lines = [fmt_line(rng, [spell(rng, I[k], 'usize', pretty) for k in ('number', 'cap', 'speed')], pretty)]
    lines.append(nl(I['depot'], 0, 0, 0))
    for k, r in I['order']:
        rq = I['reqs'][r]
        if k == 'p':
            lines.append(nl(rq['p'], rq['q'], 0, rq['d']['id']))
        else:
            lines.append(nl(rq['d'], -rq['q'], rq['p']['id'], 0))
    return join_lines(rng, lines)


def dec_str(rng, v, style):
    """print the integer v (style 0: any spelling f64::from_str reads as v), v.000 (style 1), or a genuine decimal that
    rounds to v (style 2)"""
    if style == 0:
        return spell(rng, v, 'f64')
    if style == 1:
        return '%d.%s' % (v, '0' * rng.range(1, 5))
    # style 2: v + f with |f| <= .5 (ties away from zero)
    sign = -1 if v < 0 else 1
    a = abs(v)
    kind = rng.below(4)
    if kind == 0:                       # below: a - 0.5 exactly rounds (away from zero) to a, needs a >= 1
        if a >= 1:
            s = '%d.5' % (a - 1)
            if rng.chance(1, 2):
                s += '0' * rng.range(1, 2)
        else:
            s = '0.%s' % rng.choice(['0', '25', '499'])
    elif kind == 1:
        s = '%d.%s' % (a, rng.choice(['25', '499', '4', '001']))
    elif kind == 2 and a >= 1:
        s = '%d.%s' % (a - 1, rng.choice(['75', '501', '6', '999']))
    else:
        s = '%d.%s' % (a, rng.choice(['0', '125']))
    return ('-' if sign < 0 and a > 0 else '') + s


def gen_tsplib(rng, init=False):
    n = rng.choice([1, 2, 2, 3, 3, 4, 5, 6, 8, 9])
    if init:
        n = max(n, 2)
    mode = rng.choice([0, 0, 1, 1, 2, 3])
    cap = rng.choice([rng.range(0, 30), rng.range(1, 200), 100])
    ids = list(range(1, n + 1)) if rng.chance(4, 5) else gen_ids(rng, n)
    if rng.chance(1, 5):
        ids = rng.shuffle(ids)
    nodes = []
    for i in range(n):
        x, y = gen_coord(rng, mode)
        nodes.append({'id': ids[i], 'x': x, 'y': y, 'dem': rng.choice([0, 1, cap, cap + 1, rng.range(0, 50), rng.range(0, 50)])})
    depot = ids[0] if rng.chance(3, 4) else rng.choice(ids)
    for nd in nodes:
        if nd['id'] == depot:
            nd['dem'] = rng.choice([0, 0, 0, 5])
    if n >= 2 and rng.chance(1, 4):
        a, b = rng.below(n), rng.below(n)
        nodes[a]['x'], nodes[a]['y'] = nodes[b]['x'], nodes[b]['y']
    return {'fmt': 'tsplib', 'cap': cap, 'depot': depot, 'nodes': nodes, 'style': rng.choice([0, 0, 1, 2])}


def print_tsplib(rng, I, pretty=False):
    def kv(k, v):
        if pretty:
            return '%s : %s' % (k, v)
        return rng.choice(['', ' ', '\t']) + k + rng.choice([' : ', ': ', ' :', ':', '  :\t', '\x0c:\x0b']) + v + rng.choice(['', ' ', '\r', '\x0c'])
    style = 0 if pretty else I['style']
    ex = bool(I.get('exotic')) and not pretty

    def num(v, st=0):
        if pretty:
            return str(v)
        if ex and rng.chance(1, 3):
            return rng.choice(EXOTIC_F64)
        return dec_str(rng, v, st)
    lines = [kv('NAME', 'test'), kv('COMMENT', 'generated instance')] if pretty or rng.chance(1, 2) else [junk_line(rng), junk_line(rng)]
    lines += [kv('TYPE', 'CVRP'), kv('DIMENSION', str(len(I['nodes'])) if pretty or rng.chance(3, 4) else spell(rng, len(I['nodes']), 'f64')),
              kv('EDGE_WEIGHT_TYPE', 'EUC_2D'),
              kv('CAPACITY', num(I['cap'], 1 if style and rng.chance(1, 4) else 0))]
    lines.append(fmt_line(rng, ['NODE_COORD_SECTION'], pretty))
    for nd in I['nodes']:
        lines.append(fmt_line(rng, [str(nd['id']) if pretty or rng.chance(3, 4) else spell(rng, nd['id'], 'f64'),
                                    num(nd['x'], style), num(nd['y'], style)], pretty))
    lines.append(fmt_line(rng, ['DEMAND_SECTION'], pretty))
    dn = I['nodes'] if pretty or rng.chance(2, 3) else rng.shuffle(I['nodes'])
    for nd in dn:
        lines.append(fmt_line(rng, [str(nd['id']) if pretty or rng.chance(3, 4) else spell(rng, nd['id'], 'f64'), num(nd['dem'])], pretty))
    lines += [fmt_line(rng, ['DEPOT_SECTION'], pretty),
              fmt_line(rng, [str(I['depot']) if pretty or rng.chance(3, 4) else spell(rng, I['depot'], 'f64')], pretty),
              fmt_line(rng, ['-1'], pretty), fmt_line(rng, ['EOF'], pretty)]
    return join_lines(rng, lines)


PRINT = {'solomon': print_solomon, 'lilim': print_lilim, 'tsplib': print_tsplib}
GEN = {'solomon': gen_solomon, 'lilim': gen_lilim, 'tsplib': gen_tsplib}


def job_ids_of(I):
    if I['fmt'] == 'solomon':
        return [c['id'] for c in I['custs']]
    if I['fmt'] == 'tsplib':
        return [nd['id'] - 1 for nd in I['nodes'] if nd['id'] != I['depot']]
    return []


def nveh_of(I):
    return len(I['nodes']) if I['fmt'] == 'tsplib' else I['number']


# ------------------------------------------------------------------ malformed stream
def mutate_text(rng, text, fmt):
    lines = text.split('\n')
    body = [k for k, l in enumerate(lines) if l.strip()]
    k = rng.below(8)
    if fmt == 'tsplib' and rng.chance(1, 3):
        k = 7
    if k == 0 and body:                       # drop a token
        i = rng.choice(body)
        t = lines[i].split()
        del t[rng.below(len(t))]
        lines[i] = ' '.join(t)
    elif k == 1 and body:                     # replace a token by a word / a number the column's parser rejects or saturates
        i = rng.choice(body)
        t = lines[i].split()
        # never a huge count: the fleet size (Solomon line 5, Li&Lim line 1) and DIMENSION are allocated eagerly by the readers
        counts = (fmt == 'solomon' and i == 4) or (fmt == 'lilim' and i == 0) or 'DIMENSION' in lines[i]
        pool = ['abc', 'x', 'N/A', 'CVRPTW', '1.5', '--']
        if not counts:
            pool = pool + BAD_NUMBERS
        t[rng.below(len(t))] = rng.choice(pool) or 'x'
        lines[i] = ' '.join(t)
    elif k == 2 and lines:                    # drop a line
        del lines[rng.below(len(lines))]
    elif k == 3 and lines:                    # duplicate a line
        i = rng.below(len(lines))
        lines.insert(i, lines[i])
    elif k == 4:                              # blank line somewhere
        lines.insert(rng.below(len(lines) + 1), rng.choice(['', ' ', '\t']))
    elif k == 5 and lines:                    # truncate
        lines = lines[:rng.below(len(lines))]
    elif k == 6 and body:                     # extra small token
        i = rng.choice(body)
        t = lines[i].split()
        t.insert(rng.below(len(t) + 1), rng.choice(['0', '1', '-1', '3']))
        lines[i] = ' '.join(t)
    else:                                     # colon damage (matters for TSPLIB keys and init texts only)
        if body:
            keyed = [j for j in body if ':' in lines[j]]
            i = rng.choice(keyed) if keyed and rng.chance(3, 4) else rng.choice(body)
            if ':' in lines[i] and rng.chance(1, 2):
                # a second colon AFTER a well-formed "KEY : value" (split(':') yields three parts)
                lines[i] = lines[i].rstrip('\r\x0c ') + rng.choice([' :', ' : 7', ':', ' :x'])
            elif ':' in lines[i]:
                lines[i] = lines[i].replace(':', rng.choice(['', '::', ' ']), 1)
            else:
                lines[i] = lines[i] + ' :'
    return '\n'.join(lines)


# ------------------------------------------------------------------ generation
def make_read_case(rng, fmt, malformed, exotic=False):
    I = GEN[fmt](rng)
    pretty = rng.chance(1, 6) and not exotic
    if exotic:
        I['exotic'] = True
        if fmt == 'tsplib' and rng.chance(1, 8):
            # `id - 1` on i32 overflows for i32::MIN (a panic in the checked build the harness uses)
            others = [nd for nd in I['nodes'] if nd['id'] != I['depot']]
            if others:
                others[rng.below(len(others))]['id'] = I32_MIN
    text = PRINT[fmt](rng, I, pretty)
    rounded = rng.chance(1, 2)
    if malformed:
        text = mutate_text(rng, text, fmt)
        return {'op': 'read', 'fmt': fmt, 'text': text, 'rounded': rounded, 'inst': None, 'malformed': True}
    if exotic:
        return {'op': 'read', 'fmt': fmt, 'text': text, 'rounded': rounded, 'inst': None, 'malformed': False, 'exotic': True}
    return {'op': 'read', 'fmt': fmt, 'text': text, 'rounded': rounded, 'inst': I, 'malformed': False}


def gen_cost(rng):
    """a non-negative double num / 2^shift (exact), incl. ties of the third decimal (x.125, x.375, x.625) and integers"""
    k = rng.below(6)
    if k == 0:
        return (rng.choice([0, 7, rng.range(0, 100000)]), 0)
    if k == 1:
        return (rng.range(0, 8000) * 8 + rng.choice([1, 3, 5, 7]), 3)          # .125 .375 .625 .875: ties to even
    if k == 2:
        return (rng.range(0, 1 << 20), rng.choice([1, 2, 4, 7]))
    if k == 3:
        return (rng.range(0, 1 << 40), rng.range(20, 36))                      # many binary digits (sqrt sums)
    if k == 4:
        return (rng.choice([199, 1999, 19999, 3 * 199]) * 128 + rng.choice([0, 1, 127, 64, 63, 65]), 7)   # around x.99 / carries
    return (rng.range(0, 10 ** 6) * 4 + rng.below(4), 2)


def make_init_case(rng, fmt):
    I = GEN[fmt](rng, init=True)
    text = PRINT[fmt](rng, I, True)
    ids = job_ids_of(I)
    nveh = nveh_of(I)
    perm = rng.shuffle(ids)
    nroutes = rng.range(1, min(nveh, max(1, len(perm))))
    cuts = sorted(rng.below(len(perm) + 1) for _ in range(nroutes - 1))
    routes, prev = [], 0
    for c in cuts + [len(perm)]:
        routes.append(perm[prev:c])
        prev = c
    if not rng.chance(1, 4):
        routes = [r for r in routes if r] or [perm]
    num, shift = gen_cost(rng)
    case = {'op': 'init', 'fmt': fmt, 'text': text, 'rounded': rng.chance(1, 2), 'inst': I,
            'routes': [[str(x) for x in r] for r in routes], 'cost_num': num, 'cost_shift': shift, 'complete': True}
    k = rng.below(8)
    if k == 0 and perm:
        # INCOMPLETE solution (the property does not speak about it; model = code: the rest is reported as unassigned).
        # write_text_solution only looks at `solution.unassigned`, which the hand-built Solution leaves empty.
        drop = perm[rng.below(len(perm))]
        case['routes'] = [[x for x in r if x != str(drop)] for r in case['routes']]
        case['complete'] = False
    elif k == 2 and perm:
        # a Solution that lists a job as unassigned: write_text_solution refuses it
        drop = perm[rng.below(len(perm))]
        case['routes'] = [[x for x in r if x != str(drop)] for r in case['routes']]
        case['complete'] = False
        case['mark_unassigned'] = [str(drop)]
        return case
    elif k == 1 and perm and len(case['routes']) >= 2:
        # an id in two routes (not a solution either): both readers and writers keep what is there
        dup = str(perm[rng.below(len(perm))])
        tgt = [r for r in case['routes'] if dup not in r]
        if tgt:
            tgt[0].insert(rng.below(len(tgt[0]) + 1), dup)
            case['complete'] = False
    if rng.chance(1, 4):
        # hand-made initial solution text: junk lines, odd spacing, maybe unknown ids / too many routes / odd spellings
        lines = []
        rs = [list(r) for r in routes]
        kind = rng.below(7)
        if kind == 0 and ids:
            rs[rng.below(len(rs))].append(max(ids) + 1000)                  # unknown id -> panic
        elif kind == 1:
            rs = rs + [[ids[0]]] * (nveh + 1 - len(rs))                      # more routes than vehicles -> panic
        for k2, r in enumerate(rs):
            if rng.chance(1, 4):
                lines.append(rng.choice(['', 'Solution', 'Cost 12.50', 'a b c']))
            lines.append(rng.choice(['Route %d:', 'Route %d :', 'R%d:', ' route # %d :  ', '\tRoute %d\x0b:\x0c']) % (k2 + 1) + ' '
                         + sep(rng).join(str(x) for x in r) + rng.choice(['', '', ' ', '\r']))
        lines.append(rng.choice(['Cost 828.94', '', 'Cost: 12', 'cost 1']))
        if kind == 2:
            lines.append('Route 9: 1 : 2')                                   # two colons -> skipped
        elif kind == 3 and ids:
            # the ids are looked up as STRINGS: "+7", "007", "7.0" are unknown ids -> panic
            lines.insert(0, 'Route 1: ' + rng.choice(['+%d', '00%d', '%d.0', '%de0']) % ids[0])
        elif kind == 4:
            lines.insert(0, rng.choice(['Route 1:', ':', ' : ', 'Route 1:\t\r']))                # a route without jobs
        case['init_text'] = '\n'.join(lines) + rng.choice(['', '\n'])
    return case


PARSE_WORDS = ['0', '5', '+5', '-5', '007', '-007', '+007', '-0', '+0', '+', '-', '', '5:', ':', '1e3', '1E3', '1e+3', '1e-3', '1e', 'e3',
               '5.', '.5', '.', '-.5', '+.5', '1.5', '2.5', '-2.5', '0.5', '-0.5', '2.4999999999999999999', '0.49999999999999999',
               'inf', '-inf', '+inf', 'Inf', 'INFINITY', 'infinity', 'infinit', 'nan', 'NaN', '-nan', 'nano', '2147483647', '2147483648',
               '-2147483648', '-2147483649', '4294967295', '18446744073709551615', '18446744073709551616', '99999999999999999999',
               '1e400', '-1e400', '1e-400', '1e999999999', '1e-999999999', '0x10', '1_000', '--5', '+-5', '5-', '5e0.5', '5e+', '1.2.3',
               '00000000000000000000000000005', '2147483647.5', '2147483646.5', '-2147483648.5', '1.4999999999999998',
               '4503599627370496.5', '9007199254740993', '0.1e1', '10e-1', '123456789012345678e-9', '0.000000000000000000001e21']


def make_prim_case(rng):
    if rng.chance(1, 2):
        ws = [rng.choice(PARSE_WORDS) for _ in range(12)]
        for _ in range(4):
            v = rng.choice([rng.range(-50, 50), rng.range(-2 ** 31, 2 ** 31 - 1), rng.range(0, 2 ** 40)])
            ws.append(spell(rng, v, rng.choice(['i32', 'f64']), False))
            ws.append('%d.%s' % (rng.range(0, 3000), rng.choice(['5', '50', '4999999999999999', '5000000000000001', '49999999999999999999', '25'])))
        return {'op': 'parse', 'fmt': 'solomon', 'text': '', 'rounded': False, 'inst': None, 'malformed': False, 'words': ws}
    if rng.chance(1, 6):
        return {'op': 'import', 'fmt': 'solomon', 'text': '', 'rounded': False, 'inst': None, 'malformed': False,
                'names': rng.shuffle(['csv', 'solomon', 'lilim', 'tsplib', 'pragmatic', 'CSV', '', 'csv ', 'hre'])}
    parts = []
    for _ in range(rng.range(1, 8)):
        parts.append(rng.choice(['', ' ', '\t', '\r', '\x0b', '\x0c', '\n', '\n', 'a', 'b1', '12', ':', 'x:y', '-3', '\r\n', '  ', 'w w']))
    return {'op': 'words', 'fmt': 'solomon', 'text': ''.join(parts), 'rounded': False, 'inst': None, 'malformed': False}


def generate(rng, tier, n):
    cases = []
    for _ in range(n):
        r = rng.below(100)
        fmt = rng.choice(['solomon', 'lilim', 'tsplib'])
        if r < 55:
            cases.append(make_read_case(rng, fmt, False))
        elif r < 63:
            cases.append(make_read_case(rng, rng.choice(['solomon', 'tsplib']), False, exotic=True))
        elif r < 75:
            cases.append(make_read_case(rng, fmt, True))
        elif r < 97:
            cases.append(make_init_case(rng, rng.choice(['solomon', 'tsplib'])))
        else:
            cases.append(make_prim_case(rng))
    # every third case is read the way `vrp-cli solve <fmt> <file> [--round]` reads it: from a file, through the format
    # registry of vrp-cli (extensions/solve/formats.rs get_formats(is_rounded, ..)): problem reader, and for init cases the
    # registry's SolutionWriter and InitSolutionReader; no random draw, the stream is unchanged
    for k, c in enumerate(cases):
        if k % 3 == 1 and c['op'] in ('read', 'init'):
            c['via'] = 'cli'
            if c['op'] == 'read' and k % 60 == 1:
                # a name the registry does not know (names are case-sensitive)
                c['cli_name'] = ['Solomon', 'tsp', 'lilim ', 'csv', ''][(k // 60) % 5]
            if c['op'] == 'init' and k % 45 == 1 and c['fmt'] == 'solomon':
                # Li&Lim has no initial-solution reader: the registry entry is `unimplemented!()`
                c['cli_init_name'] = 'lilim'
    return cases


# ------------------------------------------------------------------ model side
def model_term(c):
    b = 'true' if c['rounded'] else 'false'
    if c['op'] == 'parse':
        return '[' + '; '.join('run_parse %s' % coq_str(w) for w in c['words']) + ']'
    if c['op'] == 'words':
        return 'run_words %s' % coq_str(c['text'])
    if c['op'] == 'import':
        return 'run_import_known [%s]' % '; '.join(coq_str(n) for n in c['names'])
    if c['op'] == 'read':
        if c.get('via') == 'cli':
            return 'run_cli_read %s %s %s' % (coq_str(c.get('cli_name', c['fmt'])), b, coq_str(c['text']))
        return 'run_%s_text %s %s' % (c['fmt'], b, coq_str(c['text']))
    I = c['inst']
    known, nveh = job_ids_of(I), nveh_of(I)
    rd = ('run_cli_init %s' % coq_str(c.get('cli_init_name', c['fmt']))) if c.get('via') == 'cli' else 'run_init_chars'
    if 'init_text' in c:
        return '(@nil Z, %s %s %d (str %s))' % (rd, zl(known), nveh, coq_str(c['init_text']))
    rs = '[' + '; '.join(zl([int(x) for x in r]) for r in c['routes']) + ']'
    if 'mark_unassigned' in c:
        return 'run_write_checked %s %s %d %d' % (zl([int(x) for x in c['mark_unassigned']]), rs, c['cost_num'], c['cost_shift'])
    return '(run_write_text %s %d %d, %s %s %d (write_solution_text %s %d %d%%nat))' % (
        rs, c['cost_num'], c['cost_shift'], rd, zl(known), nveh, rs, c['cost_num'], c['cost_shift'])


# ------------------------------------------------------------------ expected values computed from the abstract instance
def isqrt_round(s):
    return (math.isqrt(4 * s) + 1) // 2


def fbits(x):
    return struct.unpack('<Q', struct.pack('<d', x))[0]


def exp_dist(rounded, a, b):
    s = (a[0] - b[0]) ** 2 + (a[1] - b[1]) ** 2
    return isqrt_round(s) if rounded else s


def dist_matches(rounded, s_or_r, got):
    """got = harness number (int or 'b<bits>'); s_or_r = rounded distance, or squared distance when unrounded"""
    if rounded:
        return got == s_or_r
    f = math.sqrt(s_or_r)
    if f == int(f):
        return got == int(f)
    return got == 'b%d' % fbits(f)


def single_view(s, coords):
    """canonical view of a dumped Single: (id, demand, [(coord, dur, times)])"""
    places = []
    for p in s['places']:
        loc = p['loc']
        xy = tuple(coords[loc]) if loc is not None and 0 <= loc < len(coords) else ('bad-loc', loc)
        places.append((xy, p['dur'], tuple(tuple(t) for t in p['times'])))
    return (s['id'], tuple(s['demand']) if s['demand'] is not None else None, tuple(places))


def expected_problem(I):
    """what the property demands, as (jobs, depot_xy, number, cap, shift) with jobs in file order;
       a job is ('s', single_view) or ('m', id, [single_view...])"""
    f = I['fmt']
    if f == 'solomon':
        jobs = [('s', (str(c['id']), (0, 0, c['dem'], 0), (((c['x'], c['y']), c['srv'], ((c['s'], c['e']),)),))) for c in I['custs']]
        d = I['depot']
        return jobs, (d['x'], d['y']), I['number'], I['cap'], (d['s'], d['e'])
    if f == 'lilim':
        jobs = []
        for k, r in enumerate(I['reqs']):
            p, dl, q = r['p'], r['d'], r['q']
            sp = ('c%d' % p['id'], (0, q, 0, 0), (((p['x'], p['y']), p['srv'], ((p['s'], p['e']),)),))
            sd = ('c%d' % dl['id'], (0, 0, 0, q), (((dl['x'], dl['y']), dl['srv'], ((dl['s'], dl['e']),)),))
            jobs.append(('m', str(k), (sp, sd)))
        d = I['depot']
        return jobs, (d['x'], d['y']), I['number'], I['cap'], (d['s'], d['e'])
    jobs = [('s', (str(nd['id'] - 1), (0, 0, nd['dem'], 0), (((nd['x'], nd['y']), 0, ((0, 'max'),)),)))
            for nd in I['nodes'] if nd['id'] != I['depot']]
    dn = [nd for nd in I['nodes'] if nd['id'] == I['depot']][0]
    return jobs, (dn['x'], dn['y']), len(I['nodes']), I['cap'], (0, 'max')


def impl_jobs_view(P):
    coords = P['coords']
    out = []
    for j in P['jobs']:
        if j['k'] == 's':
            out.append(('s', single_view(j['s'], coords)))
        else:
            out.append(('m', j['id'], tuple(single_view(s, coords) for s in j['subs'])))
    return out


def oracle(c, impl):
    """the property on the implementation's own output: the dumped Problem is exactly the abstract instance"""
    v = []
    if c.get('malformed') or c.get('exotic') or c['op'] in ('parse', 'words', 'import') or 'cli_name' in c:
        return v        # totality on malformed text / texts without an abstract instance are not part of the property
    fmt = c['fmt']
    if c['op'] == 'init' and ('init_text' in c or not c.get('complete', True) or 'cli_init_name' in c):
        return v        # hand-made texts, incomplete route sets, ids in two routes: only model vs implementation is compared
    if 'panic' in impl:
        return [{'class': '%s-%s-panic' % (fmt, c['op']), 'what': 'well-formed %s text: %s' % (fmt, impl['panic'])}]
    if c['op'] == 'init':
        if impl['status'] != 'ok':
            return [{'class': 'init-%s-%s' % (fmt, impl['status']), 'what': 'complete solution not written/read: %s' % impl.get('err')}]
        if impl['routes'] != c['routes']:
            v.append({'class': 'init-%s-routes-differ' % fmt, 'what': 'routes read back %s != routes written %s (text %r)' % (impl['routes'], c['routes'], impl['written'])})
        if impl['unassigned'] != 0:
            v.append({'class': 'init-%s-unassigned' % fmt, 'what': '%d jobs unassigned after reading a complete solution' % impl['unassigned']})
        return v
    if impl['status'] != 'ok':
        return [{'class': '%s-rejected' % fmt, 'what': 'well-formed instance rejected: %s' % impl.get('err')}]
    P, I = impl['problem'], c['inst']
    jobs, depot_xy, number, cap, shift = expected_problem(I)
    got = impl_jobs_view(P)
    coords = [tuple(x) for x in P['coords']]
    if len(set(coords)) != len(coords):
        v.append({'class': '%s-coord-index-duplicates' % fmt, 'what': 'coordinate index has duplicates: %s' % coords})
    if fmt == 'tsplib':
        got, jobs = sorted(got, key=repr), sorted(jobs, key=repr)
    if len(got) != len(jobs):
        v.append({'class': '%s-job-count' % fmt, 'what': 'expected %d jobs, got %d' % (len(jobs), len(got))})
    else:
        for e, g in zip(jobs, got):
            if e == g:
                continue
            if e[0] != g[0]:
                v.append({'class': '%s-job-kind' % fmt, 'what': 'expected %s got %s' % (e, g)})
                continue
            subs_e = [e[1]] if e[0] == 's' else list(e[2])
            subs_g = [g[1]] if g[0] == 's' else list(g[2])
            if e[0] == 'm' and e[1] != g[1]:
                v.append({'class': '%s-multi-id' % fmt, 'what': 'expected %s got %s' % (e[1], g[1])})
            if len(subs_e) != len(subs_g):
                v.append({'class': '%s-subjob-count' % fmt, 'what': 'expected %s got %s' % (e, g)})
                continue
            for k, (se, sg) in enumerate(zip(subs_e, subs_g)):
                role = '' if e[0] == 's' else ('pickup-' if k == 0 else 'delivery-')
                if sg[0] is None and sg[1] is None and e[0] == 'm':
                    v.append({'class': '%s-subjob-dimens-dropped' % fmt,
                              'what': 'sub-job for customer %s has neither id nor demand (expected demand %s)' % (se[0], se[1])})
                else:
                    if se[0] != sg[0]:
                        v.append({'class': '%s-%sid' % (fmt, role), 'what': 'expected id %s got %s' % (se[0], sg[0])})
                    if se[1] != sg[1]:
                        kind = 'missing' if sg[1] is None else ('negated' if sg[1] == tuple(-x for x in se[1]) else 'wrong')
                        v.append({'class': '%s-%sdemand-%s' % (fmt, role, kind), 'what': 'customer %s: expected demand %s got %s' % (se[0], se[1], sg[1])})
                if len(se[2]) != len(sg[2]):
                    v.append({'class': '%s-%splaces' % (fmt, role), 'what': 'expected %s got %s' % (se[2], sg[2])})
                    continue
                (exy, edur, etw), (gxy, gdur, gtw) = se[2][0], sg[2][0]
                if exy != gxy:
                    v.append({'class': '%s-%slocation' % (fmt, role), 'what': 'customer %s at %s, location index points to %s' % (se[0], exy, gxy)})
                if edur != gdur:
                    v.append({'class': '%s-%sservice' % (fmt, role), 'what': 'customer %s service %s got %s' % (se[0], edur, gdur)})
                if etw != gtw:
                    v.append({'class': '%s-%stime-window' % (fmt, role), 'what': 'customer %s window %s got %s' % (se[0], etw, gtw)})
    # fleet
    vs = P['vehicles']
    if len(vs) != number:
        v.append({'class': '%s-fleet-size' % fmt, 'what': 'expected %d vehicles, got %d' % (number, len(vs))})
    if P['drivers'] != 1:
        v.append({'class': '%s-drivers' % fmt, 'what': 'drivers %s' % P['drivers']})
    for k, veh in enumerate(vs):
        if veh['cap'] != cap:
            v.append({'class': '%s-capacity' % fmt, 'what': 'vehicle %d capacity %s, file says %s' % (k, veh['cap'], cap)})
            break
        if veh['id'] != 'v%d' % k:
            v.append({'class': '%s-vehicle-id' % fmt, 'what': 'vehicle %d id %s' % (k, veh['id'])})
            break
        ok = len(veh['details']) == 1
        if ok:
            d = veh['details'][0]
            st, en = d['start'], d['end']
            ok = (st is not None and en is not None and st['loc'] == en['loc'] and 0 <= st['loc'] < len(coords)
                  and coords[st['loc']] == depot_xy)
            if not ok:
                v.append({'class': '%s-depot-location' % fmt, 'what': 'vehicle %d start/end %s, depot at %s' % (k, d, depot_xy)})
                break
            if st['earliest'] != shift[0] or st['latest'] is not None or en['latest'] != shift[1] or en['earliest'] is not None:
                v.append({'class': '%s-shift' % fmt, 'what': 'vehicle %d shift %s, depot window %s' % (k, d, shift)})
                break
        else:
            v.append({'class': '%s-vehicle-details' % fmt, 'what': 'vehicle %d has %d details' % (k, len(veh['details']))})
            break
    # distances between all indexed coordinates
    n = len(coords)
    if P['size'] != n or len(P['dist']) != n * n:
        v.append({'class': '%s-matrix-size' % fmt, 'what': 'matrix size %s for %d locations' % (P['size'], n)})
    else:
        for name in ('dist', 'dur', 'rdist', 'rdur'):
            arr = P[name]
            if not arr and name.startswith('r'):
                continue
            bad = None
            for a in range(n):
                for b in range(n):
                    if not dist_matches(c['rounded'], exp_dist(c['rounded'], coords[a], coords[b]), arr[a * n + b]):
                        bad = (a, b)
                        break
                if bad:
                    break
            if bad:
                a, b = bad
                s = exp_dist(False, coords[a], coords[b])
                kind = 'rounded' if c['rounded'] else 'exact'
                v.append({'class': '%s-distance-%s-%s' % (fmt, kind, name),
                          'what': '%s between %s and %s is %s, squared Euclidean distance is %d' % (name, coords[a], coords[b], arr[a * n + b], s)})
    return v


# ------------------------------------------------------------------ compare (implementation vs model)
def model_single_view(row, coords, prefix):
    has_id, idv, has_d, pf, pd, df, dd, loc, dur, tws, has_e, twe = row
    xy = tuple(coords[loc]) if 0 <= loc < len(coords) else ('bad-loc', loc)
    return ((prefix + str(idv)) if has_id else None, (pf, pd, df, dd) if has_d else None,
            ((xy, dur, ((tws, twe if has_e else 'max'),)),))


def compare(c, impl, model):
    if c['op'] == 'parse':
        if 'panic' in impl:
            return 'impl panicked: %s' % impl['panic']
        for w, got, m in zip(c['words'], impl['words'], model):
            exp = [[1, got[0]] if got[0] is not None else [0, 0],
                   [1, int(got[1])] if got[1] is not None else [0, 0],
                   [1, got[2]] if got[2] is not None else [0, 0]]
            if [list(x) for x in m] != exp:
                return 'word %r: Rust (i32, usize, f64.round() as i32) = %s, model %s' % (w, got, m)
        return None
    if c['op'] == 'words':
        if 'panic' in impl:
            return 'impl panicked: %s' % impl['panic']
        got = [[[ord(ch) for ch in w] for w in l] for l in impl['lines']]
        if got != [[list(w) for w in l] for l in model]:
            return 'read_line + split_whitespace of %r: impl %s model %s' % (c['text'], impl['lines'], model)
        return None
    if c['op'] == 'import':
        if 'panic' in impl:
            return 'impl panicked: %s' % impl['panic']
        if [1 if x else 0 for x in impl['known']] != list(model):
            return 'import registry knows %s of %s, model %s' % (impl['known'], c['names'], model)
        return None
    if c['op'] == 'init' and 'mark_unassigned' in c:
        wstat, wcodes = model
        if 'panic' in impl:
            return 'impl panicked: %s' % impl['panic']
        got = 1 if impl['status'] == 'write-err' else 0 if impl['status'] == 'ok' else 9
        if got != wstat:
            return 'writing a solution with unassigned jobs: impl %s (%s), model %d' % (impl['status'], impl.get('err'), wstat)
        return None
    if c['op'] == 'init':
        wcodes, (mstat, mroutes, munassigned) = model
        if 'panic' in impl:
            return None if mstat == 2 else 'impl panicked (%s), model status %d' % (impl['panic'], mstat)
        if impl['status'] != 'ok':
            return 'impl %s: %s; model status %d' % (impl['status'], impl.get('err'), mstat)
        if mstat != 0:
            return 'impl ok, model status %d' % mstat
        if 'init_text' not in c:
            if [ord(ch) for ch in impl['written']] != list(wcodes):
                return 'written text %r, model writes %r' % (impl['written'], ''.join(chr(x) for x in wcodes))
        if [[int(x) for x in r] for r in impl['routes']] != [list(r) for r in mroutes]:
            return 'routes: impl %s model %s' % (impl['routes'], mroutes)
        if sorted(int(x) for x in impl['unassigned_ids']) != sorted(munassigned):
            return 'unassigned: impl %s model %s' % (impl['unassigned_ids'], munassigned)
        return None
    mstat, mjobs, mfleet, mcoords, mmatrix = model
    if 'panic' in impl:
        return None if mstat == 2 else 'impl panicked (%s), model status %d' % (impl['panic'], mstat)
    if mstat == 3:
        return 'model: text outside the 7-bit ASCII domain (generator error)'
    istat = {'ok': 0, 'unknown-format': 4}.get(impl['status'], 1)
    if istat != mstat:
        return 'status: impl %s (%s), model %d' % (impl['status'], impl.get('err'), mstat)
    if istat != 0:
        return None
    P = impl['problem']
    if c.get('malformed'):
        # outside the well-formed domain only the shape is compared (usize wrap-arounds are not exact in f64)
        if len(P['jobs']) != len(mjobs) or len(P['vehicles']) != mfleet[0]:
            return 'malformed text accepted by both, but impl has %d jobs/%d vehicles, model %d/%d' % (
                len(P['jobs']), len(P['vehicles']), len(mjobs), mfleet[0])
        return None
    fmt = c['fmt']
    coords = [tuple(x) for x in P['coords']]
    mcoords = [tuple(x) for x in mcoords]
    got = impl_jobs_view(P)
    mj = []
    for j in mjobs:
        if j[0][0] == 0:
            mj.append(('s', model_single_view(j[1], mcoords, '')))
        else:
            mj.append(('m', str(j[0][1]), tuple(model_single_view(r, mcoords, 'c') for r in j[1:])))
    if fmt == 'tsplib':
        got, mj = sorted(got, key=repr), sorted(mj, key=repr)
        if sorted(coords) != sorted(mcoords):
            return 'coordinate index (as a set): impl %s model %s' % (coords, mcoords)
    else:
        if coords != mcoords:
            return 'coordinate index: impl %s model %s' % (coords, mcoords)
        # raw location indices as well
        il = [[p['loc'] for p in s['places']] for j in P['jobs'] for s in ([j['s']] if j['k'] == 's' else j['subs'])]
        ml = [[r[7]] for j in mjobs for r in j[1:]]
        if il != ml:
            return 'location indices: impl %s model %s' % (il, ml)
    if got != mj:
        for a, b in zip(got, mj):
            if a != b:
                return 'job: impl %s model %s' % (a, b)
        return 'job count: impl %d model %d' % (len(got), len(mj))
    num, cap, dloc, start, has_end, end = mfleet
    vs = P['vehicles']
    if len(vs) != num:
        return 'fleet size: impl %d model %d' % (len(vs), num)
    for k, veh in enumerate(vs):
        d = veh['details'][0]
        g = (veh['cap'], coords[d['start']['loc']], coords[d['end']['loc']], d['start']['earliest'], d['end']['latest'])
        m = (cap, mcoords[dloc], mcoords[dloc], start, end if has_end else 'max')
        if g != m:
            return 'vehicle %d: impl %s model %s' % (k, g, m)
    n = len(coords)
    if c.get('exotic'):
        return None     # numbers at the machine limits: squared distances are not exact in f64, the matrix is not compared
    idx = {xy: k for k, xy in enumerate(mcoords)}
    for a in range(n):
        for b in range(n):
            mv = mmatrix[idx[coords[a]]][idx[coords[b]]]
            if not dist_matches(c['rounded'], mv, P['dist'][a * n + b]):
                return 'distance %s-%s: impl %s model %s%s' % (coords[a], coords[b], P['dist'][a * n + b], mv, '' if c['rounded'] else ' (squared)')
    return None


def nontrivial_key(c, impl):
    if 'panic' in impl or c.get('malformed') or c['op'] in ('parse', 'words', 'import'):
        return None
    if c['op'] == 'init':
        return ('init', c['text'], repr(c['routes']), c.get('init_text')) if len(c['routes']) >= 2 else None
    if impl.get('status') == 'ok' and len(impl['problem']['jobs']) >= 2:
        return ('read', c['fmt'], c['text'], c['rounded'])
    return None


def classify(c, impl):
    if c['op'] in ('parse', 'words', 'import'):
        return ['op=' + c['op']]
    labs = ['op=' + c['op'], 'fmt=' + c['fmt'],
            'stream=' + ('malformed' if c.get('malformed') else 'exotic' if c.get('exotic') else 'valid'),
            'read-through=' + ('vrp-cli format registry' if c.get('via') == 'cli' else 'vrp-scientific')]
    if 'panic' in impl:
        labs.append('result=panic')
    else:
        labs.append('result=' + impl.get('status', '?'))
        if c['op'] == 'read' and impl.get('status') == 'ok':
            P = impl['problem']
            nloc = sum(len(j['subs']) if j['k'] == 'm' else 1 for j in P['jobs']) + 1
            labs.append('shared-locations=' + ('yes' if len(P['coords']) < nloc else 'no'))
            labs.append('rounded=' + str(c['rounded']))
    if c['op'] == 'init':
        labs.append('init-text=' + ('hand-made' if 'init_text' in c else 'written'))
        labs.append('init-complete=' + str(bool(c.get('complete', True))))
    return labs


def shrink_candidates(c):
    """drop one customer / request / node (re-printing prettily)"""
    I = c.get('inst')
    if not I or c['op'] != 'read':
        return

    class R0:      # deterministic "rng" for pretty printing
        def chance(self, a, b): return True
        def choice(self, xs): return xs[0]
        def below(self, n): return 0
        def range(self, a, b): return a
        def shuffle(self, xs): return list(xs)
    key = {'solomon': 'custs', 'lilim': 'reqs', 'tsplib': 'nodes'}[I['fmt']]
    for k in range(len(I[key])):
        J = dict(I)
        J[key] = I[key][:k] + I[key][k + 1:]
        if I['fmt'] == 'tsplib' and I[key][k]['id'] == I['depot']:
            continue
        if I['fmt'] == 'lilim':
            J['order'] = [[a, (r if r < k else r - 1)] for a, r in I['order'] if r != k]
        J['style'] = 0
        yield {'op': 'read', 'fmt': I['fmt'], 'text': PRINT[I['fmt']](R0(), J, True), 'rounded': c['rounded'], 'inst': J, 'malformed': False}


MANIFEST_TEXT = ('Machine-checked proof (Coq, no axioms) over an executable model of the Solomon, Li&Lim and TSPLIB readers that starts at the '
                 'CHARACTERS of the file (read_line, split_whitespace, str::parse of i32/usize/f64 incl. signs, leading zeros, exponents, the '
                 'correctly rounded double of a decimal; split(\':\') + trim of the TSPLIB keys): for every well-formed abstract instance and every '
                 'layout (arbitrary white space from {space,TAB,CR,VT,FF}, sign/zero-padding of each number, header lines, final newline) parsing '
                 'the printed text yields exactly its customers (ids, demands, windows, service times), depot, fleet size, capacity and a '
                 'duplicate-free coordinate index holding the customers\' coordinates (C13_parse_print_{solomon,lilim,tsplib}_text, TSPLIB for '
                 'every hash-iteration order, Li&Lim with signed pickup/delivery pairs for every file layout keeping pickups in request order); '
                 '"bind exactly": the problem read from the characters, walked by the step-by-step feasibility simulation of Spec/Feasible.v '
                 '(the notion of C06/C01) with the rounded Euclidean matrix, accepts exactly the routes the textbook Solomon VRPTW / Li&Lim PDPTW '
                 '/ CVRP definition stated on the instance accepts (C13_{solomon,lilim,tsplib}_binds); rounded distances are characterised by '
                 '(2r-1)^2 <= 4s < (2r+1)^2; the written solution text (character by character, "Cost {:.2}" = nearest hundredth, ties to even) '
                 'read back as an initial solution gives the same routes and the unmentioned jobs as unassigned. Guards are explicit (i32 / '
                 'non-negative fields, node ids above i32::MIN) and the error branches are theorems (out-of-range numbers panic, TSPLIB numbers '
                 'saturate, id - 1 overflow). The model is tied to /repo on every run: generated instances are printed, read by the real '
                 'read_solomon/read_lilim/read_tsplib (also through the vrp-cli format registry), and the dumped core Problem is diffed against '
                 'the model reading the same characters under vm_compute and against the abstract instance; sub-stream c13_bind asks the real '
                 'constraints of the read problem (eval_job_insertion_in_route, Solver) about routes tuned to be feasible / infeasible by one unit.')
MANIFEST_NOTE = ('Trusted: Coq kernel + vm_compute; generators; f64::from_str and sqrt correctly rounded (unrounded distances are checked '
                 'bit-exactly against math.sqrt of the exact squared distance the model computes). Not modelled: Jobs::new / goal construction '
                 '(exercised by c13_bind), UTF-8 / non-ASCII white space, a huge DIMENSION / fleet size (eager allocation). Overflow branches follow '
                 'the checked build of the harness (id - 1, i32::MIN.abs() panic; a release build wraps). Finding C13-F1 (Li&Lim sub-jobs lost id '
                 'and demand) was repaired in /repo commit 164f50b; its corpus case and two mutants keep it detectable.')
MANIFEST_TECHNIQUE = 'Coq proof over executable model + vm_compute differential correspondence with the Rust implementation'
