"""C13 — scientific instance files (Solomon, Li&Lim, TSPLIB CVRP/EUC_2D) are read faithfully (plugin for tools/verif.py).

Python generates ABSTRACT instances, prints them in the three text grammars (random white space, header lines,
decimal coordinates for TSPLIB), the harness feeds the text to the real read_solomon/read_lilim/read_tsplib and dumps
the core Problem; the Coq model parses the tokenised text (vm_compute).  oracle = impl dump vs. the abstract instance
(independent of the model); compare = impl dump vs. model.  Second stream: initial-solution text round trip."""
import math, re, struct
from fractions import Fraction

ID = 'C13'
HARNESS = 'c13'
COQ_IMPORTS = 'From VRP Require Import Base.Tac Model.Scientific.\nFrom Coq Require Import String.'
MODEL_TARGETS = ['theories/Model/Scientific.vo']
SIZES = {'quick': 1400, 'thorough': 12000, 'search': 6000}
RULE = ('cases: abstract Solomon / Li&Lim / TSPLIB instances (0-8 customers or 0-4 pickup-delivery requests; coordinates mostly '
        'on a small grid so that customers share locations with each other and with the depot, sometimes large/negative; '
        'demands near the capacity; windows, service times, fleet size 1-6; TSPLIB coordinates optionally as decimals incl. '
        'exact .5 ties; Li&Lim lines in shuffled order) printed with random white space / header lines / trailing newline, '
        'rounded and unrounded distances; ~12% malformed texts (token dropped/replaced by a word, line dropped/duplicated/blank, '
        'wrong key, truncated) compared on {Ok,Err,Panic}; ~25% initial-solution round trips (random complete route sets incl. '
        'empty routes, plus hand-made init texts with junk lines / unknown ids / too many routes). '
        'non-trivial = distinct valid instance text with >= 2 jobs, or an init case with >= 2 routes.')
TRUSTED = ['tokeniser (white-space split, ":" isolated, canonical integers / decimals / words) in tools/props/c13.py mirrors '
           'str::split_whitespace, split(\':\'), trim and str::parse for the generated alphabet (space, tab, CR; no "+5", "007", "1e3", "inf")',
           'f64 sqrt is correctly rounded (IEEE-754) and equals Python math.sqrt; round(sqrt(s)) has no ties for integer s < 2^40',
           'Jobs::new, Fleet::new and goal construction do not change the observed fields (validated on every run, not modelled)',
           'HashMap iteration order of the TSPLIB reader is an oracle argument of the model; comparison is canonical by job id']
ASSUMPTIONS = ['coordinates |x| < 2^19 so that squared distances are exact in f64 and round(sqrt) is tie-free',
               'ids, demands, times are i32 values; ids/service/fleet/capacity non-negative in well-formed instances']

I32_MIN, I32_MAX = -2 ** 31, 2 ** 31 - 1


# ------------------------------------------------------------------ tokeniser (mirror of the model's input convention)
_INT = re.compile(r'-?(0|[1-9][0-9]*)\Z')
_DEC = re.compile(r'(-?)([0-9]+)\.([0-9]+)\Z')


def tok(s):
    if s == ':':
        return ('colon',)
    if _INT.match(s) and s != '-0':
        return ('int', int(s))
    m = _DEC.match(s)
    if m:
        v = int(m.group(2) + m.group(3))
        return ('dec', -v if m.group(1) else v, len(m.group(3)))
    return ('word', s)


def tokenize(text):
    lines = text.split('\n')
    if lines and lines[-1] == '':
        lines.pop()
    return [[tok(t) for t in l.replace(':', ' : ').split()] for l in lines]


def coq_tok(t):
    if t[0] == 'int':
        return 'TInt %s' % (('(%d)' % t[1]) if t[1] < 0 else str(t[1]))
    if t[0] == 'dec':
        return 'TDec %s %d%%nat' % (('(%d)' % t[1]) if t[1] < 0 else str(t[1]), t[2])
    if t[0] == 'colon':
        return 'TColon'
    return 'TWord "%s"%%string' % t[1].replace('"', '""')


def coq_lines(lines):
    return '[' + '; '.join('[' + '; '.join(coq_tok(t) for t in l) + ']' for l in lines) + ']'


def zl(xs):
    return '[' + '; '.join(('(%d)' % x) if x < 0 else str(x) for x in xs) + ']'


# ------------------------------------------------------------------ printing with random layout
WORDS = ['C101', 'VEHICLE', 'NUMBER', 'CAPACITY', 'CUSTOMER', 'CUST', 'NO.', 'XCOORD.', 'YCOORD.', 'DEMAND', 'READY', 'TIME',
         'DUE', 'DATE', 'SERVICE', 'x', 'test', 'abc']


def sep(rng):
    return rng.choice([' ', ' ', '  ', '\t', '   ', ' \t '])


def fmt_line(rng, toks, pretty):
    if pretty:
        return ' '.join(toks)
    lead = rng.choice(['', '', ' ', '    ', '\t'])
    trail = rng.choice(['', '', ' ', '\r', ' \t'])
    out = lead
    for k, t in enumerate(toks):
        if k:
            out += sep(rng)
        out += t
    return out + trail


def junk_line(rng):
    n = rng.below(5)
    return ' '.join(rng.choice(WORDS) for _ in range(n))


def join_lines(rng, lines):
    text = '\n'.join(lines)
    if rng.chance(4, 5):
        text += '\n'
    return text


# ------------------------------------------------------------------ abstract instances
def gen_coord(rng, mode):
    if mode == 0:
        return (rng.range(0, 4), rng.range(0, 4))
    if mode == 1:
        return (rng.range(0, 100), rng.range(0, 100))
    if mode == 2:
        return (rng.range(-60, 60), rng.range(-60, 60))
    return (rng.range(-300000, 300000), rng.range(-300000, 300000))


def gen_tw(rng):
    a = rng.range(0, 200)
    if rng.chance(1, 8):
        return (a, a)
    return (a, a + rng.range(1, 1000))


def gen_ids(rng, n, start=1):
    if rng.chance(3, 4):
        return list(range(start, start + n))
    pool = rng.shuffle(list(range(0, 3 * n + 5)))
    ids = pool[:n]
    if rng.chance(1, 6):
        ids = [x * rng.range(1, 1000) + 100000 for x in ids]
        ids = list(dict.fromkeys(ids))
        while len(ids) < n:
            ids.append(max(ids) + 1)
    return ids


def gen_solomon(rng, init=False):
    n = rng.choice([0, 1, 1, 2, 2, 3, 3, 4, 5, 6, 8])
    if init:
        n = max(n, 1)
    mode = rng.choice([0, 0, 0, 1, 1, 2, 3])
    cap = rng.choice([rng.range(0, 30), rng.range(1, 200), 200, 1000])
    ids = gen_ids(rng, n)
    if n >= 2 and not init and rng.chance(1, 10):
        ids[rng.below(n)] = ids[rng.below(n)]          # duplicate customer numbers are read as they are
    custs = []
    for i in range(n):
        x, y = gen_coord(rng, mode)
        s, e = gen_tw(rng)
        dem = rng.choice([0, 1, cap, cap + 1, max(cap - 1, 0), rng.range(0, 50), rng.range(0, 50)])
        custs.append({'id': ids[i], 'x': x, 'y': y, 'dem': dem, 's': s, 'e': e, 'srv': rng.choice([0, 0, 10, 90, rng.range(0, 50)])})
    dx, dy = gen_coord(rng, mode)
    if custs and rng.chance(1, 4):
        c = rng.choice(custs)
        dx, dy = c['x'], c['y']
    ds, de = 0, rng.range(100, 3000)
    if rng.chance(1, 6):
        ds = rng.range(1, 50)
    depot = {'id': rng.choice([0, 0, 0, 7]), 'x': dx, 'y': dy, 'dem': rng.choice([0, 0, 3]), 's': ds, 'e': de, 'srv': rng.choice([0, 0, 5])}
    number = rng.range(1, 6)
    if init:
        number = max(number, 2)
    return {'fmt': 'solomon', 'number': number, 'cap': cap, 'depot': depot, 'custs': custs}


def print_solomon(rng, I, pretty=False):
    if pretty:
        h1 = ['C101', '', 'VEHICLE', 'NUMBER     CAPACITY']
        h2 = ['', 'CUSTOMER', 'CUST NO.  XCOORD.   YCOORD.    DEMAND   READY TIME  DUE DATE   SERVICE   TIME', '']
    else:
        h1 = [junk_line(rng) for _ in range(4)]
        h2 = [junk_line(rng) for _ in range(4)]

    def cl(c, extra=False):
        t = [str(c[k]) for k in ('id', 'x', 'y', 'dem', 's', 'e', 'srv')]
        if extra:
            t += [rng.choice(['0', 'x', '17', 'TIME'])]
        return fmt_line(rng, t, pretty)
    vt = [str(I['number']), str(I['cap'])]
    if not pretty and rng.chance(1, 10):
        vt.append(rng.choice(['1', 'speed']))
    lines = h1 + [fmt_line(rng, vt, pretty)] + h2 + [cl(I['depot'], not pretty and rng.chance(1, 12))]
    lines += [cl(c, not pretty and rng.chance(1, 12)) for c in I['custs']]
    return join_lines(rng, lines)


def gen_lilim(rng):
    nreq = rng.choice([0, 1, 1, 2, 2, 3, 4])
    mode = rng.choice([0, 0, 1, 1, 2, 3])
    cap = rng.choice([rng.range(1, 30), rng.range(1, 200), 200])
    ids = gen_ids(rng, 2 * nreq)
    ids = rng.shuffle(ids) if rng.chance(1, 2) else ids
    reqs = []
    for r in range(nreq):
        q = rng.choice([1, cap, cap + 1, rng.range(1, 40), rng.range(1, 40)])
        nodes = []
        for k in range(2):
            x, y = gen_coord(rng, mode)
            s, e = gen_tw(rng)
            nodes.append({'id': ids[2 * r + k], 'x': x, 'y': y, 's': s, 'e': e, 'srv': rng.choice([0, 10, 90, rng.range(0, 50)])})
        reqs.append({'p': nodes[0], 'd': nodes[1], 'q': q})
    dx, dy = gen_coord(rng, mode)
    if reqs and rng.chance(1, 4):
        n0 = rng.choice(reqs)[rng.choice(['p', 'd'])]
        dx, dy = n0['x'], n0['y']
    depot = {'id': 0, 'x': dx, 'y': dy, 's': 0, 'e': rng.range(100, 3000), 'srv': 0}
    # file layout: pickups keep their relative order (job index = order of pickups), deliveries anywhere
    order = []
    for r in range(nreq):
        order.append(('p', r))
    for r in range(nreq):
        pos = rng.below(len(order) + 1) if rng.chance(1, 2) else [k for k, o in enumerate(order) if o == ('p', r)][0] + 1
        order.insert(pos, ('d', r))
    return {'fmt': 'lilim', 'number': rng.range(1, 6), 'cap': cap, 'speed': rng.choice([1, 1, 2]), 'depot': depot, 'reqs': reqs,
            'order': [[k, r] for k, r in order]}


def print_lilim(rng, I, pretty=False):
    def nl(n, dem, psib, dsib):
        t = [str(v) for v in (n['id'], n['x'], n['y'], dem, n['s'], n['e'], n['srv'], psib, dsib)]
        return '\t'.join(t) if pretty else fmt_line(rng, t, False)
    lines = [fmt_line(rng, [str(I['number']), str(I['cap']), str(I['speed'])], pretty)]
    lines.append(nl(I['depot'], 0, 0, 0))
    for k, r in I['order']:
        rq = I['reqs'][r]
        if k == 'p':
            lines.append(nl(rq['p'], rq['q'], 0, rq['d']['id']))
        else:
            lines.append(nl(rq['d'], -rq['q'], rq['p']['id'], 0))
    return join_lines(rng, lines)


def dec_str(rng, v, style):
    """print the integer v (style 0), v.000 (style 1), or a genuine decimal that rounds to v (style 2)"""
    if style == 0:
        return str(v)
    if style == 1:
        return '%d.%s' % (v, '0' * rng.range(1, 5))
    # style 2: v + f with |f| <= .5 (ties away from zero)
    sign = -1 if v < 0 else 1
    a = abs(v)
    kind = rng.below(4)
    if kind == 0:                       # below: a - 0.5 exactly rounds (away from zero) to a, needs a >= 1
        if a >= 1:
            s = '%d.5' % (a - 1)
            if rng.chance(1, 2):
                s += '0' * rng.range(1, 2)
        else:
            s = '0.%s' % rng.choice(['0', '25', '499'])
    elif kind == 1:
        s = '%d.%s' % (a, rng.choice(['25', '499', '4', '001']))
    elif kind == 2 and a >= 1:
        s = '%d.%s' % (a - 1, rng.choice(['75', '501', '6', '999']))
    else:
        s = '%d.%s' % (a, rng.choice(['0', '125']))
    return ('-' if sign < 0 and a > 0 else '') + s


def gen_tsplib(rng, init=False):
    n = rng.choice([1, 2, 2, 3, 3, 4, 5, 6, 8, 9])
    if init:
        n = max(n, 2)
    mode = rng.choice([0, 0, 1, 1, 2, 3])
    cap = rng.choice([rng.range(0, 30), rng.range(1, 200), 100])
    ids = list(range(1, n + 1)) if rng.chance(4, 5) else gen_ids(rng, n)
    if rng.chance(1, 5):
        ids = rng.shuffle(ids)
    nodes = []
    for i in range(n):
        x, y = gen_coord(rng, mode)
        nodes.append({'id': ids[i], 'x': x, 'y': y, 'dem': rng.choice([0, 1, cap, cap + 1, rng.range(0, 50), rng.range(0, 50)])})
    depot = ids[0] if rng.chance(3, 4) else rng.choice(ids)
    for nd in nodes:
        if nd['id'] == depot:
            nd['dem'] = rng.choice([0, 0, 0, 5])
    if n >= 2 and rng.chance(1, 4):
        a, b = rng.below(n), rng.below(n)
        nodes[a]['x'], nodes[a]['y'] = nodes[b]['x'], nodes[b]['y']
    return {'fmt': 'tsplib', 'cap': cap, 'depot': depot, 'nodes': nodes, 'style': rng.choice([0, 0, 1, 2])}


def print_tsplib(rng, I, pretty=False):
    def kv(k, v):
        if pretty:
            return '%s : %s' % (k, v)
        return rng.choice(['', ' ']) + k + rng.choice([' : ', ': ', ' :', ':', '  :\t']) + v + rng.choice(['', ' ', '\r'])
    style = 0 if pretty else I['style']
    lines = [kv('NAME', 'test'), kv('COMMENT', 'generated instance')] if pretty or rng.chance(1, 2) else [junk_line(rng), junk_line(rng)]
    lines += [kv('TYPE', 'CVRP'), kv('DIMENSION', str(len(I['nodes']))), kv('EDGE_WEIGHT_TYPE', 'EUC_2D'),
              kv('CAPACITY', dec_str(rng, I['cap'], 1 if style and rng.chance(1, 4) else 0))]
    lines.append(fmt_line(rng, ['NODE_COORD_SECTION'], pretty))
    for nd in I['nodes']:
        lines.append(fmt_line(rng, [str(nd['id']), dec_str(rng, nd['x'], style), dec_str(rng, nd['y'], style)], pretty))
    lines.append(fmt_line(rng, ['DEMAND_SECTION'], pretty))
    dn = I['nodes'] if pretty or rng.chance(2, 3) else rng.shuffle(I['nodes'])
    for nd in dn:
        lines.append(fmt_line(rng, [str(nd['id']), str(nd['dem'])], pretty))
    lines += [fmt_line(rng, ['DEPOT_SECTION'], pretty), fmt_line(rng, [str(I['depot'])], pretty),
              fmt_line(rng, ['-1'], pretty), fmt_line(rng, ['EOF'], pretty)]
    return join_lines(rng, lines)


PRINT = {'solomon': print_solomon, 'lilim': print_lilim, 'tsplib': print_tsplib}
GEN = {'solomon': gen_solomon, 'lilim': gen_lilim, 'tsplib': gen_tsplib}


def job_ids_of(I):
    if I['fmt'] == 'solomon':
        return [c['id'] for c in I['custs']]
    if I['fmt'] == 'tsplib':
        return [nd['id'] - 1 for nd in I['nodes'] if nd['id'] != I['depot']]
    return []


def nveh_of(I):
    return len(I['nodes']) if I['fmt'] == 'tsplib' else I['number']


# ------------------------------------------------------------------ malformed stream
def mutate_text(rng, text, fmt):
    lines = text.split('\n')
    body = [k for k, l in enumerate(lines) if l.strip()]
    k = rng.below(8)
    if k == 0 and body:                       # drop a token
        i = rng.choice(body)
        t = lines[i].split()
        del t[rng.below(len(t))]
        lines[i] = ' '.join(t)
    elif k == 1 and body:                     # replace a token by a word
        i = rng.choice(body)
        t = lines[i].split()
        t[rng.below(len(t))] = rng.choice(['abc', 'x', 'N/A', 'CVRPTW', '1.5', '--'])
        lines[i] = ' '.join(t)
    elif k == 2 and lines:                    # drop a line
        del lines[rng.below(len(lines))]
    elif k == 3 and lines:                    # duplicate a line
        i = rng.below(len(lines))
        lines.insert(i, lines[i])
    elif k == 4:                              # blank line somewhere
        lines.insert(rng.below(len(lines) + 1), rng.choice(['', ' ', '\t']))
    elif k == 5 and lines:                    # truncate
        lines = lines[:rng.below(len(lines))]
    elif k == 6 and body:                     # extra small token
        i = rng.choice(body)
        t = lines[i].split()
        t.insert(rng.below(len(t) + 1), rng.choice(['0', '1', '-1', '3']))
        lines[i] = ' '.join(t)
    else:                                     # colon damage (matters for TSPLIB keys and init texts only)
        if body:
            i = rng.choice(body)
            lines[i] = lines[i].replace(':', rng.choice(['', '::', ' ']), 1) if ':' in lines[i] else lines[i] + ' :'
    return '\n'.join(lines)


# ------------------------------------------------------------------ generation
def make_read_case(rng, fmt, malformed):
    I = GEN[fmt](rng)
    pretty = rng.chance(1, 6)
    text = PRINT[fmt](rng, I, pretty)
    rounded = rng.chance(1, 2)
    if malformed:
        text = mutate_text(rng, text, fmt)
        return {'op': 'read', 'fmt': fmt, 'text': text, 'rounded': rounded, 'inst': None, 'malformed': True}
    return {'op': 'read', 'fmt': fmt, 'text': text, 'rounded': rounded, 'inst': I, 'malformed': False}


def make_init_case(rng, fmt):
    I = GEN[fmt](rng, init=True)
    text = PRINT[fmt](rng, I, True)
    ids = job_ids_of(I)
    nveh = nveh_of(I)
    perm = rng.shuffle(ids)
    nroutes = rng.range(1, min(nveh, max(1, len(perm))))
    cuts = sorted(rng.below(len(perm) + 1) for _ in range(nroutes - 1))
    routes, prev = [], 0
    for c in cuts + [len(perm)]:
        routes.append(perm[prev:c])
        prev = c
    if not rng.chance(1, 4):
        routes = [r for r in routes if r] or [perm]
    case = {'op': 'init', 'fmt': fmt, 'text': text, 'rounded': rng.chance(1, 2), 'inst': I,
            'routes': [[str(x) for x in r] for r in routes], 'cost': rng.choice([0, 7, rng.range(0, 100000)])}
    if rng.chance(1, 4):
        # hand-made initial solution text: junk lines, odd spacing, maybe unknown ids / too many routes
        lines = []
        rs = [list(r) for r in routes]
        kind = rng.below(5)
        if kind == 0 and ids:
            rs[rng.below(len(rs))].append(max(ids) + 1000)                  # unknown id -> panic
        elif kind == 1:
            rs = rs + [[ids[0]]] * (nveh + 1 - len(rs))                      # more routes than vehicles -> panic
        for k, r in enumerate(rs):
            if rng.chance(1, 4):
                lines.append(rng.choice(['', 'Solution', 'Cost 12.50', 'a b c']))
            lines.append(rng.choice(['Route %d:', 'Route %d :', 'R%d:', ' route # %d :  ']) % (k + 1) + ' ' + sep(rng).join(str(x) for x in r))
        lines.append(rng.choice(['Cost 828.94', '', 'Cost: 12', 'cost 1']))
        if kind == 2:
            lines.append('Route 9: 1 : 2')                                   # two colons -> skipped
        case['init_text'] = '\n'.join(lines)
    return case


def generate(rng, tier, n):
    cases = []
    for _ in range(n):
        r = rng.below(100)
        fmt = rng.choice(['solomon', 'lilim', 'tsplib'])
        if r < 63:
            cases.append(make_read_case(rng, fmt, False))
        elif r < 75:
            cases.append(make_read_case(rng, fmt, True))
        else:
            cases.append(make_init_case(rng, rng.choice(['solomon', 'tsplib'])))
    # every third case is read the way `vrp-cli solve <fmt> <file> [--round]` reads it: from a file, through the format
    # registry of vrp-cli (extensions/solve/formats.rs get_formats(is_rounded, ..)); no random draw, the stream is unchanged
    for k, c in enumerate(cases):
        if k % 3 == 1:
            c['via'] = 'cli'
    return cases


# ------------------------------------------------------------------ model side
def model_term(c):
    lines = tokenize(c['text'])
    b = 'true' if c['rounded'] else 'false'
    if c['op'] == 'read':
        return 'run_%s %s %s' % (c['fmt'], b, coq_lines(lines))
    I = c['inst']
    known, nveh = job_ids_of(I), nveh_of(I)
    if 'init_text' in c:
        return '(@nil (list (list Z)), run_init %s %d %s)' % (zl(known), nveh, coq_lines(tokenize(c['init_text'])))
    rs = '[' + '; '.join(zl([int(x) for x in r]) for r in c['routes']) + ']'
    return '(run_write %s %d, run_init %s %d (write_solution %s %d))' % (rs, c['cost'], zl(known), nveh, rs, c['cost'])


# ------------------------------------------------------------------ expected values computed from the abstract instance
def isqrt_round(s):
    return (math.isqrt(4 * s) + 1) // 2


def fbits(x):
    return struct.unpack('<Q', struct.pack('<d', x))[0]


def exp_dist(rounded, a, b):
    s = (a[0] - b[0]) ** 2 + (a[1] - b[1]) ** 2
    return isqrt_round(s) if rounded else s


def dist_matches(rounded, s_or_r, got):
    """got = harness number (int or 'b<bits>'); s_or_r = rounded distance, or squared distance when unrounded"""
    if rounded:
        return got == s_or_r
    f = math.sqrt(s_or_r)
    if f == int(f):
        return got == int(f)
    return got == 'b%d' % fbits(f)


def single_view(s, coords):
    """canonical view of a dumped Single: (id, demand, [(coord, dur, times)])"""
    places = []
    for p in s['places']:
        loc = p['loc']
        xy = tuple(coords[loc]) if loc is not None and 0 <= loc < len(coords) else ('bad-loc', loc)
        places.append((xy, p['dur'], tuple(tuple(t) for t in p['times'])))
    return (s['id'], tuple(s['demand']) if s['demand'] is not None else None, tuple(places))


def expected_problem(I):
    """what the property demands, as (jobs, depot_xy, number, cap, shift) with jobs in file order;
       a job is ('s', single_view) or ('m', id, [single_view...])"""
    f = I['fmt']
    if f == 'solomon':
        jobs = [('s', (str(c['id']), (0, 0, c['dem'], 0), (((c['x'], c['y']), c['srv'], ((c['s'], c['e']),)),))) for c in I['custs']]
        d = I['depot']
        return jobs, (d['x'], d['y']), I['number'], I['cap'], (d['s'], d['e'])
    if f == 'lilim':
        jobs = []
        for k, r in enumerate(I['reqs']):
            p, dl, q = r['p'], r['d'], r['q']
            sp = ('c%d' % p['id'], (0, q, 0, 0), (((p['x'], p['y']), p['srv'], ((p['s'], p['e']),)),))
            sd = ('c%d' % dl['id'], (0, 0, 0, q), (((dl['x'], dl['y']), dl['srv'], ((dl['s'], dl['e']),)),))
            jobs.append(('m', str(k), (sp, sd)))
        d = I['depot']
        return jobs, (d['x'], d['y']), I['number'], I['cap'], (d['s'], d['e'])
    jobs = [('s', (str(nd['id'] - 1), (0, 0, nd['dem'], 0), (((nd['x'], nd['y']), 0, ((0, 'max'),)),)))
            for nd in I['nodes'] if nd['id'] != I['depot']]
    dn = [nd for nd in I['nodes'] if nd['id'] == I['depot']][0]
    return jobs, (dn['x'], dn['y']), len(I['nodes']), I['cap'], (0, 'max')


def impl_jobs_view(P):
    coords = P['coords']
    out = []
    for j in P['jobs']:
        if j['k'] == 's':
            out.append(('s', single_view(j['s'], coords)))
        else:
            out.append(('m', j['id'], tuple(single_view(s, coords) for s in j['subs'])))
    return out


def oracle(c, impl):
    """the property on the implementation's own output: the dumped Problem is exactly the abstract instance"""
    v = []
    if c.get('malformed'):
        return v        # totality on malformed text is not part of the property
    fmt = c['fmt']
    if c['op'] == 'init' and 'init_text' in c:
        return v        # hand-made initial-solution texts: only model vs implementation is compared
    if 'panic' in impl:
        return [{'class': '%s-%s-panic' % (fmt, c['op']), 'what': 'well-formed %s text: %s' % (fmt, impl['panic'])}]
    if c['op'] == 'init':
        if impl['status'] != 'ok':
            return [{'class': 'init-%s-%s' % (fmt, impl['status']), 'what': 'complete solution not written/read: %s' % impl.get('err')}]
        if impl['routes'] != c['routes']:
            v.append({'class': 'init-%s-routes-differ' % fmt, 'what': 'routes read back %s != routes written %s (text %r)' % (impl['routes'], c['routes'], impl['written'])})
        if impl['unassigned'] != 0:
            v.append({'class': 'init-%s-unassigned' % fmt, 'what': '%d jobs unassigned after reading a complete solution' % impl['unassigned']})
        return v
    if impl['status'] != 'ok':
        return [{'class': '%s-rejected' % fmt, 'what': 'well-formed instance rejected: %s' % impl.get('err')}]
    P, I = impl['problem'], c['inst']
    jobs, depot_xy, number, cap, shift = expected_problem(I)
    got = impl_jobs_view(P)
    coords = [tuple(x) for x in P['coords']]
    if len(set(coords)) != len(coords):
        v.append({'class': '%s-coord-index-duplicates' % fmt, 'what': 'coordinate index has duplicates: %s' % coords})
    if fmt == 'tsplib':
        got, jobs = sorted(got, key=repr), sorted(jobs, key=repr)
    if len(got) != len(jobs):
        v.append({'class': '%s-job-count' % fmt, 'what': 'expected %d jobs, got %d' % (len(jobs), len(got))})
    else:
        for e, g in zip(jobs, got):
            if e == g:
                continue
            if e[0] != g[0]:
                v.append({'class': '%s-job-kind' % fmt, 'what': 'expected %s got %s' % (e, g)})
                continue
            subs_e = [e[1]] if e[0] == 's' else list(e[2])
            subs_g = [g[1]] if g[0] == 's' else list(g[2])
            if e[0] == 'm' and e[1] != g[1]:
                v.append({'class': '%s-multi-id' % fmt, 'what': 'expected %s got %s' % (e[1], g[1])})
            if len(subs_e) != len(subs_g):
                v.append({'class': '%s-subjob-count' % fmt, 'what': 'expected %s got %s' % (e, g)})
                continue
            for k, (se, sg) in enumerate(zip(subs_e, subs_g)):
                role = '' if e[0] == 's' else ('pickup-' if k == 0 else 'delivery-')
                if sg[0] is None and sg[1] is None and e[0] == 'm':
                    v.append({'class': '%s-subjob-dimens-dropped' % fmt,
                              'what': 'sub-job for customer %s has neither id nor demand (expected demand %s)' % (se[0], se[1])})
                else:
                    if se[0] != sg[0]:
                        v.append({'class': '%s-%sid' % (fmt, role), 'what': 'expected id %s got %s' % (se[0], sg[0])})
                    if se[1] != sg[1]:
                        kind = 'missing' if sg[1] is None else ('negated' if sg[1] == tuple(-x for x in se[1]) else 'wrong')
                        v.append({'class': '%s-%sdemand-%s' % (fmt, role, kind), 'what': 'customer %s: expected demand %s got %s' % (se[0], se[1], sg[1])})
                if len(se[2]) != len(sg[2]):
                    v.append({'class': '%s-%splaces' % (fmt, role), 'what': 'expected %s got %s' % (se[2], sg[2])})
                    continue
                (exy, edur, etw), (gxy, gdur, gtw) = se[2][0], sg[2][0]
                if exy != gxy:
                    v.append({'class': '%s-%slocation' % (fmt, role), 'what': 'customer %s at %s, location index points to %s' % (se[0], exy, gxy)})
                if edur != gdur:
                    v.append({'class': '%s-%sservice' % (fmt, role), 'what': 'customer %s service %s got %s' % (se[0], edur, gdur)})
                if etw != gtw:
                    v.append({'class': '%s-%stime-window' % (fmt, role), 'what': 'customer %s window %s got %s' % (se[0], etw, gtw)})
    # fleet
    vs = P['vehicles']
    if len(vs) != number:
        v.append({'class': '%s-fleet-size' % fmt, 'what': 'expected %d vehicles, got %d' % (number, len(vs))})
    if P['drivers'] != 1:
        v.append({'class': '%s-drivers' % fmt, 'what': 'drivers %s' % P['drivers']})
    for k, veh in enumerate(vs):
        if veh['cap'] != cap:
            v.append({'class': '%s-capacity' % fmt, 'what': 'vehicle %d capacity %s, file says %s' % (k, veh['cap'], cap)})
            break
        if veh['id'] != 'v%d' % k:
            v.append({'class': '%s-vehicle-id' % fmt, 'what': 'vehicle %d id %s' % (k, veh['id'])})
            break
        ok = len(veh['details']) == 1
        if ok:
            d = veh['details'][0]
            st, en = d['start'], d['end']
            ok = (st is not None and en is not None and st['loc'] == en['loc'] and 0 <= st['loc'] < len(coords)
                  and coords[st['loc']] == depot_xy)
            if not ok:
                v.append({'class': '%s-depot-location' % fmt, 'what': 'vehicle %d start/end %s, depot at %s' % (k, d, depot_xy)})
                break
            if st['earliest'] != shift[0] or st['latest'] is not None or en['latest'] != shift[1] or en['earliest'] is not None:
                v.append({'class': '%s-shift' % fmt, 'what': 'vehicle %d shift %s, depot window %s' % (k, d, shift)})
                break
        else:
            v.append({'class': '%s-vehicle-details' % fmt, 'what': 'vehicle %d has %d details' % (k, len(veh['details']))})
            break
    # distances between all indexed coordinates
    n = len(coords)
    if P['size'] != n or len(P['dist']) != n * n:
        v.append({'class': '%s-matrix-size' % fmt, 'what': 'matrix size %s for %d locations' % (P['size'], n)})
    else:
        for name in ('dist', 'dur', 'rdist', 'rdur'):
            arr = P[name]
            if not arr and name.startswith('r'):
                continue
            bad = None
            for a in range(n):
                for b in range(n):
                    if not dist_matches(c['rounded'], exp_dist(c['rounded'], coords[a], coords[b]), arr[a * n + b]):
                        bad = (a, b)
                        break
                if bad:
                    break
            if bad:
                a, b = bad
                s = exp_dist(False, coords[a], coords[b])
                kind = 'rounded' if c['rounded'] else 'exact'
                v.append({'class': '%s-distance-%s-%s' % (fmt, kind, name),
                          'what': '%s between %s and %s is %s, squared Euclidean distance is %d' % (name, coords[a], coords[b], arr[a * n + b], s)})
    return v


# ------------------------------------------------------------------ compare (implementation vs model)
def model_single_view(row, coords, prefix):
    has_id, idv, has_d, pf, pd, df, dd, loc, dur, tws, has_e, twe = row
    xy = tuple(coords[loc]) if 0 <= loc < len(coords) else ('bad-loc', loc)
    return ((prefix + str(idv)) if has_id else None, (pf, pd, df, dd) if has_d else None,
            ((xy, dur, ((tws, twe if has_e else 'max'),)),))


def compare(c, impl, model):
    if c['op'] == 'init':
        wtoks, (mstat, mroutes) = model
        if 'panic' in impl:
            return None if mstat == 2 else 'impl panicked (%s), model status %d' % (impl['panic'], mstat)
        if impl['status'] != 'ok':
            return 'impl %s: %s; model status %d' % (impl['status'], impl.get('err'), mstat)
        if mstat != 0:
            return 'impl ok, model status %d' % mstat
        if 'init_text' not in c:
            def ft(t):
                if t[0] == 'int':
                    return [0, t[1], 0]
                if t[0] == 'dec':
                    return [1, t[1], t[2]]
                if t[0] == 'colon':
                    return [2, 0, 0]
                return [{'Route': 3, 'Cost': 4}.get(t[1], 5), 0, 0]
            got = [[ft(t) for t in l] for l in tokenize(impl['written'])]
            if got != [[list(t) for t in l] for l in wtoks]:
                return 'written text %r tokenises to %s, model writes %s' % (impl['written'], got, wtoks)
        if [[int(x) for x in r] for r in impl['routes']] != [list(r) for r in mroutes]:
            return 'routes: impl %s model %s' % (impl['routes'], mroutes)
        return None
    mstat, mjobs, mfleet, mcoords, mmatrix = model
    if 'panic' in impl:
        return None if mstat == 2 else 'impl panicked (%s), model status %d' % (impl['panic'], mstat)
    istat = 0 if impl['status'] == 'ok' else 1
    if istat != mstat:
        return 'status: impl %s (%s), model %d' % (impl['status'], impl.get('err'), mstat)
    if istat != 0:
        return None
    P = impl['problem']
    if c.get('malformed'):
        # outside the well-formed domain only the shape is compared (usize wrap-arounds are not exact in f64)
        if len(P['jobs']) != len(mjobs) or len(P['vehicles']) != mfleet[0]:
            return 'malformed text accepted by both, but impl has %d jobs/%d vehicles, model %d/%d' % (
                len(P['jobs']), len(P['vehicles']), len(mjobs), mfleet[0])
        return None
    fmt = c['fmt']
    coords = [tuple(x) for x in P['coords']]
    mcoords = [tuple(x) for x in mcoords]
    got = impl_jobs_view(P)
    mj = []
    for j in mjobs:
        if j[0][0] == 0:
            mj.append(('s', model_single_view(j[1], mcoords, '')))
        else:
            mj.append(('m', str(j[0][1]), tuple(model_single_view(r, mcoords, 'c') for r in j[1:])))
    if fmt == 'tsplib':
        got, mj = sorted(got, key=repr), sorted(mj, key=repr)
        if sorted(coords) != sorted(mcoords):
            return 'coordinate index (as a set): impl %s model %s' % (coords, mcoords)
    else:
        if coords != mcoords:
            return 'coordinate index: impl %s model %s' % (coords, mcoords)
        # raw location indices as well
        il = [[p['loc'] for p in s['places']] for j in P['jobs'] for s in ([j['s']] if j['k'] == 's' else j['subs'])]
        ml = [[r[7]] for j in mjobs for r in j[1:]]
        if il != ml:
            return 'location indices: impl %s model %s' % (il, ml)
    if got != mj:
        for a, b in zip(got, mj):
            if a != b:
                return 'job: impl %s model %s' % (a, b)
        return 'job count: impl %d model %d' % (len(got), len(mj))
    num, cap, dloc, start, has_end, end = mfleet
    vs = P['vehicles']
    if len(vs) != num:
        return 'fleet size: impl %d model %d' % (len(vs), num)
    for k, veh in enumerate(vs):
        d = veh['details'][0]
        g = (veh['cap'], coords[d['start']['loc']], coords[d['end']['loc']], d['start']['earliest'], d['end']['latest'])
        m = (cap, mcoords[dloc], mcoords[dloc], start, end if has_end else 'max')
        if g != m:
            return 'vehicle %d: impl %s model %s' % (k, g, m)
    n = len(coords)
    idx = {xy: k for k, xy in enumerate(mcoords)}
    for a in range(n):
        for b in range(n):
            mv = mmatrix[idx[coords[a]]][idx[coords[b]]]
            if not dist_matches(c['rounded'], mv, P['dist'][a * n + b]):
                return 'distance %s-%s: impl %s model %s%s' % (coords[a], coords[b], P['dist'][a * n + b], mv, '' if c['rounded'] else ' (squared)')
    return None


def nontrivial_key(c, impl):
    if 'panic' in impl or c.get('malformed'):
        return None
    if c['op'] == 'init':
        return ('init', c['text'], repr(c['routes']), c.get('init_text')) if len(c['routes']) >= 2 else None
    if impl.get('status') == 'ok' and len(impl['problem']['jobs']) >= 2:
        return ('read', c['fmt'], c['text'], c['rounded'])
    return None


def classify(c, impl):
    labs = ['op=' + c['op'], 'fmt=' + c['fmt'], 'stream=' + ('malformed' if c.get('malformed') else 'valid'),
            'read-through=' + ('vrp-cli format registry' if c.get('via') == 'cli' else 'vrp-scientific')]
    if 'panic' in impl:
        labs.append('result=panic')
    else:
        labs.append('result=' + impl.get('status', '?'))
        if c['op'] == 'read' and impl.get('status') == 'ok':
            P = impl['problem']
            nloc = sum(len(j['subs']) if j['k'] == 'm' else 1 for j in P['jobs']) + 1
            labs.append('shared-locations=' + ('yes' if len(P['coords']) < nloc else 'no'))
            labs.append('rounded=' + str(c['rounded']))
    if c['op'] == 'init':
        labs.append('init-text=' + ('hand-made' if 'init_text' in c else 'written'))
    return labs


def shrink_candidates(c):
    """drop one customer / request / node (re-printing prettily)"""
    I = c.get('inst')
    if not I or c['op'] != 'read':
        return

    class R0:      # deterministic "rng" for pretty printing
        def chance(self, a, b): return True
        def choice(self, xs): return xs[0]
        def below(self, n): return 0
        def range(self, a, b): return a
        def shuffle(self, xs): return list(xs)
    key = {'solomon': 'custs', 'lilim': 'reqs', 'tsplib': 'nodes'}[I['fmt']]
    for k in range(len(I[key])):
        J = dict(I)
        J[key] = I[key][:k] + I[key][k + 1:]
        if I['fmt'] == 'tsplib' and I[key][k]['id'] == I['depot']:
            continue
        if I['fmt'] == 'lilim':
            J['order'] = [[a, (r if r < k else r - 1)] for a, r in I['order'] if r != k]
        J['style'] = 0
        yield {'op': 'read', 'fmt': I['fmt'], 'text': PRINT[I['fmt']](R0(), J, True), 'rounded': c['rounded'], 'inst': J, 'malformed': False}


MANIFEST_TEXT = ('Machine-checked proof (Coq, no axioms) over an executable model of the Solomon, Li&Lim and TSPLIB readers on tokenised lines: '
                 'for every well-formed abstract instance, parsing its printed text yields exactly its customers (ids, demands, windows, service '
                 'times), depot, fleet size, capacity and a duplicate-free coordinate index whose entries are the customers\' coordinates '
                 '(parse_print_solomon / tsplib for every hash-iteration order; Li&Lim with ids and signed demands of the pairs for every file '
                 'layout that keeps pickups in request order); rounded distances are characterised by (2r-1)^2 <= 4s < (2r+1)^2; the '
                 'initial-solution text round trip read_init(write S) = S holds for all complete route sets. The model is tied to /repo on every '
                 'run: generated instances are printed, read by the real read_solomon/read_lilim/read_tsplib/read_init_solution/write_* and the '
                 'dumped core Problem (jobs, places, demand dimension, fleet, matrix through TransportCost) is diffed against the model evaluated by '
                 'vm_compute and against the abstract instance.')
MANIFEST_NOTE = ('Trusted: Coq kernel + vm_compute; tokeniser and generators; IEEE sqrt (unrounded distances are checked bit-exactly against '
                 'math.sqrt of the exact squared distance the model computes). Not modelled: Jobs::new / goal construction, i32 overflow of id-1, '
                 'text outside the generated alphabet. Finding C13-F1 (Li&Lim sub-jobs lost id and demand) was repaired in /repo commit 164f50b; '
                 'its corpus case and two mutants keep it detectable.')
MANIFEST_TECHNIQUE = 'Coq proof over executable model + vm_compute differential correspondence with the Rust implementation'
