"""C20 sub-stream `c20_wide` — the quote of the real insertion evaluator vs the realised change of every objective layer for
(a) fleets whose DRIVER has non-zero fixed / per-distance / per-time costs (Problem assembled through the core API) and
(b) candidates with several alternative places / time windows per (sub-)job: single jobs and Multi jobs of 2-3 sub-jobs.
The whole search (eval_single / eval_multi incl. MultiContext::promote and the shadow tours) is modelled in Model/ObjectivesX.v;
the activities a quote belongs to (insertion index, place index, location, duration, window) are compared exactly.
Registered by `SUBSTREAMS = ['c20_wide']` in tools/props/c20.py; theorems are in Properties/C20.v."""
from coqterm import z, zlist, lst, nat
from props import corelib as K
from props.corelib import tz, INF

ID = 'C20'            # set by the driver to the parent's id
HARNESS = 'c20_wide'
COQ_IMPORTS = 'From VRP Require Import Base.Tac Model.Core Spec.Feasible Model.Eval Model.Objectives Model.ObjectivesX.'
MODEL_TARGETS = ['theories/Model/ObjectivesX.vo']
SHARD = 50
SIZES = {'quick': 600, 'thorough': 9000, 'search': 4000}
RULE = ('cases: as the parent stream (target tour of 0-5 activities, a third of them EMPTY = the insertion opens a new tour, 0-1 other '
        'routes, 0-2 ignored / other required jobs, goals [unassigned, tours|value, cost|distance]) plus a DRIVER cost vector (zero in a '
        'quarter of the cases, else fixed 0-40, per-distance 0-3, time rates uniform in 3 of 4) and a candidate with alternatives: a single '
        'job with 1-3 places x 1-3 windows, or (half of the cases) a Multi job of 2 (pickup, delivery) or 3 sub-jobs, every sub-job with '
        '1-3 places x 1-3 windows (location-less places included), half of the Multi jobs with an explicit list of 1-3 allowed orders of '
        'the sub-jobs (FixedJobPermutation). The real eval_job_insertion_in_route result (quote vector and every '
        'activity: insertion index, place index, location, duration, window) is compared with the modelled search; the fitness vectors '
        'of two real recreate steps (with / without the insertion) give the realised change. non-trivial = distinct cases where the '
        'insertion succeeded.')
TRUSTED = ['c20_wide: time-independent routing, SimpleActivityCost, one driver shared by all actors (Fleet::new accepts exactly one); '
           'LegSelection::Exhaustive, BestResultSelector, InsertionPosition::Any, one target route (alternative = plain failure)']
ASSUMPTIONS = ['cost layer equality is claimed only when the vehicle\'s three time rates are equal, the driver\'s three time rates are equal, '
               'and neither the tour before, nor any shadow tour, nor the final tour has waiting (as the property states)']

VALUE_GOALS = ('unassigned+value+distance', 'unassigned+value+cost')


# ---------------------------------------------------------------- generation
def gen_alt_single(rng, w, tour, jid, nowait):
    n = w['n']
    horizon = w['veh']['shift_start'] + 60 * (len(tour) + 1)
    se = w['veh']['shift_end']
    places = []
    for _ in range(rng.choice([1, 2, 2, 3])):
        tws = []
        for _ in range(rng.choice([1, 1, 2, 3])):
            k = rng.below(10)
            if k < 3:
                tws.append([0, 'inf'])
            elif k < 8:
                a = rng.range(0, horizon)
                tws.append([a, a + rng.range(0, 80)])
            elif se != 'inf':
                a = se + rng.range(1, 50)
                tws.append([a, a + rng.range(0, 50)])
            else:
                a = rng.range(0, horizon)
                tws.append([a, 'inf'])
        if nowait:
            tws = [[0, x[1]] for x in tws]
        loc = None if rng.chance(1, 10) else rng.below(n)
        places.append({'loc': loc, 'svc': rng.choice([0, 0, 4, 12]), 'tws': tws})
    return {'id': jid, 'places': places, 'dem': [0, 0, 0, 0]}


def gen_candidate(rng, w, tour, nowait):
    kind = rng.below(10)
    if kind < 5:
        j = gen_alt_single(rng, w, tour, 90, nowait)
        k = rng.below(8)
        j['dem'] = ([0, 0, rng.range(1, 6), 0] if k < 3 else [rng.range(1, 6), 0, 0, 0] if k < 6 else [0, 0, 0, 0])
        return j
    nsub = 2 if kind < 8 else 3
    subs = [gen_alt_single(rng, w, tour, 950 + i + 1, nowait) for i in range(nsub)]
    q = rng.range(1, 5)
    if nsub == 2:
        subs[0]['dem'] = [0, q, 0, 0]
        subs[1]['dem'] = [0, 0, 0, q]
    else:
        q2 = rng.range(1, 3)
        if rng.chance(1, 2):
            subs[0]['dem'], subs[1]['dem'], subs[2]['dem'] = [0, q, 0, 0], [0, q2, 0, 0], [0, 0, 0, q + q2]
        else:
            subs[0]['dem'], subs[1]['dem'], subs[2]['dem'] = [0, q, 0, 0], [0, 0, 0, q], [0, 0, 0, 0]
    j = {'id': 95, 'multi': subs}
    if rng.chance(1, 2):
        # an explicit list of allowed orders of the sub-jobs (FixedJobPermutation); the default is the given order only
        import itertools
        allp = [list(p) for p in itertools.permutations(range(nsub))]
        rng.shuffle(allp)
        j['perms'] = allp[:rng.range(1, min(3, len(allp)))]
    return j


def generate(rng, tier, n):
    cases = []
    for k in range(n):
        w = K.gen_world(rng)
        if rng.chance(3, 4):
            ct = rng.range(0, 3)
            w['veh']['costs'][2:] = [ct, ct, ct]
        if rng.chance(1, 4):
            driver = [0, 0, 0, 0, 0]
        else:
            driver = [rng.range(0, 40), rng.range(0, 3), rng.range(0, 3), rng.range(0, 2), rng.range(0, 2)]
            if rng.chance(3, 4):
                dt = rng.range(0, 3)
                driver[2:] = [dt, dt, dt]
        nowait = rng.chance(3, 5)
        tour = [] if rng.chance(1, 3) else K.gen_tour(rng, w, tight=False)
        if nowait:
            for a in tour:
                a['tws'] = 0
        c = dict(w)
        c['driver'] = driver
        c['tour'] = tour
        c['goal'] = rng.choice(['unassigned+tours+cost', 'unassigned+tours+cost', 'unassigned+tours+cost', 'unassigned+tours+distance',
                                'unassigned+value+distance', 'unassigned+value+cost'])
        j = gen_candidate(rng, w, tour, nowait and rng.chance(4, 5))
        c['job'] = j
        others = []
        if rng.chance(1, 3):
            w2 = K.gen_world(rng)
            ov = w2['veh']
            ov['start'] = 0
            if ov['end'] is not None:
                ov['end'] = 0
            ot = K.gen_tour(rng, w, maxlen=3)
            if ot:
                others.append({'veh': ov, 'tour': [dict(a, job=a['job'] + 40) for a in ot]})
        c['others'] = others
        if c['goal'] in VALUE_GOALS:
            j['value'] = rng.range(0, 9)
            for a in tour + [a for o in others for a in o['tour']]:
                if rng.chance(1, 2):
                    a['value'] = rng.range(1, 9)
        c['ignored'] = rng.choice([0, 0, 0, 0, 1, 2])
        c['extra_required'] = rng.choice([0, 0, 1, 2])
        cases.append(c)
    return cases


def corpus():
    m = [0, 10, 20, 60, 10, 0, 10, 50, 20, 10, 0, 40, 60, 50, 40, 0]
    w = {'n': 4, 'dur': m, 'dist': m,
         'veh': {'start': 0, 'end': 0, 'shift_start': 0, 'shift_end': 'inf', 'cap': 10, 'costs': [100, 1, 2, 2, 2]}}
    pl = lambda loc: {'loc': loc, 'svc': 0, 'tws': [[0, 'inf']]}
    # a pickup-and-delivery job whose delivery has two alternative places, the FIRST one being the cheaper (seeded C20-5 class)
    c1 = dict(w, driver=[0, 0, 0, 0, 0], tour=[{'job': 1, 'loc': 1, 'svc': 0, 'tws': 0, 'twe': 'inf', 'dem': [0, 0, 1, 0]}],
              goal='unassigned+tours+distance', others=[], ignored=0, extra_required=0,
              job={'id': 95, 'multi': [{'id': 951, 'places': [pl(1)], 'dem': [0, 2, 0, 0]},
                                       {'id': 952, 'places': [pl(2), pl(3)], 'dem': [0, 0, 0, 2]}]})
    # the first insertion into an unused tour of an actor whose driver has a fixed cost (seeded C20-6 class)
    c2 = dict(w, driver=[40, 1, 1, 1, 1], tour=[], goal='unassigned+tours+cost', others=[], ignored=0, extra_required=0,
              job={'id': 90, 'places': [pl(2)], 'dem': [0, 0, 1, 0]})
    # three sub-jobs, two allowed orders (the second one first), alternative windows
    c3 = dict(w, driver=[7, 1, 1, 1, 1], tour=[{'job': 1, 'loc': 2, 'svc': 0, 'tws': 0, 'twe': 'inf', 'dem': [0, 0, 1, 0]}],
              goal='unassigned+tours+cost', others=[], ignored=0, extra_required=0,
              job={'id': 95, 'perms': [[1, 0, 2], [0, 1, 2]],
                   'multi': [{'id': 951, 'places': [pl(3), pl(1)], 'dem': [0, 1, 0, 0]},
                             {'id': 952, 'places': [{'loc': None, 'svc': 0, 'tws': [[0, 5], [0, 'inf']]}], 'dem': [0, 2, 0, 0]},
                             {'id': 953, 'places': [pl(2)], 'dem': [0, 0, 0, 3]}]})
    return [c1, c2, c3]


# ---------------------------------------------------------------- rendering
def subs_of(c):
    j = c['job']
    return j['multi'] if 'multi' in j else [j]


def is_multi(c):
    return 'multi' in c['job']


def g_driver(d):
    return '(mkDC %s %s %s %s %s)' % tuple(z(x) for x in d)


def g_jobx(j):
    if 'multi' in j:
        perms = j.get('perms') or [list(range(len(j['multi'])))]
        return '(JMulti %s %s)' % (lst(j['multi'], K.g_single), lst(perms, lambda p: lst(p, nat)))
    return '(JSingle %s)' % K.g_single(j)


def model_term(c):
    return 'run_c20x %s %s %s %s %s' % (K.g_world(c), g_driver(c['driver']), lst(c['tour'], K.g_tact), g_jobx(c['job']),
                                        '0' if c['goal'].endswith('cost') else '1')


def canon_t(x):
    return 'inf' if x == 'inf' or (isinstance(x, int) and x >= INF // 2) else x


def second_quote(c, tours_q):
    return -c['job'].get('value', 0) if c['goal'] in VALUE_GOALS else tours_q


def compare(c, impl, model):
    if 'panic' in impl:
        return 'implementation panicked: %s' % impl['panic']
    q = impl['quote']
    verdict, steps, nums, sched = model
    if verdict[0] == 2:
        return 'the modelled eval_multi loop ran out of fuel'
    if not q['ok']:
        if verdict[0] != 0 or [q['code'], 1 if q['stopped'] else 0] != list(verdict[1:3]):
            return 'impl failure %s model %s' % (q, verdict)
        return None
    if verdict[0] != 1:
        return 'impl success %s, model %s' % (q['acts'], verdict)
    got = [[a['index'], a['place'], a['loc'], canon_t(a['svc']), canon_t(a['tws']), canon_t(a['twe'])] for a in q['acts']]
    exp = [[canon_t(x) for x in s] for s in steps]
    if got != exp:
        return 'quoted activities [index, place, loc, svc, tws, twe]: impl %s model %s' % (got, exp)
    mq = [-1, second_quote(c, nums[0]), verdict[1]]
    if q['cost'] != mq:
        return 'quote vector: impl %s model %s' % (q['cost'], mq)
    if impl['inserted'] and impl['after'] is not None:
        isched = [[canon_t(a), canon_t(b)] for a, b in impl['after']['sched']]
        msched = [[canon_t(a), canon_t(b)] for a, b in sched]
        if isched != msched:
            return 'schedule after the insertion: impl %s model %s' % (isched, msched)
        if impl['after']['dist'] != nums[2]:
            return 'distance after: impl %s model %s' % (impl['after']['dist'], nums[2])
        real = impl['fit_with'][2] - impl['fit_without'][2]
        mreal = (nums[4] - nums[3]) if c['goal'].endswith('cost') else (nums[2] - nums[1])
        if real != mreal:
            return 'realised change of the last objective layer: impl %s model %s' % (real, mreal)
    return None


# ---------------------------------------------------------------- oracle (independent of the model)
def shadow_tours(c, q):
    """the tour before, and after each quoted activity (python twin of the shadow tours)"""
    t = K.full_tour(c, c['tour'])
    for a, d in zip(t[1:], c['tour']):
        a['job'] = 'j%d' % d['job']
    subs = {('j%d' % s['id']): s for s in subs_of(c)}
    out = [t]
    for a in q['acts']:
        dem = subs[a['job']]['dem'] or [0, 0, 0, 0]
        x = {'loc': a['loc'], 'svc': tz(a['svc']), 'tws': tz(a['tws']), 'twe': tz(a['twe']), 'dem': dem, 'term': False,
             'job': a['job'], 'place': a['place']}
        t = t[:a['index'] + 1] + [x] + t[a['index'] + 1:]
        out.append(t)
    return out


def structure(c):
    """structural tag of the candidate: single / multi, with or without alternative places / windows"""
    alt = any(len(s['places']) > 1 or any(len(p['tws']) > 1 for p in s['places']) for s in subs_of(c))
    return ('multi' if is_multi(c) else 'single') + ('-alt-places' if alt else '')


def oracle(c, impl):
    if 'panic' in impl:
        return [{'class': 'panic', 'what': impl['panic']}]
    q = impl['quote']
    v = []
    if not q['ok']:
        if impl['inserted']:
            v.append({'class': 'inserted-without-quote', 'what': 'recreate step inserted a job the evaluator rejected'})
        return v
    if not impl['inserted']:
        return [{'class': 'quoted-not-inserted', 'what': 'evaluator quoted a success but the recreate step did not insert the job'}]
    tag = structure(c)
    new_tour = not c['tour']
    sh = shadow_tours(c, q)
    # every quoted activity must sit at one of the declared places / windows of its sub-job, in the order of the sub-jobs
    subs = subs_of(c)
    orders = [['j%d' % subs[i]['id'] for i in p] for p in (c['job'].get('perms') or [list(range(len(subs)))])]
    byid = {('j%d' % s['id']): s for s in subs}
    if [a['job'] for a in q['acts']] not in orders:
        v.append({'class': 'quoted-activities-not-an-allowed-order-' + tag, 'what': 'quoted activities %s, allowed %s' % ([a['job'] for a in q['acts']], orders)})
    else:
        for k, a in enumerate(q['acts']):
            s = byid[a['job']]
            ok = False
            if a['place'] < len(s['places']):
                p = s['places'][a['place']]
                loc = sh[k][a['index']]['loc'] if p['loc'] is None else p['loc']
                ok = (a['loc'] == loc and tz(a['svc']) == tz(p['svc']) and
                      any(tz(a['tws']) == tz(x[0]) and tz(a['twe']) == tz(x[1]) for x in p['tws']))
            if not ok:
                v.append({'class': 'quoted-place-not-declared-' + tag, 'what': 'quoted activity %s is not a place / window of %s' % (a, s)})
    # the tour after the real insertion holds exactly the quoted activities at the quoted positions
    if impl.get('after_acts') is not None:
        exp = [(a.get('job'), a.get('place', 0), a['loc'], a['svc'], canon_t(a['tws']), canon_t(a['twe'])) for a in sh[-1]]
        got = [(a['job'], a['place'], a['loc'], tz(a['svc']), canon_t(a['tws']), canon_t(a['twe'])) for a in impl['after_acts']]
        if [e[0] for e in exp] != [g[0] for g in got]:
            v.append({'class': 'inserted-order-differs-from-quoted-' + tag, 'what': 'tour after %s, quoted %s' % (got, exp)})
        else:
            for e, g in zip(exp, got):
                if e[0] is not None and e != g:
                    v.append({'class': 'inserted-activity-differs-from-quoted-' + tag, 'what': 'inserted %s, quoted %s' % (g, e)})
                    break
    fw, fo = impl['fit_with'], impl['fit_without']
    delta = [a - b for a, b in zip(fw, fo)]
    if delta[0] != q['cost'][0]:
        empty_before = (not c['tour']) and not c['others']
        cls = 'unassigned-ignored-counted-only-without-routes' if (empty_before and c['ignored'] > 0 and
                                                                      delta[0] == q['cost'][0] - c['ignored']) else 'unassigned-quote-' + tag
        v.append({'class': cls, 'what': 'unassigned objective changed by %s, quote %s' % (delta[0], q['cost'][0])})
    if delta[1] != q['cost'][1]:
        name = 'value' if c['goal'] in VALUE_GOALS else 'tours'
        v.append({'class': '%s-quote-%s' % (name, tag), 'what': '%s objective changed by %s, quote %s' % (name, delta[1], q['cost'][1])})
    if c['goal'].endswith('distance'):
        if delta[2] != q['cost'][2]:
            v.append({'class': 'distance-quote-' + tag, 'what': 'distance objective changed by %s, quote %s' % (delta[2], q['cost'][2])})
    else:
        vc, dc = c['veh']['costs'], c['driver']
        uniform = vc[2] == vc[3] == vc[4] and dc[2] == dc[3] == dc[4]
        nowait = True
        for t in sh:
            _, _, s, _ = K.simulate(c, t)
            nowait = nowait and all(a['tws'] <= s[i][0] for i, a in enumerate(t) if i > 0)
        if uniform and nowait and delta[2] != q['cost'][2]:
            cls = 'cost-quote-nowait-%s-%s%s' % ('new-tour' if new_tour else 'used-tour', tag, '-driver-costs' if any(dc) else '')
            v.append({'class': cls, 'what': 'cost objective changed by %s, quote %s (no waiting, uniform time rates; driver costs %s)' %
                      (delta[2], q['cost'][2], dc)})
    return v


def nontrivial_key(c, impl):
    if 'panic' in impl or not impl['quote']['ok']:
        return None
    return (str(c['tour']), str(c['job']), str(c['veh']), str(c['driver']), c['goal'])


def classify(c, impl):
    subs = subs_of(c)
    labs = ['goal=' + c['goal'], 'tour=' + ('empty' if not c['tour'] else 'used'), 'job=' + ('multi%d' % len(subs) if is_multi(c) else 'single'),
            'alternatives=' + ('yes' if structure(c).endswith('alt-places') else 'no'),
            'driver=' + ('zero' if not any(c['driver']) else ('fixed' if c['driver'][0] else 'variable-only'))]
    if 'panic' not in impl:
        labs.append('quote=' + ('success' if impl['quote']['ok'] else 'failure'))
        if impl['quote']['ok']:
            byid = {('j%d' % s['id']): s for s in subs}
            if is_multi(c):
                labs.append('permutations=' + ('default' if not c['job'].get('perms') else str(len(c['job']['perms']))))
                if c['job'].get('perms'):
                    order = [a['job'] for a in impl['quote']['acts']]
                    labs.append('chosen_order=' + ('given' if order == ['j%d' % s['id'] for s in subs] else 'permuted'))
            for a in impl['quote']['acts']:
                s = byid[a['job']]
                nalt = sum(len(p['tws']) for p in s['places'])
                if nalt > 1:
                    last = (a['place'] == len(s['places']) - 1 and
                            [canon_t(a['tws']), canon_t(a['twe'])] == [canon_t(tz(x)) for x in s['places'][-1]['tws'][-1]])
                    labs.append('chosen_alternative=' + ('last' if last else 'not_last'))
                    break
    return labs
