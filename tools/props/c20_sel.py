"""C20 sub-stream `c20_sel` — "so the cheapest quoted insertion really is the cheapest", by brute force on the implementation, and the
quote / fitness of every additive-looking objective feature the default pragmatic goal can contain.
A state of 0-2 used routes, 0-2 unused vehicles (own cost rates each, one shared driver), 1-3 pending single jobs with alternative
places / windows, 0-2 ignored jobs; a goal of 2-4 layers assembled from the real feature builders (single layers and Sum / WeightedSum
groups through GoalBuilder::add_multi).  The harness enumerates every (route, job, leg, place, window) combination with the real
goal.evaluate / goal.estimate, runs the real selection (sequential fold of eval_job_insertion_in_route and the rayon evaluate_all) and
carries EVERY accepted candidate out through a real recreate step.  The model (Model/GoalSel.v: run_c20sel) produces the same enumeration,
the selection and the realised objective values; theorems are in Properties/C20.v.  Registered by SUBSTREAMS in tools/props/c20.py."""
from fractions import Fraction
from coqterm import z, zlist, lst, nat
from props import corelib as K
from props.corelib import tz, INF

ID = 'C20'            # set by the driver to the parent's id
HARNESS = 'c20_sel'
COQ_IMPORTS = 'From VRP Require Import Base.Tac Model.Core Spec.Feasible Model.Eval Model.Objectives Model.ObjectivesX Model.GoalSel Model.GoalSelTD.'
MODEL_TARGETS = ['theories/Model/GoalSel.vo', 'theories/Model/GoalSelTD.vo']
SHARD = 20
SIZES = {'quick': 260, 'thorough': 4000, 'search': 2500}
RULE = ('cases: 0-2 used routes (tours of 1-4 activities, own vehicle cost rates each), 0-2 unused vehicles (at least one route is offered), '
        'one driver (zero in a third of the cases), 1-3 pending single jobs with 1-2 places x 1-2 windows, 0-2 ignored jobs; goal = one of '
        '16 layer lists over the features unassigned (default or weighted estimator) / tours / maxtours / arrival / value (job-only or '
        'actor-dependent read function) / distance / duration / cost, with Sum and WeightedSum groups; half of the cases free of waiting '
        '(window starts 0). Every accepted (route, job, leg, place, window) candidate is carried out through a real recreate step; '
        'compared with the model: the enumeration with its cost vectors, the sequential selection, the fitness vector after every candidate. '
        'Plus per run n/8 cases of op prag (the goal built by the real pragmatic reader from an objectives definition: break weights, value read '
        'function, multi-objective sum / weighted-sum; route-level estimate vector and fitness per job) and n/10 cases of op td (time-aware provider: '
        'distance quote vs realised change, compared with the model, nothing claimed). non-trivial = distinct cases with at least two accepted candidates.')
TRUSTED = ['c20_sel: time-independent routing, SimpleActivityCost, single jobs only (one activity per job), LegSelection::Exhaustive, '
           'BestResultSelector, InsertionPosition::Any; Sum / WeightedSum estimate closures re-stated in the harness as goal_reader.rs installs them; '
           'the carried-out candidate is handed to the real InsertionHeuristic::process by an InsertionEvaluator of the harness']
ASSUMPTIONS = ['the consequence clause is claimed for goals made of the additive objectives (unassigned / tours / value / distance, cost only when '
               'every candidate tour is free of waiting before and after and all time rates are uniform) and only while every activity-level '
               'estimate vector is lexicographically >= 0 (otherwise the route-cost prune of eval_job_insertion_in_route may skip the cheapest: '
               'finding C15-F1, listed for C20 as C20-F2)']

FEATS = ['unassigned', 'tours', 'maxtours', 'arrival', 'value', 'distance', 'duration', 'cost']
CODE = {f: i for i, f in enumerate(FEATS)}
ADDITIVE = ('unassigned', 'tours', 'maxtours', 'value', 'distance')

GOALS = [
    [['unassigned'], ['tours'], ['cost']],                       # the default pragmatic goal
    [['unassigned'], ['tours'], ['cost']],
    [['value'], ['unassigned'], ['tours'], ['cost']],            # ... when jobs have values
    [['unassigned'], ['tours'], ['distance']],
    [['unassigned'], ['tours'], ['distance']],
    [['unassigned'], ['maxtours'], ['distance']],
    [['unassigned'], ['value'], ['distance']],
    [['unassigned'], ['tours', 'value'], ['distance']],          # Sum group
    [['unassigned'], [['distance', 'tours'], [1, 7]]],           # WeightedSum group
    [['unassigned'], [['value', 'distance'], [3, 1]], ['tours']],
    [['unassigned'], ['cost'], ['distance']],                    # two layers with activity-level estimates
    [['unassigned'], ['distance'], ['cost']],
    [['unassigned'], ['distance', 'cost']],
    [['unassigned'], ['arrival'], ['distance']],                 # not additive: compared with the model, not claimed
    [['unassigned'], ['tours'], ['duration']],
    [['tours'], ['unassigned'], ['distance']],
]


def layer_feats(l):
    return l[0] if isinstance(l[0], list) else l


def layer_weights(l):
    return l[1] if isinstance(l[0], list) else None


# ---------------------------------------------------------------- generation
def gen_vehicle(rng, n, closed=None):
    w = K.gen_world(rng, nmax=n)
    v = w['veh']
    v['start'] = 0
    if closed is False:
        v['end'], v['shift_end'] = None, 'inf'
    elif v['end'] is not None:
        v['end'] = rng.choice([0, 0, rng.below(n)])
    return v


def gen_job(rng, c, jid, nowait, horizon):
    n = c['n']
    places = []
    for _ in range(rng.choice([1, 1, 2])):
        tws = []
        for _ in range(rng.choice([1, 1, 2])):
            k = rng.below(10)
            if k < 4:
                tws.append([0, 'inf'])
            elif k < 8:
                a = rng.range(0, horizon)
                tws.append([a, a + rng.range(0, 90)])
            else:
                a = rng.range(0, horizon)
                tws.append([a, 'inf'])
        if nowait:
            tws = [[0, x[1]] for x in tws]
        loc = None if rng.chance(1, 12) else rng.below(n)
        places.append({'loc': loc, 'svc': rng.choice([0, 0, 4, 9]), 'tws': tws})
    k = rng.below(8)
    dem = [0, 0, rng.range(1, 5), 0] if k < 3 else [rng.range(1, 5), 0, 0, 0] if k < 6 else [0, 0, 0, 0]
    return {'id': jid, 'places': places, 'dem': dem}


def generate(rng, tier, n):
    cases = []
    for _ in range(n):
        w = K.gen_world(rng, nmax=5)
        c = {'n': w['n'], 'dur': w['dur'], 'dist': w['dist']}
        nowait = rng.chance(1, 2)
        uniform = rng.chance(2, 3)
        nused = rng.choice([0, 1, 1, 2])
        nfree = rng.choice([0, 1, 1, 2]) if nused else rng.choice([1, 1, 2])
        routes, free = [], []
        for i in range(nused + nfree):
            v = gen_vehicle(rng, c['n'])
            if uniform:
                ct = rng.range(0, 3)
                v['costs'][2:] = [ct, ct, ct]
            if i < nused:
                ww = dict(c, veh=v)
                tour = []
                while not tour:
                    tour = K.gen_tour(rng, ww, maxlen=4, tight=False)
                for a in tour:
                    a['job'] = 100 * (i + 1) + a['job']
                    if nowait:
                        a['tws'] = 0
                routes.append({'veh': v, 'tour': tour})
            else:
                free.append({'veh': v})
        c['routes'], c['free'] = routes, free
        if rng.chance(1, 3):
            c['driver'] = [0, 0, 0, 0, 0]
        else:
            d = [rng.range(0, 30), rng.range(0, 2), rng.range(0, 2), rng.range(0, 2), rng.range(0, 2)]
            if uniform:
                d[2:] = [d[2]] * 3
            c['driver'] = d
        layers = rng.choice(GOALS)
        feats = [f for l in layers for f in layer_feats(l)]
        goal = {'layers': [{'feats': layer_feats(l), 'weights': layer_weights(l)} for l in layers],
                'estimator': rng.choice(['default', 'weighted']), 'value_by_actor': rng.chance(1, 3)}
        c['goal'] = goal
        horizon = 60 * 4
        jobs = [gen_job(rng, c, 90 + k, nowait, horizon) for k in range(rng.choice([1, 2, 2, 3]))]
        for j in jobs:
            if 'value' in feats:
                j['value'] = rng.range(1, 9)         # never 0: -1 * 0 is -0.0, whose order against +0.0 is C09's subject
            if goal['estimator'] == 'weighted':
                j['weight'] = rng.range(1, 4)
        if 'value' in feats:
            for r in routes:
                for a in r['tour']:
                    if rng.chance(1, 2):
                        a['value'] = rng.range(1, 9)
        c['jobs'] = jobs
        c['ignored'] = rng.choice([0, 0, 0, 1, 2])
        cases.append(c)
    prng = rng.fork('prag')
    cases += [gen_prag(prng) for _ in range(max(6, n // 8))]
    trng = rng.fork('td')
    cases += [gen_td(trng) for _ in range(max(6, n // 10))]
    return cases


# ---------------------------------------------------------------- the goal as the pragmatic reader builds it (op "prag")
PRAG_TYPES = {'unassigned': 'minimize-unassigned', 'tours': 'minimize-tours', 'maxtours': 'maximize-tours', 'arrival': 'minimize-arrival-time',
              'value': 'maximize-value', 'distance': 'minimize-distance', 'duration': 'minimize-duration', 'cost': 'minimize-cost'}
PRAG_GOALS = [          # the pragmatic validation wants exactly one of cost / distance / duration (E1602 / E1606), no duplicates (E1601), a
    # TOP-LEVEL maximize-value iff jobs have values (E1603 / E1607 do not look into multi-objective groups)
    [['value'], ['unassigned'], ['tours'], ['cost']],
    [['unassigned'], ['tours'], ['cost']],
    [['unassigned'], ['tours', 'distance']],
    [['value'], ['unassigned'], [['tours', 'cost'], [2, 3]]],
    [['unassigned'], ['value'], [['maxtours', 'duration'], [1, 4]]],
    [['unassigned'], ['arrival'], ['value'], ['distance']],
    [['unassigned'], ['maxtours'], ['distance']],
]


def gen_prag(rng):
    layers = rng.choice(PRAG_GOALS)
    feats = [f for l in layers for f in layer_feats(l)]
    njobs = rng.range(1, 3)
    n = njobs + 1                      # every location index is used: the vehicle at 0, job k at k
    m = [0 if i == j else rng.range(1, 30) for i in range(n) for j in range(n)]
    bu = rng.choice([None, 1, 2, 3, 5])
    bv = rng.choice([None, 1, 4])
    def obj(f):
        o = {'type': PRAG_TYPES[f]}
        if f == 'unassigned' and bu is not None:
            o['breaks'] = bu
        if f == 'value' and bv is not None:
            o['breaks'] = bv
        return o
    objectives = []
    for l in layers:
        fs, ws = layer_feats(l), layer_weights(l)
        if len(fs) == 1 and ws is None:
            objectives.append(obj(fs[0]))
        else:
            strat = {'name': 'sum'} if ws is None else {'name': 'weighted-sum', 'weights': ws}
            objectives.append({'type': 'multi-objective', 'strategy': strat, 'objectives': [obj(f) for f in fs]})
    jobs = []
    for k in range(njobs):
        j = {'id': 'job%d' % (k + 1), 'deliveries': [{'places': [{'location': {'index': k + 1}, 'duration': 0}], 'demand': [1]}]}
        if 'value' in feats and (k == 0 or rng.chance(1, 2)):
            j['value'] = rng.range(1, 9)
        jobs.append(j)
    shift = {'start': {'earliest': '1970-01-01T00:00:00Z', 'location': {'index': 0}}}
    if rng.chance(3, 4):
        shift['breaks'] = [{'time': ['1970-01-01T00:10:00Z', '1970-01-01T01:00:00Z'], 'places': [{'duration': 60}]}]
    fixed, pd, pt = rng.range(0, 40), rng.range(0, 3), rng.range(1, 3)     # E1306: not both rates zero
    problem = {'plan': {'jobs': jobs},
               'fleet': {'vehicles': [{'typeId': 'v', 'vehicleIds': ['v_1'], 'profile': {'matrix': 'car'},
                                       'costs': {'fixed': fixed, 'distance': pd, 'time': pt}, 'shifts': [shift], 'capacity': [10]}],
                         'profiles': [{'name': 'car'}]},
               'objectives': objectives}
    return {'prag': {'problem': problem, 'matrix': {'profile': 'car', 'travelTimes': m, 'distances': m}},
            'layers': [{'feats': layer_feats(l), 'weights': layer_weights(l)} for l in layers], 'bu': bu, 'bv': bv,
            'n': n, 'm': m, 'costs': [fixed, pd, pt, pt, pt]}


def prag_jobs(c):
    """(numeric id, name, value or None, is break) in the order of the names, as the harness reports them"""
    p = c['prag']['problem']
    out = [(j['id'], j.get('value'), False) for j in p['plan']['jobs']]
    for si, sh in enumerate(p['fleet']['vehicles'][0]['shifts']):
        for bi, _ in enumerate(sh.get('breaks', [])):
            out.append(('v_1_break_%d_%d' % (si, bi + 1), None, True))
    out.sort(key=lambda t: t[0])
    return [(k + 1, name, val, br) for k, (name, val, br) in enumerate(out)]


def prag_term(c):
    opt = lambda x: 'None' if x is None else '(Some %s)' % z(x)
    attrs = lst(prag_jobs(c), lambda t: '(%s, mkJA %s %s None)' % (z(t[0]), opt(t[2]), 'true' if t[3] else 'false'))
    veh = '(mkVeh %s 10 %s %s %s %s %s)' % (z(INF), *[z(x) for x in c['costs']])
    r = '(0, %s, (mkDC 0 0 0 0 0), 0, None, 0, [])' % veh
    layers = lst(c['layers'], lambda l: '(%s, %s)' % (zlist([CODE[f] for f in l['feats']]), zlist(l['weights'] or [])))
    return 'run_c20prag %s %s %s %s %s %s %s %s' % (z(c['n']), zlist(c['m']), zlist(c['m']), r, opt(c['bu']), opt(c['bv']), attrs, layers)


def prag_compare(c, impl, model):
    if 'error' in impl:
        return 'the pragmatic reader rejected the generated problem: %s' % impl['error']
    names = [t[1] for t in prag_jobs(c)]
    if [j['id'] for j in impl['jobs']] != names:
        return 'jobs of the problem: impl %s expected %s' % ([j['id'] for j in impl['jobs']], names)
    for j, (est, fit) in zip(impl['jobs'], model):
        if j['estimate'] != list(est):
            return 'route-level estimate vector of %s (%s): impl %s model %s' % (j['id'], j['type'], j['estimate'], list(est))
        if j['fitness_alone_unassigned'] != list(fit):
            return 'fitness with only %s unassigned: impl %s model %s' % (j['id'], j['fitness_alone_unassigned'], list(fit))
    return None


def prag_oracle(c, impl):
    """independent of the model: what a job adds to the unassigned objective while unassigned is what its insertion is quoted to remove"""
    if 'error' in impl:
        return []
    v = []
    pos = 0
    for li, l in enumerate(c['layers']):
        for fi, f in enumerate(l['feats']):
            if f == 'unassigned' and len(l['feats']) == 1:
                for j in impl['jobs']:
                    if j['estimate'][li] != -j['fitness_alone_unassigned'][pos + fi]:
                        v.append({'class': 'prag-unassigned-quote-%s' % ('break' if j['type'] == 'break' else 'job'),
                                  'what': '%s: unassigned it counts %s, its insertion is quoted %s' % (j['id'], j['fitness_alone_unassigned'][pos + fi], j['estimate'][li])})
        pos += len(l['feats'])
    return v


# ---------------------------------------------------------------- time-dependent routing (op "td"): excluded by the property
def gen_td(rng):
    n = 3
    dur = [0 if i == j else rng.range(5, 25) for i in range(n) for j in range(n)]        # the same in every matrix: durations are interpolated
    mats = []
    ts = 0
    for k in range(rng.range(2, 3)):
        dist = [0 if i == j else rng.range(1, 60) for i in range(n) for j in range(n)]
        mats.append({'ts': ts, 'dur': dur, 'dist': dist})
        ts += rng.range(30, 120)
    tour = [{'job': k + 1, 'loc': rng.range(1, 2), 'svc': rng.choice([0, 20, 60, 90]), 'tws': 0, 'twe': 'inf', 'dem': [0, 0, 0, 0]}
            for k in range(rng.range(1, 3))]
    closed = rng.chance(2, 3)
    veh = {'start': 0, 'end': 0 if closed else None, 'shift_start': 0, 'shift_end': 'inf', 'cap': 10, 'costs': [0, 1, 0, 0, 0]}
    job = {'id': 9, 'places': [{'loc': rng.range(1, 2), 'svc': rng.choice([0, 15, 40]), 'tws': [[0, 'inf']]}], 'dem': [0, 0, 0, 0]}
    nlegs = len(tour) + (1 if closed else 1)
    return {'td': {'matrices': mats, 'veh': veh, 'tour': tour, 'job': job, 'index': rng.below(nlegs)}}


def td_term(c):
    td = c['td']
    v = td['veh']
    ms = lst(td['matrices'], lambda m: '(%s, %s, %s)' % (z(m['ts']), zlist(m['dur']), zlist(m['dist'])))
    acts = ['mkAct (-1) %s 0 0 0 dzero 0 0' % z(v['start'])]
    acts += ['mkAct %s %s %s %s %s dzero 0 0' % (z(a['job']), z(a['loc']), z(a['svc']), z(tz(a['tws'])), z(tz(a['twe']))) for a in td['tour']]
    if v['end'] is not None:
        acts.append('mkAct (-1) %s 0 0 %s dzero 0 0' % (z(v['end']), z(INF)))
    p = td['job']['places'][0]
    x = '(mkAct %s %s %s 0 %s dzero 0 0)' % (z(td['job']['id']), z(p['loc']), z(p['svc']), z(INF))
    return 'run_c20td %s [%s] %s %s' % (ms, '; '.join(acts), nat(td['index']), x)


def td_compare(c, impl, model):
    if 'error' in impl:
        return 'the time-aware provider was not built: %s' % impl['error']
    if 'rejected' in impl:
        return None
    if model[0] != 0:
        return 'the modelled provider was not built: code %s' % model[0]
    got = [impl['quote'][0], impl['fit_without'][0], impl['fit_with'][0]]
    if got != list(model[1:]):
        return 'time-dependent routing [distance quote, distance before, distance after]: impl %s model %s' % (got, list(model[1:]))
    return None


def corpus():
    m = [0, 10, 20, 30, 10, 0, 10, 20, 20, 10, 0, 10, 30, 20, 10, 0]
    veh = lambda costs: {'start': 0, 'end': 0, 'shift_start': 0, 'shift_end': 'inf', 'cap': 10, 'costs': costs}
    pl = lambda loc: {'loc': loc, 'svc': 0, 'tws': [[0, 'inf']]}
    act = lambda j, loc: {'job': j, 'loc': loc, 'svc': 0, 'tws': 0, 'twe': 'inf', 'dem': [0, 0, 1, 0]}
    g = lambda layers, est='default', by_actor=False: {'layers': [{'feats': layer_feats(l), 'weights': layer_weights(l)} for l in layers],
                                                       'estimator': est, 'value_by_actor': by_actor}
    # one used route, one cheaper unused vehicle, two jobs, the default goal: the used route wins on the tours layer
    c1 = {'n': 4, 'dur': m, 'dist': m, 'routes': [{'veh': veh([50, 1, 1, 1, 1]), 'tour': [act(101, 2)]}], 'free': [{'veh': veh([5, 1, 1, 1, 1])}],
          'driver': [0, 0, 0, 0, 0], 'goal': g([['unassigned'], ['tours'], ['cost']]),
          'jobs': [{'id': 90, 'places': [pl(1), pl(3)], 'dem': [0, 0, 1, 0]}, {'id': 91, 'places': [pl(3)], 'dem': [0, 0, 1, 0]}], 'ignored': 0}
    # no route yet, two ignored jobs (finding C20-F1): every candidate opens the first route, the shift is the same for all of them
    c2 = {'n': 4, 'dur': m, 'dist': m, 'routes': [], 'free': [{'veh': veh([5, 1, 1, 1, 1])}, {'veh': veh([9, 2, 1, 1, 1])}],
          'driver': [3, 1, 1, 1, 1], 'goal': g([['unassigned'], ['tours'], ['distance']], est='weighted'),
          'jobs': [{'id': 90, 'places': [pl(1)], 'dem': [0, 0, 1, 0], 'weight': 3}, {'id': 91, 'places': [pl(2)], 'dem': [0, 0, 1, 0], 'weight': 1}],
          'ignored': 2}
    # actor-dependent values in a Sum group with the tours objective
    c3 = {'n': 4, 'dur': m, 'dist': m, 'routes': [{'veh': veh([5, 1, 1, 1, 1]), 'tour': [dict(act(101, 1), value=4)]}],
          'free': [{'veh': veh([5, 1, 1, 1, 1])}], 'driver': [0, 0, 0, 0, 0],
          'goal': g([['unassigned'], ['tours', 'value'], ['distance']], by_actor=True),
          'jobs': [{'id': 90, 'places': [pl(2)], 'dem': [0, 0, 1, 0], 'value': 2}, {'id': 91, 'places': [pl(3)], 'dem': [0, 0, 1, 0], 'value': 5}],
          'ignored': 0}
    # a non-metric matrix: the second job's insertion is cheaper than the route-level estimate allows for (C15-F1 seen through C20: C20-F2)
    nm = [0, 100, 1, 10, 1, 0, 1, 1, 1, 1, 0, 1, 1, 10, 1, 0]
    c4 = {'n': 4, 'dur': [0] * 16, 'dist': nm, 'routes': [{'veh': veh([0, 1, 0, 0, 0]), 'tour': [dict(act(105, 1), dem=[0, 0, 0, 0])]}], 'free': [],
          'driver': [0, 0, 0, 0, 0], 'goal': g([['unassigned'], ['tours'], ['distance']]),
          'jobs': [{'id': 98, 'places': [pl(3)], 'dem': [0, 0, 0, 0]}, {'id': 97, 'places': [pl(2)], 'dem': [0, 0, 0, 0]}], 'ignored': 0}
    # the witness of C20_td_distance_quote_refuted on the real TimeAwareMatrixTransportCost: quote 10, the tour's distance goes from 20 to 70
    m0 = [0, 10, 10, 10, 0, 10, 10, 10, 0]
    td = {'td': {'matrices': [{'ts': 0, 'dur': m0, 'dist': m0}, {'ts': 100, 'dur': m0, 'dist': [0, 10, 10, 50, 0, 10, 10, 10, 0]}],
                 'veh': {'start': 0, 'end': 0, 'shift_start': 0, 'shift_end': 'inf', 'cap': 10, 'costs': [0, 1, 0, 0, 0]},
                 'tour': [{'job': 1, 'loc': 1, 'svc': 85, 'tws': 0, 'twe': 'inf', 'dem': [0, 0, 0, 0]}],
                 'job': {'id': 9, 'places': [{'loc': 2, 'svc': 0, 'tws': [[0, 'inf']]}], 'dem': [0, 0, 0, 0]}, 'index': 0}}
    return [c1, c2, c3, td]      # c4 is corpus/C20/c20_sel/prune_negative_estimate.json (replay of finding C20-F2)


# ---------------------------------------------------------------- rendering
def g_vehicle(v):
    return '(mkVeh %s %s %s %s %s %s %s)' % (z(tz(v['shift_end'])), z(v['cap']), *[z(x) for x in v['costs']])


def g_rdesc(k, r, driver):
    v = r['veh']
    end = 'None' if v['end'] is None else '(Some %s)' % z(v['end'])
    return '(%s, %s, (mkDC %s %s %s %s %s), %s, %s, %s, %s)' % (z(k), g_vehicle(v), *[z(x) for x in driver], z(v['start']), end,
                                                             z(v['shift_start']), lst(r.get('tour', []), K.g_tact))


def all_jobs_values(c):
    """base value of every job id (candidates and jobs in tours)"""
    out = {j['id']: j.get('value', 0) for j in c['jobs']}
    for r in c['routes']:
        for a in r['tour']:
            out[a['job']] = a.get('value', 0)
    for k in range(c['ignored']):
        out[700 + k] = 0
    return out


def tables(c):
    if c['goal']['estimator'] == 'weighted':
        uest = [(j['id'], j.get('weight', 1)) for j in c['jobs']] + [(700 + k, 2 + k) for k in range(c['ignored'])]
    else:
        uest = []
    base = all_jobs_values(c)
    nact = len(c['routes']) + len(c['free'])
    if c['goal']['value_by_actor']:
        values = [(k * 100000 + j, v + k * (j % 3 + 1)) for k in range(nact) for j, v in sorted(base.items())]
    else:
        values = sorted(base.items())
    return uest, values


def model_term(c):
    if 'prag' in c:
        return prag_term(c)
    if 'td' in c:
        return td_term(c)
    pairs = lambda t: lst(t, lambda p: '(%s, %s)' % (z(p[0]), z(p[1])))
    uest, values = tables(c)
    used = [g_rdesc(k, r, c['driver']) for k, r in enumerate(c['routes'])]
    free = [g_rdesc(len(c['routes']) + k, r, c['driver']) for k, r in enumerate(c['free'])]
    layers = lst(c['goal']['layers'], lambda l: '(%s, %s)' % (zlist([CODE[f] for f in l['feats']]), zlist(l['weights'] or [])))
    return 'run_c20sel %s %s %s %s %s %s [] %s %s %s %s %s %s' % (
        z(c['n']), zlist(c['dur']), zlist(c['dist']), '[' + '; '.join(used) + ']', '[' + '; '.join(free) + ']',
        zlist([j['id'] for j in c['jobs']]), zlist([700 + k for k in range(c['ignored'])]), lst(c['jobs'], K.g_single),
        pairs(uest), pairs(values), 'true' if c['goal']['value_by_actor'] else 'false', layers)


def canon_t(x):
    return 'inf' if x == 'inf' or (isinstance(x, int) and x >= INF // 2) else x


def cand_key(a):
    return [a['k'], a['job'], a['index'], a['place'], a['loc'], canon_t(a['svc']), canon_t(a['tws']), canon_t(a['twe'])]


def frac(p):
    num, den = p
    if isinstance(num, str):
        return num
    if den == 0:
        return Fraction(0) if num == 0 else 'undefined'
    return Fraction(num, den)


def compare(c, impl, model):
    if 'panic' in impl:
        return 'implementation panicked: %s' % impl['panic']
    if 'prag' in c:
        return prag_compare(c, impl, model)
    if 'td' in c:
        return td_compare(c, impl, model)
    mcands, msel, mreal, mbase = model
    icands = impl['cands']
    got = [(cand_key(a), a['cost']) for a in icands]
    exp = [([canon_t(x) for x in key], list(vec)) for key, vec in mcands]
    if got != exp:
        for i, (g, e) in enumerate(zip(got, exp)):
            if g != e:
                return 'enumerated candidate %d [k, job, index, place, loc, svc, tws, twe], cost: impl %s model %s' % (i, g, e)
        return 'number of enumerated candidates: impl %d model %d' % (len(got), len(exp))
    verdict, chosen = msel
    seq = impl['seq']
    if seq['ok']:
        if verdict[0] != 1 or list(verdict[1:]) != seq['cost']:
            return 'sequential selection: impl cost %s model %s' % (seq['cost'], verdict)
        if cand_key(seq) != [canon_t(x) for x in chosen]:
            return 'sequentially selected candidate: impl %s model %s' % (cand_key(seq), chosen)
    elif verdict[0] != 0:
        return 'sequential selection: impl failure, model %s' % (verdict,)
    # objective values after every candidate and without insertion
    bnum, bden = mbase
    ib = [frac(p) for p in impl['base_fit']]
    mb = [frac(p) for p in zip(bnum, bden)]
    if ib != mb:
        return 'objective values of the hand-over without insertion: impl %s model %s' % (ib, mb)
    for i, (a, (real, fnum, fden)) in enumerate(zip(icands, mreal)):
        fi = [frac(p) for p in a['fit']]
        fm = [frac(p) for p in zip(fnum, fden)]
        if fi != fm:
            return 'objective values after candidate %d %s: impl %s model %s' % (i, cand_key(a), fi, fm)
    return None


# ---------------------------------------------------------------- oracle (independent of the model)
def layer_value(c, fit):
    """the value of every layer from the flat per-objective fitness list (fractions)"""
    out, pos = [], 0
    for l in c['goal']['layers']:
        vals = fit[pos:pos + len(l['feats'])]
        pos += len(l['feats'])
        ws = l['weights'] or [1] * len(vals)
        out.append(None if any(isinstance(v, str) for v in vals) else sum(v * w for v, w in zip(vals, ws)))
    return out


def route_of(c, k):
    rs = c['routes'] + c['free']
    return rs[k]


def nowait_route(c, r, extra=None, index=None):
    cc = dict(n=c['n'], dur=c['dur'], dist=c['dist'], veh=r['veh'])
    t = K.full_tour(cc, r.get('tour', []))
    if extra is not None:
        t = t[:index + 1] + [extra] + t[index + 1:]
    _, _, s, _ = K.simulate(cc, t)
    return all(a['tws'] <= s[i][0] for i, a in enumerate(t) if i > 0)


def uniform_rates(c, r):
    vc, dc = r['veh']['costs'], c['driver']
    return vc[2] == vc[3] == vc[4] and dc[2] == dc[3] == dc[4]


def layer_claimed(c, l, a):
    """is quote = realised change claimed for this layer and this candidate"""
    r = route_of(c, a['k'])
    for f in l['feats']:
        if f in ADDITIVE:
            continue
        if f == 'cost':
            x = {'loc': a['loc'], 'svc': tz(a['svc']), 'tws': tz(a['tws']), 'twe': tz(a['twe']), 'dem': [0, 0, 0, 0], 'term': False}
            if uniform_rates(c, r) and nowait_route(c, r) and nowait_route(c, r, x, a['index']):
                continue
        return False
    return True


def lex_lt(a, b):
    return list(a) < list(b)


def oracle(c, impl):
    if 'panic' in impl:
        return [{'class': 'panic', 'what': impl['panic']}]
    if 'prag' in c:
        return prag_oracle(c, impl)
    if 'td' in c:
        return []                      # time-dependent routing is excluded by the property: nothing is claimed
    v = []
    cands = impl['cands']
    base = layer_value(c, [frac(p) for p in impl['base_fit']])
    est = c['goal']['estimator']
    no_routes = not c['routes']
    ign = sum((2 + k) if est == 'weighted' else 1 for k in range(c['ignored']))
    deltas = []
    all_claimed = True
    seen = set()
    for a in cands:
        after = layer_value(c, [frac(p) for p in a['fit']])
        delta = [None if (x is None or y is None) else x - y for x, y in zip(after, base)]
        deltas.append(delta)
        new_tour = a['k'] >= len(c['routes'])
        for li, l in enumerate(c['goal']['layers']):
            if not layer_claimed(c, l, a):
                all_claimed = False
                continue
            q, d = a['cost'][li], delta[li]
            if d == q:
                continue
            ws = l['weights'] or [1] * len(l['feats'])
            shift = -ign * sum(w for f, w in zip(l['feats'], ws) if f == 'unassigned') if no_routes else 0
            if shift and d == q + shift:
                cls = 'unassigned-ignored-counted-only-without-routes'
            else:
                cls = 'sel-quote-%s%s%s%s' % ('+'.join(l['feats']), '-weighted-group' if l['weights'] else '',
                                              '-new-tour' if new_tour else '-used-tour',
                                              ('-estimator-' + est) if 'unassigned' in l['feats'] else
                                              ('-by-actor' if 'value' in l['feats'] and c['goal']['value_by_actor'] else ''))
            if cls not in seen:
                seen.add(cls)
                v.append({'class': cls, 'what': 'layer %d %s: objective value changed by %s, quote %s (candidate %s)' % (li, l['feats'], d, q, cand_key(a))})
    # the selection
    seq = impl['seq']
    if cands and not seq['ok']:
        v.append({'class': 'sel-nothing-selected-although-candidates-exist', 'what': '%d accepted candidates, selection failed with code %s' % (len(cands), seq.get('code'))})
    if seq['ok']:
        idx = [i for i, a in enumerate(cands) if cand_key(a) == cand_key(seq)]
        if not idx:
            v.append({'class': 'sel-selected-not-enumerated', 'what': 'selected %s is none of the %d enumerated candidates' % (cand_key(seq), len(cands))})
        else:
            chosen = idx[0]
            if cands[chosen]['cost'] != seq['cost']:
                v.append({'class': 'sel-selected-cost-differs-from-quote', 'what': 'selected cost %s, quote of that candidate %s' % (seq['cost'], cands[chosen]['cost'])})
            rc = {(p['k'], p['job']): p.get('route_costs') for p in impl['pairs']}
            lower_bound = all(not lex_lt(a['cost'], rc[(a['k'], a['job'])]) for a in cands)
            better_q = [a for a in cands if lex_lt(a['cost'], seq['cost'])]
            if better_q:
                cls = 'sel-selected-not-cheapest-quoted' if lower_bound else 'selected-not-cheapest-under-route-cost-prune'
                v.append({'class': cls, 'what': 'selected %s with quote %s, candidate %s has quote %s' % (cand_key(seq), seq['cost'], cand_key(better_q[0]), better_q[0]['cost'])})
            elif all_claimed:
                better = [i for i, d in enumerate(deltas) if lex_lt(d, deltas[chosen])]
                if better:
                    b = better[0]
                    shifted = no_routes and c['ignored'] > 0
                    v.append({'class': 'sel-selected-not-cheapest-realised' + ('-first-route-with-ignored-jobs' if shifted else ''),
                              'what': 'selected %s realises %s, candidate %s realises %s' % (cand_key(seq), deltas[chosen], cand_key(cands[b]), deltas[b])})
            par = impl['par']
            if lower_bound and (not par['ok'] or par['cost'] != seq['cost']):
                v.append({'class': 'sel-parallel-selection-differs', 'what': 'sequential fold selects cost %s, evaluate_all %s' % (seq['cost'], par)})
    return v


def nontrivial_key(c, impl):
    if 'prag' in c:
        return None if ('panic' in impl or 'error' in impl) else ('prag', str(c['prag']['problem']))
    if 'td' in c:
        return None if ('panic' in impl or 'quote' not in impl) else ('td', str(c['td']))
    if 'panic' in impl or len(impl['cands']) < 2:
        return None
    return (str(c['routes']), str(c['free']), str(c['jobs']), str(c['goal']), str(c['driver']))


def classify(c, impl):
    if 'prag' in c:
        return ['op=pragmatic-goal-reader', 'prag_goal=' + '|'.join('+'.join(l['feats']) + ('*w' if l['weights'] else '') for l in c['layers']),
                'prag_breaks_unassigned=%s' % c['bu'], 'prag_breaks_value=%s' % c['bv'],
                'prag_break_job=' + ('yes' if any(t[3] for t in prag_jobs(c)) else 'no')]
    if 'td' in c:
        labs = ['op=time-dependent-routing']
        if 'quote' in impl:
            labs.append('td_distance_quote=' + ('equals_realised' if impl['quote'][0] == impl['fit_with'][0] - impl['fit_without'][0] else 'differs_from_realised'))
        elif 'panic' not in impl:
            labs.append('td_insertion=rejected')
        return labs
    feats = [f for l in c['goal']['layers'] for f in l['feats']]
    labs = ['goal=' + '|'.join('+'.join(l['feats']) + ('*w' if l['weights'] else '') for l in c['goal']['layers']),
            'used_routes=%d' % len(c['routes']), 'free_vehicles=%d' % len(c['free']), 'jobs=%d' % len(c['jobs']), 'ignored=%d' % c['ignored'],
            'estimator=' + (c['goal']['estimator'] if 'unassigned' in feats else 'n/a'),
            'value_fn=' + (('by_actor' if c['goal']['value_by_actor'] else 'job') if 'value' in feats else 'n/a'),
            'driver=' + ('zero' if not any(c['driver']) else 'costs')]
    if 'panic' not in impl:
        n = len(impl['cands'])
        labs.append('candidates=' + ('0' if n == 0 else '1' if n == 1 else '2-5' if n <= 5 else '6-20' if n <= 20 else '>20'))
        if impl['seq']['ok']:
            labs.append('selected=' + ('new_tour' if impl['seq']['k'] >= len(c['routes']) else 'used_tour'))
            rc = {(p['k'], p['job']): p.get('route_costs') for p in impl['pairs']}
            labs.append('lower_bound=' + ('holds' if all(not lex_lt(a['cost'], rc[(a['k'], a['job'])]) for a in impl['cands']) else 'fails'))
            claimed = all(layer_claimed(c, l, a) for a in impl['cands'] for l in c['goal']['layers'])
            labs.append('all_layers_claimed=' + ('yes' if claimed else 'no'))
    return labs
