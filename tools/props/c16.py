"""C16 — routing-cost providers return exactly the supplied data (plugin for tools/verif.py)."""
import datetime
import math
from fractions import Fraction as F
from coqterm import zlist, z, nat, boolean
from props.floats import of_bits

ID = 'C16'
HARNESS = 'c16'
COQ_IMPORTS = 'From VRP Require Import Base.Tac Model.Routing.'
MODEL_TARGETS = ['theories/Model/Routing.vo']
SIZES = {'quick': 1400, 'thorough': 20000, 'search': 6000}
SUBSTREAMS = ['c16_doc']           # documents -> read_pragmatic -> provider answers, approximation, binary search (tools/props/c16_doc.py)
RULE = ('cases: (core) matrix sets for create_matrix_transport_cost[_with_fallback]: 1-4 locations, 1-3 profiles in permuted '
        'order, all-distinct asymmetric integer entries, time-aware sets with 2-4 unsorted matrices per profile (integer or '
        'common-fraction timestamps, gaps 2^a*b), queries on every clause boundary (at / before / after / strictly between / '
        'inside the second of a matrix timestamp / negative and zero time, dyadic scales, out-of-range cells and profiles, '
        'with and without a fallback); malformed stream (empty, length mismatch, mixed sizes, non-square lengths, mixed '
        'timestamps, single timed matrix, duplicate / missing profile index); (simple) SimpleTransportCost; (prag) problems '
        'read through read_pragmatic with named / positional / timed matrices, error codes, vehicle scales, custom location, '
        'and a malformed stream; (approx) coordinate problems without matrices; (sci) scientific CoordIndex. '
        'non-trivial = distinct accepted set with >= 2 matrices or >= 2 locations whose queries include an off-diagonal cell, '
        'or a rejected malformed set.')
TRUSTED = ['f64 arithmetic is exact on the generated data (integers < 2^31, dyadic scales/timestamps, interpolation ratios '
           'with power-of-two denominators); validated on every run by exact comparison with the rational model',
           'slice::binary_search: the provider model uses the contract on strictly increasing slices; the loop of '
           'core::slice::binary_search_by (rust >= 1.82) is modelled too (std_bsearch), proved equal to the contract on every '
           'strictly increasing list (C16_binary_search_refines) and compared with the real slice::binary_search on every run '
           '(sub-stream c16_doc, op bs); sets with equal truncated timestamps inside a profile are only compared on acceptance',
           'haversine trigonometry (libm sin / cos / atan2) is not modelled: the approximation is proved relative to an '
           'abstract distance function (symmetric, zero on equal points); the STRUCTURE of the real function is modelled over '
           'abstract operations and proved symmetric (C16_haversine_structure_symmetric; it was not before repair d74b2b6, '
           'finding C16-F6); its raw values are recovered through the public API, checked to be exactly symmetric, and '
           'everything after them (rounding, division by the speed, per-profile matrices, provider answers) is compared exactly']
ASSUMPTIONS = ['times and timestamps are below 2^53 and u64 saturation of `as u64` is only reached at 0',
               'HashMap grouping keeps per-key insertion order (collect_group_by pushes in iteration order)']

SCALES = [(1, 1), (1, 1), (3, 2), (5, 4), (1, 2), (2, 1), (7, 8), (13, 8), (1, 4)]
ERRS = {1: 'no matrix data found', 2: 'distance and duration collections have different length',
        3: "distance lengths don't match", 4: "duration lengths don't match", 5: 'time aware routing',
        6: 'duplicate profiles can be passed only', 7: 'requires all matrices to have timestamp',
        8: 'single matrix', 9: 'should be square matrices of the same size', 101: 'all matrices should have profile set or none', 102: 'when timestamp is set',
        103: 'not enough routing matrices', 104: 'invalid matrix index', 105: 'amount of fleet profiles does not match'}


# ------------------------------------------------------------------------------------------------ helpers
def rsqrt(n):
    r = math.isqrt(n)
    return r + 1 if n - r * r > r else r


def fq(p):
    return F(p[0], p[1])


def val(b):
    """harness value (bit string or 'panic') -> Fraction | 'panic' | 'nonfinite'"""
    if b == 'panic':
        return 'panic'
    x = of_bits(int(b))
    if x != x or x in (float('inf'), float('-inf')):
        return 'nonfinite'
    return F(x)


def distinct_values(rng, n, lo=1, hi=10 ** 6):
    seen = set()
    out = []
    while len(out) < n:
        v = rng.range(lo, hi)
        if v not in seen:
            seen.add(v)
            out.append(v)
    return out


def matrix_values(rng, n, count):
    """`count` pairs of (durations, distances) n x n lists with globally distinct entries, zero diagonal half of the time"""
    vals = distinct_values(rng, 2 * count * n * n)
    out = []
    zero_diag = rng.chance(1, 2)
    for c in range(count):
        du = vals[(2 * c) * n * n:(2 * c + 1) * n * n]
        di = vals[(2 * c + 1) * n * n:(2 * c + 2) * n * n]
        if zero_diag:
            for i in range(n):
                du[i * n + i] = 0
                di[i * n + i] = 0
        out.append((du, di))
    return out


def iso(secs):
    return (datetime.datetime(1970, 1, 1) + datetime.timedelta(seconds=secs)).strftime('%Y-%m-%dT%H:%M:%SZ')


def gap(rng):
    a = rng.range(0, 6)
    b = rng.choice([1, 1, 1, 3, 5, 225])
    return a, b


# ------------------------------------------------------------------------------------------------ generators
def gen_core_agnostic(rng):
    n = rng.range(1, 4)
    k = rng.range(1, 3)
    mv = matrix_values(rng, n, k)
    mats = [{'i': i, 'ts': None, 'du': mv[i][0], 'di': mv[i][1]} for i in range(k)]
    mats = rng.shuffle(mats)
    fb = rng.chance(1, 4)
    qs = []
    for _ in range(rng.range(4, 10)):
        p = rng.below(k)
        s = rng.choice(SCALES)
        fr, to = rng.below(n), rng.below(n)
        r = rng.below(12)
        if r == 0:
            fr = n + rng.below(2)            # outside the matrix
        elif r == 1:
            to = n * n + rng.below(3)
        elif r == 2:
            p = k                            # unknown profile
        qs.append([p, s[0], s[1], fr, to, rng.range(-8, 400), rng.choice([1, 2, 4]), rng.below(2)])
    return {'op': 'core', 'kind': 'agnostic', 'mats': mats, 'fb': fb, 'qs': qs}


def gen_core_aware(rng, dup_ts=False):
    n = rng.range(1, 3)
    k = rng.range(1, 2)
    per = [rng.range(2, 4) for _ in range(k)]
    mv = matrix_values(rng, n, sum(per))
    if rng.chance(1, 5):                     # sparse profile indices are accepted by the time-aware provider
        idxs = sorted(rng.shuffle(list(range(4)))[:k])
    else:
        idxs = list(range(k))
    mats, qs, c = [], [], 0
    for pi, p in enumerate(idxs):
        frac = rng.choice([(0, 1), (0, 1), (0, 1), (1, 2), (1, 4), (3, 4)])
        t = rng.range(0, 60)
        stamps, gaps = [], []
        for j in range(per[pi]):
            stamps.append(t)
            a, b = gap(rng)
            gaps.append((a, b))
            t += (2 ** a) * b
        if dup_ts and pi == 0:
            stamps[1] = stamps[0]
        for j in range(per[pi]):
            tsq = F(stamps[j]) + fq(frac)
            mats.append({'i': p, 'ts': [tsq.numerator, tsq.denominator], 'du': mv[c][0], 'di': mv[c][1]})
            c += 1
        real = [F(s) + fq(frac) for s in stamps]
        for _ in range(rng.range(4, 9)):
            r = rng.below(12)
            if r < 2:
                t = rng.choice(real)                                         # at a matrix timestamp
            elif r == 2:
                t = real[0] - F(rng.range(1, 40), rng.choice([1, 2, 4]))     # before (may be negative)
            elif r == 3:
                t = real[-1] + F(rng.range(1, 4000), rng.choice([1, 2, 4]))  # after
            elif r == 4:
                t = F(stamps[rng.below(len(stamps))]) + F(rng.range(0, 3), 4)   # inside the second of a timestamp
            elif r == 5:
                t = F(rng.choice([0, 0, -1, -7]), rng.choice([1, 2]))
            else:
                j = rng.below(len(stamps) - 1)                               # strictly between two neighbours
                a, b = gaps[j]
                cexp = rng.range(0, 2)
                steps = 2 ** (a + cexp)
                t = real[j] + F(rng.range(1, steps - 1) * b, 2 ** cexp) if steps > 1 else real[j] + F(b, 2)
            s = rng.choice(SCALES)
            fr, to = rng.below(n), rng.below(n)
            if rng.chance(1, 14):
                to = n * n
            qs.append([p, s[0], s[1], fr, to, t.numerator, t.denominator, rng.below(2)])
    if rng.chance(1, 6):
        s = rng.choice(SCALES)
        qs.append([max(idxs) + 1, s[0], s[1], 0, 0, 5, 1, 0])             # unknown profile -> panic
    return {'op': 'core', 'kind': 'aware-dup' if dup_ts else 'aware', 'mats': rng.shuffle(mats),
            'fb': rng.chance(1, 5), 'qs': rng.shuffle(qs)}


def gen_core_malformed(rng):
    base = gen_core_aware(rng) if rng.chance(1, 2) else gen_core_agnostic(rng)
    mats = base['mats']
    timed = mats[0]['ts'] is not None
    n2 = len(mats[0]['du'])
    n = rsqrt(n2)
    what = rng.below(9)
    m = mats[rng.below(len(mats))]
    if what == 0:
        mats = []
        tag = 'empty'
    elif what == 1:
        m['di'] = m['di'] + [5] if rng.chance(1, 2) else m['di'][:-1]
        tag = 'dur-dist-length'
    elif what == 2:
        big = (n + 1) * (n + 1)
        m['du'] = distinct_values(rng, big)
        m['di'] = distinct_values(rng, big)
        if len(mats) == 1:
            mats.append(dict(m, i=m['i'] + (0 if timed else 1), du=distinct_values(rng, n2), di=distinct_values(rng, n2),
                             ts=[m['ts'][0] + 64 * m['ts'][1], m['ts'][1]] if timed else None))
        tag = 'mixed-sizes'
    elif what == 3:
        # lengths with the same rounded square root that are not squares (or differ between matrices)
        cands = [l for l in range(max(1, n2 - 2 * n), n2 + 2 * n + 1) if rsqrt(l) == n and l != n2]
        if not cands:
            cands = [2] if n == 1 else [n2 + 1]
        l = rng.choice(cands)
        targets = mats if rng.chance(1, 2) else [m]
        for x in targets:
            x['du'] = distinct_values(rng, l)
            x['di'] = distinct_values(rng, l)
        tag = 'nonsquare'
    elif what == 4:
        if timed:
            m['ts'] = None
        else:
            if len(mats) == 1:
                mats.append(dict(m, i=m['i'] + 1))
            mats[0]['ts'] = [5, 1]
        tag = 'mixed-timestamps'
    elif what == 5:
        if timed:
            p = mats[0]['i']
            keep = [x for x in mats if x['i'] != p]
            mats = [mats[0]] + keep
        else:
            for j, x in enumerate(mats):
                x['ts'] = [10 + 8 * j, 1]
        tag = 'single-timed-matrix'
    elif what == 6:
        if timed:
            for x in mats:
                x['ts'] = None
        else:
            mats.append(dict(m, du=list(m['du']), di=list(m['di'])))
        tag = 'duplicate-profile'
    elif what == 7:
        if timed:
            for x in mats:
                x['ts'] = None
            for j, x in enumerate(mats):
                x['i'] = j + 1
        else:
            for x in mats:
                if x['i'] >= m['i']:
                    x['i'] += rng.range(1, 2)
        tag = 'profile-gap'
    else:
        m['du'] = m['du'][:-1]
        m['di'] = m['di'][:-1]
        tag = 'short-matrix'
    base['mats'] = mats
    base['kind'] = 'malformed'
    base['tag'] = tag
    return base


def gen_simple(rng):
    n = rng.range(1, 4)
    l1 = n * n if rng.chance(3, 4) else rng.range(0, 18)
    l2 = n * n if rng.chance(3, 4) else rng.range(0, 18)
    v = distinct_values(rng, l1 + l2)
    qs = [[rng.below(n + 1), rng.below(n + 1)] for _ in range(rng.range(3, 8))]
    return {'op': 'simple', 'du': v[:l1], 'di': v[l1:], 'qs': qs}


def gen_prag(rng, malformed=False):
    n = rng.range(1, 3)
    k = rng.range(1, 3)
    names = distinct_values(rng, k, 0, 9)
    timed = rng.chance(1, 3)
    positional = (not timed) and rng.chance(1, 4)
    per = [rng.range(2, 3) if timed else 1 for _ in range(k)]
    mv = matrix_values(rng, n, sum(per))
    mats, c = [], 0
    stamps_of = {}
    for pi, name in enumerate(names):
        t = rng.range(0, 5000)
        stamps, gaps = [], []
        for j in range(per[pi]):
            stamps.append(t)
            a, b = gap(rng)
            gaps.append((a, b))
            t += (2 ** a) * b
        stamps_of[name] = (stamps, gaps)
        for j in range(per[pi]):
            du, di = mv[c]
            c += 1
            err = None
            if rng.chance(1, 3):
                err = [rng.choice([0, 0, 0, 1, 3, -1]) for _ in range(n * n)]
            mats.append({'profile': None if positional else name, 'ts': stamps[j] if timed else None,
                         'tss': iso(stamps[j]) if timed else None, 'times': du, 'dists': di, 'err': err})
    if not positional:
        mats = rng.shuffle(mats)
    vehicles = []
    for _ in range(rng.range(1, 4)):
        s = rng.choice(SCALES + [(0, 0), (0, 0)])
        vehicles.append([rng.choice(names), s[0], s[1]])
    for name in names:                       # every fleet profile is used by some vehicle
        if not any(v[0] == name for v in vehicles):
            vehicles.append([name, 0, 0])
    custom = rng.chance(1, 6)
    qs = []
    for _ in range(rng.range(4, 10)):
        vi = rng.below(len(vehicles))
        fr, to = rng.below(n), rng.below(n)
        t = rng.range(0, 9000)
        if timed:
            stamps, gaps = stamps_of[vehicles[vi][0]]
            r = rng.below(6)
            if r == 0:
                t = rng.choice(stamps)
            elif r == 1:
                t = max(0, stamps[0] - rng.range(1, 50))
            elif r == 2:
                t = stamps[-1] + rng.range(1, 500)
            else:
                j = rng.below(len(stamps) - 1)
                a, b = gaps[j]
                t = stamps[j] + (rng.range(1, 2 ** a - 1) * b if a > 0 else 0)
        if custom and rng.chance(1, 3):
            if rng.chance(1, 2):
                fr = n * n
            else:
                to = n * n
        qs.append([vi, fr, to, t])
    case = {'op': 'prag', 'kind': 'prag-timed' if timed else ('prag-positional' if positional else 'prag-named'),
            'nloc': n, 'custom': custom, 'profiles': names, 'vehicles': vehicles, 'mats': mats, 'qs': qs}
    if not malformed:
        return case
    what = rng.below(8)
    m = mats[rng.below(len(mats))]
    if what == 0:
        if len(mats) == 1:
            mats.append(dict(m))
        mats[0]['profile'] = None if mats[0]['profile'] is not None else names[0]
        mats[1]['profile'] = names[0] if mats[0]['profile'] is None else None
        tag = 'mixed-profile-names'
    elif what == 1:
        for x in mats:
            x['profile'] = None
        mats[0]['ts'], mats[0]['tss'] = 100, iso(100)
        tag = 'timestamp-without-profile'
    elif what == 2:
        extra = [x for x in range(10, 14)]
        case['profiles'] = names + [rng.choice(extra) for _ in range(len(mats) - len(names) + 1)]
        case['profiles'] = names + sorted(set(case['profiles'][len(names):]))
        while len(case['profiles']) <= len(mats):
            case['profiles'].append(20 + len(case['profiles']))
        tag = 'fewer-matrices-than-profiles'
    elif what == 3:
        m['err'] = [0] * (len(m['dists']) + rng.range(1, 2))
        tag = 'error-codes-longer'
    elif what == 4:
        big = (n + 1) * (n + 1)
        tgt = mats[-1] if len(mats) > 1 else None
        if tgt is None:
            mats.append(dict(m, ts=(m['ts'] + 64) if m['ts'] is not None else None,
                             tss=iso(m['ts'] + 64) if m['ts'] is not None else None))
            tgt = mats[-1]
        tgt['times'] = distinct_values(rng, big)
        tgt['dists'] = distinct_values(rng, big)
        tgt['err'] = None
        tag = 'mixed-sizes'
    elif what == 5:
        m['profile'] = 77 if m['profile'] is not None else None
        tag = 'unknown-matrix-profile'
    elif what == 6:
        mats.append(dict(m))
        tag = 'extra-matrix'
    else:
        m['times'] = m['times'][:-1]
        tag = 'times-shorter'
    case['kind'] = 'prag-malformed'
    case['tag'] = tag
    return case


def gen_approx(rng):
    nl = rng.range(1, 5)
    locs = []
    for _ in range(nl):
        lat = F(52 * 1024 + rng.range(0, 2048), 1024)
        lng = F(13 * 1024 + rng.range(0, 2048), 1024)
        locs.append([lat.numerator, lat.denominator, lng.numerator, lng.denominator])
    if nl > 1 and rng.chance(1, 4):
        locs[-1] = list(locs[0])               # the same coordinate twice
    order = [rng.below(nl) for _ in range(rng.range(1, 5))]
    speeds = [rng.choice([None, None, [10, 1], [5, 1], [25, 2], [16, 1], [1, 2]]) for _ in range(rng.range(1, 3))]
    return {'op': 'approx', 'locs': locs, 'order': order, 'depot': rng.below(nl), 'speeds': speeds}


def gen_sci(rng):
    nl = rng.range(1, 6)
    r = rng.choice([3, 20, 100, 3000])
    locs = [[rng.range(-r, r), rng.range(-r, r)] for _ in range(nl)]
    if nl > 1 and rng.chance(1, 3):
        locs[rng.below(nl)] = list(locs[rng.below(nl)])
    qs = [[rng.below(nl + 1), rng.below(nl + 1)] for _ in range(rng.range(3, 10))]
    return {'op': 'sci', 'locs': locs, 'qs': qs}


def generate(rng, tier, n):
    cases = []
    for _ in range(n):
        r = rng.below(100)
        if r < 20:
            cases.append(gen_core_agnostic(rng))
        elif r < 48:
            cases.append(gen_core_aware(rng))
        elif r < 51:
            cases.append(gen_core_aware(rng, dup_ts=True))
        elif r < 63:
            cases.append(gen_core_malformed(rng))
        elif r < 67:
            cases.append(gen_simple(rng))
        elif r < 84:
            cases.append(gen_prag(rng))
        elif r < 92:
            cases.append(gen_prag(rng, malformed=True))
        elif r < 96:
            cases.append(gen_approx(rng))
        else:
            cases.append(gen_sci(rng))
    return cases


def corpus():
    return [
        # profile order / indexing / scale on an asymmetric two-profile set
        {'op': 'core', 'kind': 'agnostic', 'fb': False,
         'mats': [{'i': 1, 'ts': None, 'du': [1, 2, 3, 4], 'di': [5, 6, 7, 8]},
                  {'i': 0, 'ts': None, 'du': [11, 12, 13, 14], 'di': [15, 16, 17, 18]}],
         'qs': [[0, 3, 2, 0, 1, 0, 1, 0], [1, 1, 1, 1, 0, 5, 2, 1], [0, 1, 2, 1, 0, 0, 1, 0]]},
        # unsorted time-aware set, all clause boundaries at integer times
        {'op': 'core', 'kind': 'aware', 'fb': False,
         'mats': [{'i': 0, 'ts': [18, 1], 'du': [0, 50, 60, 0], 'di': [0, 500, 600, 0]},
                  {'i': 0, 'ts': [10, 1], 'du': [0, 10, 20, 0], 'di': [0, 100, 200, 0]},
                  {'i': 0, 'ts': [34, 1], 'du': [0, 90, 70, 0], 'di': [0, 900, 700, 0]}],
         'qs': [[0, 1, 1, 0, 1, 12, 1, 0], [0, 3, 2, 1, 0, 26, 1, 1], [0, 1, 1, 0, 1, 5, 1, 0], [0, 1, 1, 0, 1, 99, 1, 0],
                [0, 1, 1, 0, 1, 18, 1, 0], [0, 1, 1, 0, 1, 10, 1, 0], [0, 1, 1, 0, 1, 34, 1, 0], [0, 1, 1, 0, 1, 17, 1, 0],
                [0, 1, 1, 0, 1, 19, 1, 0]]},
    ]


# ------------------------------------------------------------------------------------------------ model terms
def q_opt(p):
    return 'None' if p is None else '(Some (%s, %s))' % (z(p[0]), z(p[1]))


def mat_term(m):
    return '(mkMz %s %s %s %s)' % (nat(m['i']), q_opt(m['ts']), zlist(m['du']), zlist(m['di']))


def model_term(c):
    op = c['op']
    if op == 'core':
        ms = '[' + '; '.join(mat_term(m) for m in c['mats']) + ']'
        if not c['mats']:
            ms = '(@nil matrix)'
        qs = '[' + '; '.join('(%s, %s, %s, %s, %s, %s, %s)' % (nat(q[0]), z(q[1]), z(q[2]), nat(q[3]), nat(q[4]), z(q[5]), z(q[6]))
                             for q in c['qs']) + ']'
        if not c['qs']:
            qs = '(@nil query)'
        return 'run_core %s %s %s' % (ms, boolean(c['fb']), qs)
    if op == 'simple':
        qs = '[' + '; '.join('(%s, %s)' % (nat(q[0]), nat(q[1])) for q in c['qs']) + ']'
        return 'run_simple %s %s %s' % (zlist(c['du']), zlist(c['di']), qs)
    if op == 'prag':
        def pm(m):
            return '(mkPM %s %s %s %s %s)' % (
                'None' if m['profile'] is None else '(Some %s)' % nat(m['profile']),
                'None' if m['ts'] is None else '(Some %s)' % z(m['ts']),
                zlist(m['times']), zlist(m['dists']),
                'None' if m['err'] is None else '(Some %s)' % zlist(m['err']))
        ms = '[' + '; '.join(pm(m) for m in c['mats']) + ']'
        qs = []
        for q in c['qs']:
            v = c['vehicles'][q[0]]
            qs.append('(%s, %s, %s, %s, %s, %s)' % (nat(v[0]), z(v[1]), z(v[2]), nat(q[1]), nat(q[2]), z(q[3])))
        return 'run_prag %s %s %s %s %s' % ('[' + '; '.join(nat(p) for p in c['profiles']) + ']', ms, nat(c['nloc']),
                                            boolean(c['custom']), '[' + '; '.join(qs) + ']')
    if op == 'sci':
        locs = '[' + '; '.join('(%s, %s)' % (z(l[0]), z(l[1])) for l in c['locs']) + ']'
        qs = '[' + '; '.join('(%s, %s)' % (nat(q[0]), nat(q[1])) for q in c['qs']) + ']'
        return 'run_sci %s %s' % (locs, qs)
    return None


def rout(r):
    """model rout -> Fraction | 'panic'"""
    if r == 'RPanic':
        return 'panic'
    return F(r[1], r[2])


def has_dup_trunc(c):
    seen = set()
    for m in c['mats']:
        if m['ts'] is None:
            continue
        t = fq(m['ts'])
        key = (m['i'], max(0, math.floor(t)))
        if key in seen:
            return True
        seen.add(key)
    return False


def impl_ok(impl):
    return impl['build'] == 'ok'


def compare(c, impl, model):
    if 'panic' in impl:
        return 'implementation panicked outside a query: %s' % impl['panic']
    op = c['op']
    if op == 'core':
        code, size, answers = model
        if impl_ok(impl) != (code <= 0):
            return 'acceptance: impl %r, model code %s' % (impl['build'], code)
        if code > 0:
            return None
        if impl['size'] != size:
            return 'size: impl %s model %s' % (impl['size'], size)
        if has_dup_trunc(c):
            return None          # binary_search on equal keys is unspecified: only acceptance is compared
        for k, (ia, ma) in enumerate(zip(impl['ans'], answers)):
            got = [val(x) for x in ia]
            exp = [rout(x) for x in ma]
            if got != exp:
                return 'query %d %s: impl %s model %s' % (k, c['qs'][k], got, exp)
        return None
    if op == 'simple':
        size, answers = model
        if impl_ok(impl) != (size >= 0):
            return 'acceptance: impl %r, model %s' % (impl['build'], size)
        if size < 0:
            return None
        if impl['size'] != size:
            return 'size: impl %s model %s' % (impl['size'], size)
        for k, (ia, ma) in enumerate(zip(impl['ans'], answers)):
            got = [val(x) for x in ia]
            if got != [F(ma[0]), F(ma[1]), F(ma[0]), F(ma[1])]:
                return 'query %d: impl %s model %s' % (k, got, ma)
        return None
    if op == 'prag':
        code, size, answers = model
        if not impl_ok(impl) and not impl['build'].startswith('E0002'):
            return None          # rejected by validation before create_transport_costs (not modelled)
        if impl_ok(impl) != (code <= 0):
            return 'acceptance: impl %r, model code %s' % (impl['build'], code)
        if code > 0:
            return None
        if impl['size'] != size:
            return 'size: impl %s model %s' % (impl['size'], size)
        # a malformed but accepted timed set may regroup matrices (positional fall-back for unknown names, copies):
        # gaps are then not powers of two (f64 interpolation inexact) or stamps repeat (binary_search unspecified)
        values_exact = not (c['kind'] == 'prag-malformed' and any(m['ts'] is not None for m in c['mats']))
        for k, (ia, ma) in enumerate(zip(impl['ans'], answers)):
            vi = c['qs'][k][0]
            if impl['vehicles'][vi][0] != ma[0]:
                return 'vehicle %d profile index: impl %s model %s' % (vi, impl['vehicles'][vi][0], ma[0])
            if not values_exact:
                continue
            got = [val(x) for x in ia]
            exp = [rout(ma[1]), rout(ma[2])]
            if got != exp:
                return 'query %d %s: impl %s model %s' % (k, c['qs'][k], got, exp)
        return None
    if op == 'sci':
        size, answers = model
        if not impl_ok(impl):
            return 'scientific transport rejected: %s' % impl['build']
        if impl['size'] != size:
            return 'size: impl %s model %s' % (impl['size'], size)
        for k, (ia, ma) in enumerate(zip(impl['ans'], answers)):
            got = [val(x) for x in ia]
            exp = ['panic'] * 4 if ma == -1 else [F(ma)] * 4
            if got != exp:
                return 'query %d %s: impl %s model %s' % (k, c['qs'][k], got, exp)
        return None
    return None


# ------------------------------------------------------------------------------------------------ oracle (the property itself)
def core_consistency(mats):
    """independent reading of 'consistent matrix set'; returns None or the structural reason of inconsistency"""
    if not mats:
        return 'empty'
    if any(len(m['du']) != len(m['di']) for m in mats):
        return 'dur-dist-length'
    lens = set(len(m['du']) for m in mats)
    if len(lens) > 1:
        if len(set(rsqrt(l) for l in lens)) == 1:
            return 'nonsquare-matrix-length'
        return 'mixed-sizes'
    l = lens.pop()
    if math.isqrt(l) ** 2 != l:
        return 'nonsquare-matrix-length'
    timed = [m['ts'] is not None for m in mats]
    if any(timed) and not all(timed):
        return 'mixed-timestamps'
    if not any(timed):
        if sorted(m['i'] for m in mats) != list(range(len(mats))):
            return 'profile-indices'
    else:
        for m in mats:
            if sum(1 for x in mats if x['i'] == m['i']) == 1:
                return 'single-timed-matrix'
    return None


def spec_answer(group, n, scale, fr, to, t):
    """property statement for one (profile, from, to, t); group = matrices of the profile.
       returns (dur, dist, lo, hi) or None when the statement does not determine it"""
    idx = fr * n + to
    if len(group) == 1 and group[0]['ts'] is None:
        m = group[0]
        return F(m['du'][idx]) * scale, F(m['di'][idx]), None, None
    ms = sorted(group, key=lambda m: fq(m['ts']))
    stamps = [fq(m['ts']) for m in ms]
    for m, s in zip(ms, stamps):
        if s == t:
            return F(m['du'][idx]) * scale, F(m['di'][idx]), None, None
    if t < stamps[0]:
        return F(ms[0]['du'][idx]) * scale, F(ms[0]['di'][idx]), None, None
    if t > stamps[-1]:
        return F(ms[-1]['du'][idx]) * scale, F(ms[-1]['di'][idx]), None, None
    for j in range(len(ms) - 1):
        if stamps[j] < t < stamps[j + 1]:
            l, r = F(ms[j]['du'][idx]), F(ms[j + 1]['du'][idx])
            if l < 0 or r < 0:
                # a negative value is the unreachable marker: the entry in force is the left one, as for the distance
                # (the code interpolated through the marker before repair d8f731f of /repo, finding C16-F5)
                return l * scale, F(ms[j]['di'][idx]), None, None
            lin = l + (t - stamps[j]) / (stamps[j + 1] - stamps[j]) * (r - l)
            return lin * scale, F(ms[j]['di'][idx]), min(l, r) * scale, max(l, r) * scale
    return None


def oracle_core(c, impl):
    v = []
    mats = c['mats']
    why = core_consistency(mats)
    if why is not None:
        if impl_ok(impl):
            cls = 'accepted-' + why
            what = 'matrix set is inconsistent (%s) but the provider was built' % why
            if why == 'nonsquare-matrix-length':
                pan = sum(1 for a in impl['ans'] if 'panic' in a)
                what += ' (size %s, lengths %s; %d of %d queries panicked)' % (
                    impl['size'], sorted(set(len(m['du']) for m in mats)), pan, len(impl['ans']))
            v.append({'class': cls, 'what': what})
        return v
    if not impl_ok(impl):
        v.append({'class': 'rejected-consistent-set', 'what': 'consistent matrix set rejected: ' + impl['build']})
        return v
    n = math.isqrt(len(mats[0]['du']))
    if impl['size'] != n:
        v.append({'class': 'size', 'what': 'size() = %s for %dx%d matrices' % (impl['size'], n, n)})
    dup = has_dup_trunc(c)
    for q, a in zip(c['qs'], impl['ans']):
        p, fr, to = q[0], q[3], q[4]
        scale, t = F(q[1], q[2]), F(q[5], q[6])
        group = [m for m in mats if m['i'] == p]
        if not group or fr >= n or to >= n:
            continue                # outside the supplied data: the statement says nothing (fallback/panic, compared with the model)
        timed = group[0]['ts'] is not None
        got = [val(x) for x in a]
        for ti, tq in ((0, t), (2, F(0))):
            exp = spec_answer(group, n, scale, fr, to, tq)
            if exp is None:
                continue
            dur, dist, lo, hi = exp
            gd, gs = got[ti], got[ti + 1]
            label = 'duration' if ti == 0 else 'duration_approx'
            if gd == 'panic' or gs == 'panic':
                v.append({'class': 'panic-on-supplied-entry', 'what': 'query %s panicked' % q})
                continue
            if gd == dur and gs == dist:
                continue
            if not timed:
                if gd != dur:
                    v.append({'class': 'agnostic-duration', 'what': '%s %s: got %s, supplied entry*scale = %s' % (label, q, gd, dur)})
                if gs != dist:
                    v.append({'class': 'agnostic-distance', 'what': 'distance %s: got %s, supplied entry = %s' % (q, gs, dist)})
                continue
            if dup:
                continue            # equal truncated timestamps: lookup unspecified
            # time aware: is the answer the value of a matrix whose whole second contains the (fractional) query time?
            idx = fr * n + to
            snapped = [m for m in group if max(0, math.floor(fq(m['ts']))) == max(0, math.floor(tq))
                       and F(m['du'][idx]) * scale == gd and F(m['di'][idx]) == gs]
            fractional = tq.denominator != 1 or any(fq(m['ts']).denominator != 1 for m in group)
            if snapped and fractional:
                v.append({'class': 'fractional-time-truncated-to-matrix-second',
                          'what': 'time-aware %s %s at t=%s returns the value of the matrix stamped %s (same whole second) '
                                  'instead of the interpolant %s' % (label, q, tq, fq(snapped[0]['ts']), dur)})
                continue
            if gd != dur:
                kind = 'outside-bracket' if (lo is not None and not (lo <= gd <= hi)) else ('not-linear' if lo is not None else 'wrong-matrix')
                v.append({'class': 'aware-duration-' + kind, 'what': '%s %s at t=%s: got %s, expected %s' % (label, q, tq, gd, dur)})
            if gs != dist:
                v.append({'class': 'aware-distance', 'what': 'distance %s at t=%s: got %s, expected %s' % (q, tq, gs, dist)})
    return v


def prag_consistency(c):
    mats = c['mats']
    named = [m['profile'] is not None for m in mats]
    if any(named) and not all(named):
        return 'mixed-profile-names'
    if not all(named) and any(m['ts'] is not None for m in mats):
        return 'timestamp-without-profile'
    if len(set(c['profiles'])) > len(mats):
        return 'fewer-matrices-than-profiles'
    lens = set()
    for m in mats:
        lens.add(len(m['times']) if m['err'] is None else len(m['err']))
        lens.add(len(m['dists']) if m['err'] is None else len(m['err']))
    if len(set(rsqrt(l) for l in lens)) > 1:
        return 'mixed-sizes'
    if len(lens) > 1 or any(math.isqrt(l) ** 2 != l for l in lens):
        return 'nonsquare-matrix-length'
    return None


def oracle_prag(c, impl):
    v = []
    why = prag_consistency(c)
    if why is not None:
        if impl_ok(impl):
            v.append({'class': 'prag-accepted-' + why, 'what': 'inconsistent matrices (%s) accepted by read_pragmatic' % why})
        return v
    if c['kind'] == 'prag-malformed' or not impl_ok(impl):
        if c['kind'] != 'prag-malformed':
            v.append({'class': 'prag-rejected-consistent-set', 'what': 'well-formed problem rejected: ' + impl['build']})
        return v
    n = c['nloc']
    names = c['profiles']
    if impl.get('ref_idx') != list(range(n)):
        v.append({'class': 'prag-reference-index', 'what': 'matrix index locations map to %s' % impl.get('ref_idx')})
    if c['custom'] and impl.get('custom_idx') != n * n:
        v.append({'class': 'prag-custom-index', 'what': 'custom location mapped to %s, expected %d' % (impl.get('custom_idx'), n * n)})
    for q, a in zip(c['qs'], impl['ans']):
        vi, fr, to, t = q
        if fr >= n or to >= n:
            got = [val(x) for x in a]
            if c['custom'] and got != [F(0), F(0)]:
                v.append({'class': 'prag-custom-location', 'what': 'custom location query %s: got %s, expected zeros' % (q, got)})
            continue
        vname, sn, sd = c['vehicles'][vi]
        scale = F(sn, sd) if sd else F(1)
        if c['kind'] == 'prag-positional':
            group = [c['mats'][names.index(vname)]]
        else:
            group = [m for m in c['mats'] if m['profile'] == vname]
        conv = []
        for m in group:
            du = [F(-1) if (m['err'] is not None and m['err'][i] > 0) else F(x) for i, x in enumerate(m['times'])]
            di = [F(-1) if (m['err'] is not None and m['err'][i] > 0) else F(x) for i, x in enumerate(m['dists'])]
            conv.append({'ts': None if m['ts'] is None else [m['ts'], 1], 'du': du, 'di': di, 'err': m['err']})
        exp = spec_answer(conv, n, scale, fr, to, F(t))
        if exp is None:
            continue
        got = [val(x) for x in a]
        if 'panic' in got:
            v.append({'class': 'prag-panic-on-supplied-entry', 'what': 'query %s panicked' % q})
            continue
        idx = fr * n + to
        if len(conv) == 1 and conv[0]['err'] is not None and conv[0]['err'][idx] > 0:
            if not (got[0] < 0 and got[1] < 0):
                v.append({'class': 'prag-unreachable-not-negative',
                          'what': 'entry %d flagged unreachable but query %s returns %s' % (idx, q, got)})
        if got[0] != exp[0]:
            v.append({'class': 'prag-duration', 'what': 'vehicle %s query %s: duration %s, expected %s' % (c['vehicles'][vi], q, got[0], exp[0])})
        if got[1] != exp[1]:
            v.append({'class': 'prag-distance', 'what': 'vehicle %s query %s: distance %s, expected %s' % (c['vehicles'][vi], q, got[1], exp[1])})
    return v


def oracle_simple(c, impl):
    v = []
    l1, l2 = len(c['du']), len(c['di'])
    square = math.isqrt(l1) ** 2 == l1 and l1 == l2
    if not square:
        return v        # SimpleTransportCost is an example helper; only the square case is specified
    if not impl_ok(impl):
        return [{'class': 'simple-rejected', 'what': 'square matrices rejected'}]
    n = math.isqrt(l1)
    for q, a in zip(c['qs'], impl['ans']):
        if q[0] < n and q[1] < n:
            got = [val(x) for x in a]
            exp = [F(c['du'][q[0] * n + q[1]]), F(c['di'][q[0] * n + q[1]])] * 2
            if got != exp:
                v.append({'class': 'simple-entry', 'what': 'query %s: got %s expected %s' % (q, got, exp)})
    return v


def oracle_approx(c, impl):
    v = []
    if not impl_ok(impl):
        return [{'class': 'approx-rejected', 'what': 'coordinate problem rejected: ' + impl['build']}]
    n = impl['size']
    used = sorted(set(c['order'] + [c['depot']]))
    coords = {}
    for i in used:
        coords.setdefault(tuple(c['locs'][i]), []).append(i)
    if n != len(coords):
        v.append({'class': 'approx-size', 'what': 'size %d for %d distinct coordinates' % (n, len(coords))})
        return v
    for k, m in enumerate(impl['mats']):
        times, dists = m['times'], m['dists']
        if len(times) != n * n or len(dists) != n * n:
            v.append({'class': 'approx-shape', 'what': 'matrix %d has %d/%d entries for %d locations' % (k, len(times), len(dists), n)})
            continue
        sp = c['speeds'][k]
        speed = F(10) if sp is None else F(sp[0], sp[1])
        for i in range(n):
            if times[i * n + i] != 0 or dists[i * n + i] != 0:
                v.append({'class': 'approx-diagonal', 'what': 'matrix %d entry (%d,%d) = %s/%s' % (k, i, i, times[i * n + i], dists[i * n + i])})
            for j in range(n):
                if times[i * n + j] != times[j * n + i] or dists[i * n + j] != dists[j * n + i]:
                    v.append({'class': 'approx-asymmetric', 'what': 'matrix %d (%d,%d) vs (%d,%d)' % (k, i, j, j, i)})
                if dists[i * n + j] < 0 or times[i * n + j] < 0:
                    v.append({'class': 'approx-negative', 'what': 'matrix %d (%d,%d)' % (k, i, j)})
                # both are roundings of the same real distance d: |time*speed - d| <= speed/2, |dist - d| <= 1/2
                if abs(times[i * n + j] * speed - dists[i * n + j]) > speed / 2 + F(1, 2):
                    v.append({'class': 'approx-speed', 'what': 'matrix %d (%d,%d): time %s * speed %s vs distance %s'
                                                               % (k, i, j, times[i * n + j], speed, dists[i * n + j])})
        if dists != impl['mats'][0]['dists']:
            v.append({'class': 'approx-distances-differ', 'what': 'profiles have different distance matrices'})
        # the provider returns the approximated entries for the vehicle of profile k (scale 1)
        tab = impl['tables'][k]
        for cell, (a, tm, ds) in enumerate(zip(tab['rows'], times, dists)):
            got = [val(x) for x in a]
            if got != [F(tm), F(ds)]:
                v.append({'class': 'approx-provider-entry', 'what': 'vehicle %d cell %d: provider %s, matrix %s/%s' % (k, cell, got, tm, ds)})
    # coordinate -> index: first-seen order, equal coordinates share an index, distinct far-apart coordinates differ
    idx = impl['idx']
    for i in used:
        for j in used:
            same = c['locs'][i] == c['locs'][j]
            if idx[i] is None or idx[j] is None or (idx[i] == idx[j]) != same:
                v.append({'class': 'approx-coord-index', 'what': 'locations %d,%d -> %s,%s' % (i, j, idx[i], idx[j])})
            elif not same and impl['mats'] and impl['mats'][0]['dists'][idx[i] * n + idx[j]] <= 0:
                v.append({'class': 'approx-zero-offdiagonal', 'what': 'distinct coordinates %d,%d at distance 0' % (i, j)})
    return v


def oracle_sci(c, impl):
    v = []
    if not impl_ok(impl):
        return [{'class': 'sci-rejected', 'what': impl['build']}]
    uniq = []
    for l in c['locs']:
        if l not in uniq:
            uniq.append(l)
    if impl['unique'] != uniq or impl['collected'] != [uniq.index(l) for l in c['locs']] or impl['size'] != len(uniq):
        v.append({'class': 'sci-coord-index', 'what': 'collect: %s unique %s' % (impl['collected'], impl['unique'])})
        return v
    n = len(uniq)
    for q, a in zip(c['qs'], impl['ans']):
        if q[0] >= n or q[1] >= n:
            continue
        got = [val(x) for x in a]
        dx, dy = uniq[q[0]][0] - uniq[q[1]][0], uniq[q[0]][1] - uniq[q[1]][1]
        exp = F(rsqrt(dx * dx + dy * dy))
        if got != [exp] * 4:
            v.append({'class': 'sci-entry', 'what': 'query %s: got %s expected %s' % (q, got, exp)})
    return v


def oracle(c, impl):
    if 'panic' in impl:
        return [{'class': 'panic-' + c['op'], 'what': 'panicked outside a query: ' + impl['panic']}]
    vs = {'core': oracle_core, 'prag': oracle_prag, 'simple': oracle_simple, 'approx': oracle_approx,
          'sci': oracle_sci}[c['op']](c, impl)
    out, seen = [], set()
    for x in vs:                    # one report per violation class and case
        if x['class'] not in seen:
            seen.add(x['class'])
            out.append(x)
    return out


def nontrivial_key(c, impl):
    if 'panic' in impl:
        return None
    op = c['op']
    if op in ('core', 'prag'):
        if not impl_ok(impl):
            return (op, 'rejected', c.get('tag'), str(c['mats'])) if c.get('tag') else None
        n = rsqrt(len(c['mats'][0]['du' if op == 'core' else 'times']))
        offdiag = any((q[3] != q[4]) if op == 'core' else (q[1] != q[2]) for q in c['qs'])
        if (len(c['mats']) >= 2 or n >= 2) and offdiag:
            return (op, str(c['mats']), str(c['qs']))
        return None
    if op == 'simple':
        return ('simple', str(c['du']), str(c['di'])) if len(c['du']) > 1 else None
    if op == 'approx':
        return ('approx', str(c['locs'])) if len(c['locs']) > 1 else None
    return ('sci', str(c['locs'])) if len(c['locs']) > 1 else None


def classify(c, impl):
    labs = ['op=' + c['op']]
    if 'kind' in c:
        labs.append('kind=' + c['kind'])
    if 'tag' in c:
        labs.append('malformed=' + c['tag'])
    if 'panic' in impl:
        return labs + ['harness-panic']
    labs.append('built=%s' % ('ok' if impl_ok(impl) else 'rejected'))
    if c['op'] == 'prag' and not impl_ok(impl):
        labs.append('prag-reject=' + impl['build'][:5])
    if c['op'] == 'core' and impl_ok(impl):
        for q, a in zip(c['qs'], impl['ans']):
            labs.append('query=' + ('panic' if 'panic' in a else 'value'))
    return labs


_SHRINK_BUDGET = [30]


def shrink_candidates(c):
    """drop queries one at a time (only for the first few failing cases of a run: every round re-runs the harness)"""
    if c['op'] not in ('core', 'prag') or _SHRINK_BUDGET[0] <= 0:
        return
    _SHRINK_BUDGET[0] -= 1
    qs = c['qs']
    for k in range(len(qs)):
        if len(qs) > 1:
            yield dict(c, qs=qs[:k] + qs[k + 1:])


MANIFEST_TEXT = ('Machine-checked proof (Coq, no axioms) over an executable rational model of create_matrix_transport_cost, the '
                 'time-agnostic / time-aware matrix providers, SimpleTransportCost, the pragmatic create_transport_costs mapping and '
                 'the scientific coordinate provider: an accepted set answers (profile, from, to) with exactly the entry of the matrix '
                 'supplied for that profile (durations times the vehicle scale, distances unscaled); time-aware lookup returns the matrix '
                 'value at a (truncated) matrix timestamp, the first/last matrix outside the span, the linear interpolant with bounds in '
                 'between and the left distance; every inconsistent set (empty, lengths not n*n for one n, mixed timestamps, single timed '
                 'matrix, profile indices not 0..k-1) is rejected (full clause since repair 17fc8e9 of /repo: non-square lengths were '
                 'accepted before it, finding C16-F1, now a regression class); unreachable entries are -1; '
                 'coordinate approximations are symmetric with zero diagonal relative to a symmetric distance function. One deviation of '
                 'the real code from the statement is recorded as a finding with a Coq witness (fractional '
                 'query time truncated to the matrix second). The model is tied to /repo on every run by evaluating it in Coq on the '
                 'generated cases and comparing exactly with the providers built through the public constructors. '
                 'Second part (Model/RoutingDoc.v, sub-stream c16_doc): the whole path from pragmatic documents to answers - routing '
                 'validation E1500..E1505, get_profile_index_map, create_transport_costs with errorCodes, read_fleet profiles, both '
                 'TravelTime variants, the custom location, create_approx_matrices / get_approx_transportation over an abstract '
                 'distance function - with theorems: every vehicle of an accepted document is answered from THE matrix named like '
                 'its profile (or at its position), durations times its own scale; flagged entries are negative (untimed, and timed '
                 'when both bracketing matrices flag); the four time-dependent clauses on documents; consistent documents (spelled '
                 'out) are accepted and accepted documents are consistent when code/travelTimes lengths fit and matrix names are '
                 'fleet profiles; consistent core sets are accepted (rejection exactly when inconsistent); the provider is invariant '
                 'under permutation of the supplied matrices; the real binary-search loop refines the contract model on every '
                 'strictly increasing list; approximated matrices are round(hav) / round(hav / speed of the profile), symmetric with '
                 'zero diagonal for an exactly symmetric hav, and the structure of the haversine function is symmetric over any '
                 'carrier with commutative multiplication and the sign laws of binary64. Four further deviations of the real code '
                 'were found; three are repaired in /repo and followed by the model, with the pre-fix functions kept for the witness '
                 'theorems and one regression mutant each: errorCodes path skipping the length checks (7d3c5fe), unreachable marker '
                 'interpolated to a non-negative duration (d8f731f), last-bit asymmetry of the haversine function surfacing in the '
                 'rounded matrix (d74b2b6); one stays open: a matrix whose profile name is no fleet profile is attached by position.')
MANIFEST_NOTE = ('Trusted: Coq kernel + vm_compute; harness, generators, comparison; exactness of f64 on the generated dyadic data '
                 '(validated by the exact comparison); binary_search contract; haversine trigonometry not modelled.')
MANIFEST_TECHNIQUE = 'Coq proof over executable model + vm_compute differential correspondence with the Rust implementation'
