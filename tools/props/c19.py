"""C19 — the growing self-organising map behind the Rosomaxa population stays well formed (plugin for tools/verif.py)."""
from coqterm import z, nat, boolean

ID = 'C19'
HARNESS = 'c19'
COQ_IMPORTS = 'From VRP Require Import Base.Tac Model.Gsom.'
MODEL_TARGETS = ['theories/Model/Gsom.vo']
MODEL_NEEDS_IMPL = True
SUBSTREAMS = ['c19_weights']      # numeric half: weights, errors, min/max, distances, measures (float twin + exact model)
SHARD = 12
SIZES = {'quick': 700, 'thorough': 5000, 'search': 1500}
SEARCH_ROUNDS = 2
RULE = ('cases: (net, ~85%) the real gsom::Network built from 4-59 integer-valued individuals of dimension 1-4 (streams: clustered, '
        'duplicated, outliers, constant; occasionally <4 individuals = creation error; occasionally an input of another dimension = '
        'debug assertion) under configs spread factor 1/16..15/16, distribution factor 1/16..15/16, node size 1-4, rebalance memory '
        '1-12, then 3-14 calls store_batch / set_learning_rate / smooth / compact in the pattern of Rosomaxa::optimize_network '
        '(store; [smooth]; [compact; smooth]) and in arbitrary order (compaction of minimal maps included); the lattice model is driven '
        'by the recorded per-input decisions (best matching unit, growth) and compared after every call on keys, node coordinates, '
        'weight dimensions, hit counters, capacities and stored individuals. (pop, ~15%) the real Rosomaxa population: add_all / '
        'on_generation histories around the initial-size and exploration-ratio boundaries; phases compared with the model, '
        'NetworkState checked. (ctx, 12 per quick run) real vrp-core InsertionContexts with 0 / 1 / several routes and job-less routes built '
        'through the public API (cheapest insertion on small CVRPs, some with nothing assignable): on_init + weights() must be finite and '
        '15-dimensional; the vectors are fed to the real Network, the real RosomaxaPopulation of vrp-core and sometimes a real solve. non-trivial = net histories in which the map grew or was compacted, pop histories reaching Exploration.')
TRUSTED = ['instrumented storage of the harness (wraps the real Elitism with the same five calls as rosomaxa.rs::IndividualStorage, '
           'dedup = equal tag) and its event log (create/add/drain) from which per-input decisions are reconstructed',
           'float-decided choices (best matching unit, error >= growing threshold, sort/shuffle order of re-trained individuals) are '
           'oracle inputs of the model taken from the implementation; the model validates their consistency',
           'finiteness of weights / errors / mse / unified distance is only monitored on the implementation (exploration level)']
ASSUMPTIONS = ['coordinates stay far from the i32 range (model uses Z)',
               'weights are modelled by their dimension only',
               'sample size formula ceil(0.1*len) is modelled exactly only for len <= 59 (generator stays below)']

STREAMS = ['clustered', 'duplicated', 'outliers', 'constant']


# ------------------------------------------------------------------ generators
def gen_weights(rng, stream, dim, centres):
    if stream == 'constant':
        return list(centres[0])
    if stream == 'duplicated':
        return list(rng.choice(centres))
    c = rng.choice(centres)
    w = [v + rng.range(-3, 3) for v in c]
    if stream == 'outliers' and rng.chance(1, 5):
        k = rng.below(dim)
        w[k] = rng.choice([10 ** 6, -10 ** 6, 10 ** 9, 5000, -7000])
    return w


def gen_net(rng, tier):
    dim = rng.range(1, 4)
    stream = rng.choice(STREAMS)
    ncent = rng.range(2, 5)
    centres = [[rng.range(-60, 60) for _ in range(dim)] for _ in range(ncent)]
    r = rng.below(100)
    if r < 3:
        ln = rng.range(1, 3)                      # too few individuals: Network::new returns Err
    elif r < 55:
        ln = rng.range(4, 12)
    elif r < 90:
        ln = rng.range(13, 28)
    else:
        ln = rng.range(29, 59)
    node_size = rng.choice([1, 1, 2, 2, 2, 3, 4])
    tagmode = rng.below(3)                        # 0: unique tags (no dedup), 1: few tags, 2: mixed
    nid = [0]

    def item(w=None):
        i = nid[0]
        nid[0] += 1
        tag = i if tagmode == 0 else (rng.below(3) if tagmode == 1 else (rng.below(4) if rng.chance(1, 2) else 100 + i))
        return [i, rng.range(0, 9), tag] + (w if w is not None else gen_weights(rng, stream, dim, centres))

    data = [item() for _ in range(ln)]
    cfg = {'node_size': node_size, 'sf': rng.choice([1, 4, 8, 12, 12, 14, 15, 15]), 'df': rng.choice([1, 5, 8, 12, 14, 15]),
           'lr': rng.choice([2, 5, 8, 16]), 'rebalance': rng.range(1, 12), 'initial_error': rng.chance(1, 2)}
    ops = []
    nops = rng.range(3, 9 if tier == 'quick' else 14)
    pattern = rng.below(4)
    g = 0
    if pattern == 0 and rng.chance(1, 2):
        ops.append({'op': 'compact'})             # compaction of the minimal map (the < 4 guard)
    while len(ops) < nops:
        g += 1
        if pattern in (0, 1):                     # as Rosomaxa does
            ops.append({'op': 'store', 'time': g, 'xs': [item() for _ in range(rng.range(1, 5))]})
            if rng.chance(1, 3):
                ops.append({'op': 'lr', 'v': rng.range(2, 16)})
            if rng.chance(1, 4):
                ops.append({'op': 'smooth', 'count': 1})
            if rng.chance(1, 3):
                ops.append({'op': 'compact'})
                ops.append({'op': 'smooth', 'count': 1})
        else:
            k = rng.below(10)
            if k < 6:
                far = rng.chance(1, 3)
                xs = []
                for _ in range(rng.range(1, 4)):
                    w = [rng.choice([-1, 1]) * rng.range(200, 400) * (g if far else 1) for _ in range(dim)] if far else None
                    xs.append(item(w))
                ops.append({'op': 'store', 'time': g, 'xs': xs})
            elif k < 8:
                ops.append({'op': 'compact'})
            else:
                ops.append({'op': 'smooth', 'count': rng.range(1, 2)})
    if rng.chance(1, 40):
        # malformed: one input of another dimension (debug_assert in MinMaxWeights::update)
        bad = item([1] * (dim + 1 if rng.chance(1, 2) or dim == 1 else dim - 1))
        ops.append({'op': 'store', 'time': g + 1, 'xs': [bad]})
    return {'kind': 'net', 'seed': rng.below(1 << 30), 'cfg': cfg, 'data': data, 'ops': ops, 'stream': stream, 'dim': dim}


def gen_pop(rng, tier):
    dim = rng.range(1, 3)
    initial = rng.choice([4, 4, 5, 6, 8, 12, 16])
    if rng.chance(1, 25):
        initial = rng.range(1, 3)                 # "cannot create network" panic
    cfg = {'initial': initial, 'sel': rng.range(2, 8), 'elite': rng.range(1, 3), 'node_size': rng.range(1, 3),
           'sf': rng.choice([4, 12, 15]), 'df': rng.choice([5, 14]), 'rebalance': rng.range(1, 6), 'er': rng.choice([512, 900, 922, 1000])}
    stream = rng.choice(STREAMS)
    centres = [[rng.range(-60, 60) for _ in range(dim)] for _ in range(rng.range(2, 4))]
    ops = []
    nid = 0
    t = 0
    known = 0
    for g in range(rng.range(4, 14)):
        k = rng.range(1, 5)
        if rng.chance(1, 3) and known < initial:
            k = max(1, initial - known - rng.below(2))      # land on / just below the initial-size boundary
        xs = []
        for _ in range(k):
            xs.append([nid, rng.range(0, 9), nid] + gen_weights(rng, stream, dim, centres))
            nid += 1
        known += k
        ops.append({'op': 'add_all', 'xs': xs})
        t = min(1024, t + rng.choice([0, 1, 10, 60, 200]))
        if rng.chance(1, 6):
            t = rng.choice([cfg['er'] - 1, cfg['er'], min(1024, cfg['er'] + 1)])
        ops.append({'op': 'gen', 'g': g, 't': t})
    return {'kind': 'pop', 'seed': rng.below(1 << 30), 'cfg': cfg, 'ops': ops, 'stream': stream, 'dim': dim}


def gen_long(rng, tier):
    """exploration-level stream: thousands of single-individual store_batch calls without smoothing (finiteness monitors only)"""
    dim = rng.range(1, 2)
    spread = rng.choice([0, 2, 40])
    k = rng.range(2, 4)
    pts = [[rng.range(-80, 80) for _ in range(dim)] for _ in range(k)]
    cents = [[rng.range(-50, 50) for _ in range(dim)] for _ in range(rng.range(1, 3))]
    data = [[i, rng.range(0, 9), i] + [v + rng.range(-spread, spread) for v in rng.choice(cents)] for i in range(rng.choice([8, 16, 24]))]
    ops = []
    nid = 100
    for g in range(2500 if tier == 'quick' else 6000):
        c = pts[g % k] if rng.chance(3, 4) else rng.choice(pts)
        ops.append({'op': 'store', 'time': g, 'xs': [[nid, rng.range(0, 9), nid] + [v + rng.range(-spread, spread) for v in c]]})
        nid += 1
    cfg = {'node_size': 2, 'sf': rng.choice([8, 12, 14, 15]), 'df': rng.choice([8, 14, 15]), 'lr': rng.choice([2, 5, 16]),
           'rebalance': 10, 'initial_error': True}
    return {'kind': 'net', 'brief': True, 'seed': rng.below(1 << 30), 'cfg': cfg, 'data': data, 'ops': ops, 'stream': 'duplicated', 'dim': dim}


MAKES = ['empty', 'new', 'cheapest', 'cheapest', 'cheapest', 'cheapest-plus-empty-route', 'only-empty-route']


def gen_ctx(rng, tier):
    """real vrp-core InsertionContexts (0, 1, several routes, job-less routes) -> RosomaxaSolution::on_init -> weights()"""
    cap = rng.range(2, 4)
    nj = rng.range(3, 8)
    mode = rng.below(4)                           # 0: nothing assignable, 1: mixed, 2-3: all assignable
    demands = [cap + 1 + rng.below(3) if mode == 0 or (mode == 1 and rng.chance(1, 3)) else rng.range(1, cap) for _ in range(nj)]
    makes = [rng.choice(MAKES) for _ in range(rng.range(4, 6))]
    if mode >= 2 and rng.chance(1, 2):
        makes = [m for m in makes if m not in ('empty', 'new')] + ['cheapest'] * 4
    return {'kind': 'ctx', 'seed': rng.below(1 << 30), 'demands': demands, 'vehicles': rng.range(1, 4), 'capacity': cap,
            'make': makes[:6], 'pop_gens': 4, 'solve_gens': 12 if rng.chance(1, 4) else 0, 'stream': 'vrp-solutions', 'dim': 15}


def generate(rng, tier, n):
    cases = []
    for _ in range(n):
        cases.append(gen_pop(rng, tier) if rng.chance(3, 20) else gen_net(rng, tier))
    for _ in range(3 if tier == 'quick' else 40):
        cases.append(gen_long(rng.fork('long%d' % len(cases)), tier))
    for _ in range(12 if tier == 'quick' else 150):
        cases.append(gen_ctx(rng.fork('ctx%d' % len(cases)), tier))
    return cases


def corpus():
    # minimal map + immediate compaction (guard), and a 3-individual creation error
    d4 = [[i, i, i, 10 * i, -10 * i] for i in range(4)]
    return [
        {'kind': 'net', 'seed': 1, 'cfg': {'node_size': 2, 'sf': 12, 'df': 14, 'lr': 5, 'rebalance': 3, 'initial_error': True},
         'data': d4, 'ops': [{'op': 'compact'}, {'op': 'smooth', 'count': 1}], 'stream': 'clustered', 'dim': 2},
        {'kind': 'net', 'seed': 1, 'cfg': {'node_size': 2, 'sf': 12, 'df': 14, 'lr': 5, 'rebalance': 3, 'initial_error': True},
         'data': d4[:3], 'ops': [], 'stream': 'clustered', 'dim': 2},
    ]


# ------------------------------------------------------------------ model term
def it(a):
    return '(mkI %s %s %s [%s])' % (z(a[0]), z(a[1]), z(a[2]), '; '.join(z(w) for w in a[3:]))


def oobs(e):
    return '(%s, (%s, %s), %s)' % (z(e[0]), z(e[1]), z(e[2]), boolean(e[3] > 0))


def ool(r):
    return '[' + '; '.join(oobs(e) for e in r) + ']'


def model_term(c, impl):
    if c['kind'] == 'ctx':
        return 'run_route_less'
    if c['kind'] == 'pop':
        cfg = c['cfg']
        ops = []
        for o in c['ops']:
            if o['op'] == 'add_all':
                ops.append('RAdd [%s]' % '; '.join(it(x) for x in o['xs']))
            else:
                ops.append('RGen %s %s' % (z(o['t']), z(cfg['er'])))
        return 'run_phase (mkR %s %s %s) [%s]' % (nat(cfg['initial']), nat(cfg['elite']), z(cfg['er']), '; '.join(ops))
    if 'panic' in impl or c.get('brief'):
        return None
    cfg = 'mkCfg %s' % nat(c['cfg']['node_size'])
    data = '[' + '; '.join(it(x) for x in c['data']) + ']'
    if impl.get('created') != 0:
        return 'run_net (%s) %s [] [] []' % (cfg, data)
    tr = impl['trace']
    r0 = tr[0]['rounds']
    assign = ool(r0[0]) if r0 else '[]'
    rounds = '[' + '; '.join(ool(r) for r in r0[1:]) + ']'
    ops = []
    k = 1
    for o in c['ops']:
        if o['op'] == 'lr':
            continue
        if k >= len(tr):
            break
        t = tr[k]
        k += 1
        rs = t.get('rounds', [])
        if o['op'] == 'store':
            by_id = {x[0]: x for x in o['xs']}
            if 'panic' in t or not rs:
                obs = ['(%s, (0, 0), false)' % it(x) for x in o['xs']]
            else:
                obs = ['(%s, (%s, %s), %s)' % (it(by_id.get(e[0], [e[0], 0, 0])), z(e[1]), z(e[2]), boolean(e[3] > 0)) for e in rs[0]]
            ops.append('OStore [%s]' % '; '.join(obs))
        elif o['op'] == 'smooth':
            ops.append('OSmooth [%s]' % '; '.join(ool(r) for r in rs))
        else:
            ops.append('OCompact %s' % (ool(rs[0]) if rs else '[]'))
    return 'run_net (%s) %s %s %s [%s]' % (cfg, data, assign, rounds, '; '.join(ops))


# ------------------------------------------------------------------ compare
def canon_impl(t):
    return sorted(((n[0], n[1]), (n[2], n[3]), n[4], n[5], n[6], tuple(n[7])) for n in t['nodes'])


def canon_model(snap):
    out = []
    for e in snap:
        kx, ky, cc, rest = e
        out.append(((kx, ky), tuple(cc), rest[0], rest[1], rest[2], tuple(rest[3])))
    return sorted(out)


def real_ops(c):
    return [o for o in c['ops'] if o['op'] != 'lr']


def compare(c, impl, model):
    if c.get('brief'):
        return None
    if c['kind'] == 'ctx':
        if 'panic' in impl:
            return 'implementation panicked: %s' % impl['panic']
        for x in impl['ctxs']:
            if x['routes'] == 0:
                zero12 = all(int(b) in (0, 1 << 63) for b in x['weights'][:12])
                if zero12 != (model == 'true'):
                    return 'route-derived weights of a route-less solution (%s): impl all-zero=%s, model all-zero=%s' % (x['make'], zero12, model)
        return None
    if c['kind'] == 'pop':
        if 'panic' in impl:
            return 'implementation panicked outside an operation: %s' % impl['panic']
        tr = impl['trace']
        for k, t in enumerate(tr):
            m = model[k]
            if 'panic' in t:
                if not (isinstance(m, tuple) and m[0] == 'Panic'):
                    return 'op %d: implementation panicked (%s), model %s' % (k, t['panic'], m)
                return None
            if m != ('Ok', t['phase']):
                return 'op %d: phase impl %s model %s' % (k, t['phase'], m)
        if len(tr) != len(model):
            return 'trace lengths differ'
        return None
    if 'panic' in impl:
        return 'implementation panicked outside an operation: %s' % impl['panic']
    code, snaps = model
    if impl['created'] != code:
        return 'Network::new: impl %s model %s %s' % (impl['created'], code, snaps[:1])
    if code != 0:
        return None
    tr = impl['trace']
    ops = [None] + real_ops(c)
    for k, t in enumerate(tr):
        m = snaps[k]
        name = 'new' if k == 0 else ops[k]['op']
        if 'panic' in t:
            if not (isinstance(m, tuple) and m[0] == 'Panic'):
                return 'call %d (%s): implementation panicked (%s), model did not' % (k, name, t['panic'])
            return None
        if not (isinstance(m, tuple) and m[0] == 'Ok'):
            return 'call %d (%s): model %s, implementation did not panic' % (k, name, m)
        a, b = canon_impl(t), canon_model(m[1])
        if a != b:
            da = [x for x in a if x not in b][:3]
            db = [x for x in b if x not in a][:3]
            return 'call %d (%s): map differs; only impl %s; only model %s' % (k, name, da, db)
        if k > 0 and ops[k]['op'] == 'store' and t.get('rounds'):
            if [e[0] for e in t['rounds'][0]] != [x[0] for x in ops[k]['xs']]:
                return 'call %d (store): inputs not stored in batch order' % k
    if len(tr) != len(snaps):
        return 'trace lengths differ: impl %d model %d' % (len(tr), len(snaps))
    return None


# ------------------------------------------------------------------ oracle (the property on the implementation's own output)
FINDING_ERR = 'node-error-overflows-without-smoothing'


def wf_dump(t, name, dim, node_size, v, monitors=True):
    nodes = t['nodes']
    keys = [(n[0], n[1]) for n in nodes]
    if len(set(keys)) != len(keys):
        v.append({'class': 'duplicate-coordinate-after-' + name, 'what': 'two nodes share a coordinate'})
    if any((n[0], n[1]) != (n[2], n[3]) for n in nodes):
        v.append({'class': 'key-differs-from-node-coordinate-after-' + name, 'what': 'a node is filed under a coordinate different from node.coordinate'})
    if any(n[4] != dim for n in nodes) or t['dimension'] != dim or t['state_dim'] != dim:
        v.append({'class': 'weight-dimension-changed-after-' + name, 'what': 'a node has weights of a dimension other than the input dimension'})
    if any(len(n[7]) > n[6] for n in nodes) or any(n[6] != node_size for n in nodes):
        v.append({'class': 'storage-over-capacity-after-' + name, 'what': 'a node stores more individuals than node_size (or its capacity is not node_size)'})
    if t['find_bad']:
        v.append({'class': 'find-mismatch-after-' + name, 'what': 'Network::find(coordinate) does not return exactly the node of that coordinate'})
    if not (t['size'] == len(nodes) == t['coords_n'] == t['nodes_n'] == t['state_n']):
        v.append({'class': 'size-mismatch-after-' + name, 'what': 'size / iter / get_nodes / get_coordinates / NetworkState disagree'})
    if t['size'] < 4:
        v.append({'class': 'fewer-than-four-nodes-after-' + name, 'what': 'the map has fewer than four nodes'})
    for key, cl in (('nonfinite_w', 'nonfinite-weight'), ('nonfinite_e', 'nonfinite-error'), ('nonfinite_m', 'nonfinite-measure')):
        if t[key] and monitors:
            v.append({'class': cl + '-after-' + name, 'what': key + ' (exploration-level monitor on the implementation)'})


FINDING_NAN = 'nan-weights-for-route-less-solution'


def oracle_ctx(c, impl):
    """weights of real solutions are finite and of one dimension; what the real Network / RosomaxaPopulation / Solver do with them"""
    v = []
    nan_routeless = [x for x in impl['ctxs'] if x['nonfinite'] and x['routes'] == 0]
    for x in impl['ctxs']:
        if x['dim'] != 15:
            v.append({'class': 'solution-weights-dimension-%d' % x['dim'], 'what': 'weights() of a solution has dimension %d' % x['dim']})
        if x['nonfinite'] and x['routes'] > 0:
            v.append({'class': 'nonfinite-weights-for-solution-with-routes', 'what': 'weights %s not finite (%s, %d routes)' % (x['nonfinite'], x['make'], x['routes'])})
    net, pop, solve = impl['net'], impl['pop'], impl['solve']
    for name, r in (('network', net), ('population', pop), ('solve', solve)):
        if r and 'panic' in r:
            v.append({'class': 'panic-in-%s-on-real-solution-weights' % name, 'what': r['panic']})
    net_nan = sum(t['nonfinite_w'] + t['nonfinite_m'] + t['nonfinite_e'] for t in net.get('trace', []))
    pop_nan = sum((t['net'] or {}).get('nonfinite_w', 0) + (0 if (t['net'] or {'mse_fin': True})['mse_fin'] else 1) for t in pop.get('trace', []))
    if nan_routeless:
        v.append({'class': FINDING_NAN,
                  'what': 'weights()[%s] are not finite for a solution without routes (%s); downstream: %d non-finite node weights/measures in '
                          'the real Network, %d in the RosomaxaPopulation network' % (nan_routeless[0]['nonfinite'],
                          nan_routeless[0]['make'], net_nan, pop_nan)})
    elif net_nan or pop_nan:
        v.append({'class': 'nonfinite-map-from-finite-solution-weights', 'what': 'network %d population %d' % (net_nan, pop_nan)})
    for t in net.get('trace', []):
        if t['size'] < 4 or t['find_bad']:
            v.append({'class': 'malformed-map-on-real-solution-weights', 'what': str(t)})
    prev = 0
    for t in pop.get('trace', []):
        if t['phase'] < prev or t['elite'] > 2:
            v.append({'class': 'population-phase-or-elite-on-real-solutions', 'what': str(t)})
        prev = t['phase']
    return v


def oracle(c, impl):
    v = []
    if 'panic' in impl:
        return [{'class': 'panic-outside-operation', 'what': impl['panic']}]
    if c['kind'] == 'ctx':
        return oracle_ctx(c, impl)
    tr = impl['trace']
    if c['kind'] == 'pop':
        prev = 0
        cfg = c['cfg']
        for k, t in enumerate(tr):
            if 'panic' in t:
                if cfg['initial'] >= 4:
                    v.append({'class': 'population-panic-in-' + c['ops'][k]['op'], 'what': t['panic']})
                break
            if t['phase'] < prev:
                v.append({'class': 'phase-moved-backwards-%d-to-%d' % (prev, t['phase']), 'what': 'selection phase moved backwards'})
            prev = t['phase']
            if t['elite'] > cfg['elite'] or t['ranked'] > cfg['elite']:
                v.append({'class': 'elite-over-bound', 'what': 'elite holds more than elite_size individuals'})
            if (t['net'] is not None) != (t['phase'] == 1):
                v.append({'class': 'network-outside-exploration', 'what': 'NetworkState availability does not match the phase'})
            if t['net'] is not None:
                nodes = t['net']['nodes']
                keys = [(n[0], n[1]) for n in nodes]
                if len(set(keys)) != len(keys):
                    v.append({'class': 'pop-duplicate-coordinate', 'what': 'two nodes share a coordinate'})
                if any(n[2] != c['dim'] for n in nodes) or t['net']['dim'] != c['dim']:
                    v.append({'class': 'pop-weight-dimension-changed', 'what': 'node weights of another dimension'})
                if any(n[3] > cfg['node_size'] for n in nodes):
                    v.append({'class': 'pop-storage-over-capacity', 'what': 'a node stores more than node_size individuals'})
                if len(nodes) < 4:
                    v.append({'class': 'pop-fewer-than-four-nodes', 'what': 'fewer than four nodes'})
                if not all(n[4] for n in nodes) or not t['net']['mse_fin']:
                    v.append({'class': 'pop-nonfinite', 'what': 'non-finite weight / mse / unified distance'})
        return v
    if impl['created'] != 0:
        if len(c['data']) >= 4:
            v.append({'class': 'network-creation-failed', 'what': 'Network::new failed on >= 4 individuals: %s' % impl.get('err')})
        return v
    ops = [None] + real_ops(c)
    node_size = c['cfg']['node_size']
    if c.get('brief'):
        # long stream: first and last map only, monitors accumulated over all calls
        bb = impl.get('brief_bad') or {}
        for k, t in enumerate(tr):
            if 'panic' in t:
                v.append({'class': 'panic-in-long-stream', 'what': t['panic']})
                break
            wf_dump(t, 'new' if k == 0 else 'long-stream', c['dim'], node_size, v, monitors=(k == 0))
        last = tr[-1] if tr and 'panic' not in tr[-1] else {}
        if bb.get('nonfinite_e') or last.get('nonfinite_e'):
            v.append({'class': FINDING_ERR, 'what': 'node.error became non-finite at store_batch call %s of a stream without smoothing '
                                                    '(exploration-level monitor on the implementation)' % bb.get('first_nonfinite_op')})
        if bb.get('nonfinite_w') or last.get('nonfinite_w') or last.get('nonfinite_m'):
            v.append({'class': 'nonfinite-weight-or-measure-in-long-stream', 'what': 'non-finite weight / mse / unified distance'})
        return v
    for k, t in enumerate(tr):
        name = 'new' if k == 0 else ops[k]['op']
        if 'panic' in t:
            dims_ok = all(len(x) - 3 == c['dim'] for x in ops[k].get('xs', []))
            if dims_ok:
                v.append({'class': 'panic-in-' + name, 'what': t['panic']})
            break
        wf_dump(t, name, c['dim'], node_size, v)
        if name == 'store':
            after = {(n[0], n[1]): n[5] for n in t['nodes']}
            if any(after.get((n[0], n[1]), -1) < n[5] for n in tr[k - 1]['nodes']):
                v.append({'class': 'node-lost-or-replaced-in-store', 'what': 'a node present before store_batch is missing afterwards or lost its hit counter'})
        if name == 'smooth':
            if sorted((n[0], n[1]) for n in t['nodes']) != sorted((n[0], n[1]) for n in tr[k - 1]['nodes']):
                v.append({'class': 'smooth-changed-lattice', 'what': 'smoothing (growth not allowed) changed the set of coordinates'})
        if name == 'compact':
            before = tr[k - 1]
            if t['size'] > before['size']:
                v.append({'class': 'compact-grew-map', 'what': 'compaction increased the number of nodes %d -> %d' % (before['size'], t['size'])})
    return v


def nontrivial_key(c, impl):
    if 'panic' in impl:
        return None
    if c['kind'] == 'ctx':
        return ('ctx', c['seed']) if any(x['routes'] > 0 for x in impl['ctxs']) else None
    tr = impl.get('trace') or []
    if c['kind'] == 'pop':
        return ('pop', c['seed']) if any(t.get('phase') == 1 for t in tr) else None
    sizes = [t['size'] for t in tr if 'size' in t]
    if c.get('brief'):
        return ('long', c['seed']) if (impl.get('brief_bad') or {}).get('max_err_exp', 0) > 64 else None
    if len(set(sizes)) > 1:
        return ('net', c['seed'], tuple(sizes))
    return None


def classify(c, impl):
    labs = ['kind=' + c['kind'], 'stream=' + c['stream'], 'dim=%d' % c['dim']]
    if 'panic' in impl:
        return labs + ['panic']
    tr = impl.get('trace') or []
    if c['kind'] == 'ctx':
        for x in impl['ctxs']:
            labs.append('ctx:%s:%s' % (x['make'], 'no-routes' if x['routes'] == 0 else ('job-less-route' if x['jobs_in_routes'] == 0 else 'routes')))
        if impl['solve']:
            labs.append('ctx:real-solve')
        return sorted(set(labs))
    if c.get('brief'):
        e = (impl.get('brief_bad') or {}).get('max_err_exp', 0)
        return labs + ['long-stream', 'long-stream-max-error=' + ('inf' if e >= 5000 else '2^%d+' % (e // 256 * 256))]
    if c['kind'] == 'net':
        labs.append('node_size=%d' % c['cfg']['node_size'])
        if impl.get('created') != 0:
            return labs + ['creation-error']
        ops = [None] + real_ops(c)
        for k, t in enumerate(tr):
            if 'panic' in t:
                labs.append('op-panic')
                break
            if k == 0:
                if t['size'] > 4:
                    labs.append('grew-in-new')
                continue
            d = t['size'] - tr[k - 1]['size']
            o = ops[k]['op']
            if o == 'store' and d > 0:
                labs.append('store-grew')
            if o == 'compact':
                labs.append('compact-shrank' if d < 0 else 'compact-kept')
    else:
        labs.append('final-phase=%s' % (tr[-1].get('phase') if tr else None))
    return sorted(set(labs))


def shrink_candidates(c):
    if c['kind'] == 'ctx':
        if c.get('solve_gens'):
            yield dict(c, solve_gens=0)
        for k in range(len(c['make'])):
            if len(c['make']) > 4:
                yield dict(c, make=c['make'][:k] + c['make'][k + 1:])
        if len(c['demands']) > 2:
            yield dict(c, demands=c['demands'][:-1])
        return
    ops = c['ops']
    for k in range(len(ops) - 1, -1, -1):
        d = dict(c)
        d['ops'] = ops[:k] + ops[k + 1:]
        yield d
    if len(ops) > 1:
        d = dict(c)
        d['ops'] = ops[:len(ops) // 2]
        yield d


MANIFEST_TEXT = ('Machine-checked proof (Coq, no axioms) over an executable model of the lattice part of the GSOM network '
                 '(coordinates, node map, neighbours, growth, insertion, removal, contraction with Rust truncating division, node '
                 'storages = Elitism with capacity, Network::new, store_batch / smooth / compact) and of the Rosomaxa phase machine: '
                 'for every history of operations and every oracle (best matching units, threshold decisions) the map keeps unique '
                 'keys equal to node.coordinate, lookup finds exactly that node, weight dimension and storage capacity are preserved, '
                 'the contraction remap is injective on kept coordinates, compaction never grows the map, never leaves fewer than '
                 'four nodes and keeps every non-decimated node; phases only move forward and the elite stays within elite_size. '
                 'The model is tied to /repo on every run: the real Network is driven through its public API with an instrumented '
                 'storage, the recorded decisions drive the model inside Coq (vm_compute) and the maps are diffed after every call; '
                 'in the numeric sub-stream nothing but the hash-map iteration order and the shuffle order is recorded: best matching '
                 'units, errors, growth decisions, grown and adjusted weights, mse and unified distances are computed by the binary64 '
                 'twin inside Coq and must equal the implementation bit for bit.')
MANIFEST_NOTE = ('Lattice stream: float-decided choices are oracle inputs and weights are modelled by dimension only. Numeric stream '
                 '(c19_weights): the weight / error / min-max / distance / measure arithmetic is modelled once over an abstract arithmetic '
                 '(Model/GsomW.v) and instantiated over Q (theorems: dimension from the arithmetic, convex adjustment, rates in [0, 1], hull '
                 'of non-growing updates, bounds of grown weights, first-argmin best matching unit, non-negative errors and measures, '
                 'growth test = threshold <= error) and over IEEE binary64 (Coq primitive floats), the instance that is compared bit for bit '
                 'with the real Network after every call. Finiteness is proved for Node::adjust (|w|, |t| <= 2^1021, rate in [0, 1]) and the '
                 'euclidian distance (coordinates between tracked min/max within 2^1022) and refuted next to f64::MAX (finding C19-F3); '
                 'node.error is unbounded (finding C19-F1). Finiteness of whole histories is monitored on the implementation, not proved.')
MANIFEST_TECHNIQUE = 'Coq proof over executable model + vm_compute differential correspondence with the Rust implementation (oracle-driven)'
