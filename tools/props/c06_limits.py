"""C06 sub-stream `c06_limits` — tour limits (max distance / max duration), tour size, skills and strict locks in the goal:
the real insertion evaluation vs. the model Model/Limits.v, and the property (accepted => the really applied tour is within
every limit for an independent simulation) evaluated on the implementation's own output.
Registered by `SUBSTREAMS = [..., 'c06_limits']` in tools/props/c06.py; theorems are in Properties/C06.v and Properties/C01.v."""
import json
import os
from coqterm import z, zlist, lst, nat, opt
from props import corelib as K
from props.corelib import tz, INF

ID = 'C06'            # set by the driver to the parent's id
HARNESS = 'c06_limits'
COQ_IMPORTS = 'From VRP Require Import Base.Tac Model.Core Spec.Feasible Spec.FeasibleX Model.Eval Model.Limits.'
MODEL_TARGETS = ['theories/Model/Limits.vo']
SHARD = 40
SIZES = {'quick': 420, 'thorough': 9000, 'search': 4000}
RULE = ('cases (5 modes). eval (~75%): random worlds (3-6 locations, metric / non-metric asymmetric integer matrices, duplicated '
        'locations = zero-length legs, open / closed tours, end location != start, finite / unbounded shift ends), tours of 0-5 '
        'activities (half of them waiting-heavy: windows opening after the arrival, so that later waiting absorbs a delay), a single '
        'job (1-2 places x 1-3 windows) at position Any / Concrete i / Last; vehicle with / without each of maxDistance, maxDuration, '
        'tourSize, the limit placed exactly at / one below / one above the total after inserting at a random leg (both the real new '
        'total and the evaluator\'s estimate are used as anchors), at / below the current total, far away, or absent; vehicle skills '
        'absent / empty / subsets of 4 skills, job skills absent or allOf / oneOf / noneOf each absent / EMPTY SET / subset (mostly '
        'satisfied by the vehicle; in a quarter of them exactly ONE of the three parts is broken); '
        'in a quarter of the cases locks: a strict block of tour jobs (any / departure / arrival / fixed; mostly placed as the rule '
        'demands), further any / sequence locks, the candidate locked to this or another vehicle. EVERY (leg, place, window) '
        'alternative is evaluated through the whole real goal, through the travel-limit constraint alone (with and without cached '
        'tour state) and the locking constraint alone. skills (~10%): route-level verdict, merge rule, JobSkills::new on random '
        'sets incl. empty ones. lockrule (~7%): one strict rule against every kind of (job, prev, next). size (~5%): '
        'ActivityLimitConstraint for Single jobs and Multi jobs with 2-4 sub-jobs. e2e (~3%, no model trace): pragmatic problems with '
        'vicinity clustering - 2-4 single-delivery jobs a few units apart with random allOf / oneOf / noneOf lists, 1-2 vehicle types '
        'with random skills - read, solved (10 generations) and written by the real code; the oracle looks up the skills of every '
        'served job (regression for C01-F10, also corpus/C01/extra/skills_one_of_clustered.json). non-trivial = distinct eval cases with a tour activity and '
        'a limit / skill / lock present, and every distinct case of the other modes.')
TRUSTED = ['c06_limits: the Python extended simulation (time windows, load, distance = sum of legs, duration = end of the last '
           'activity - departure, number of job activities, skills, strict-lock blocks) in tools/props/c06_limits.py, cross-checked '
           'against the Coq `feasible_x_parts` on the tour, on every alternative and on the applied tour of every case',
           'c06_limits: the limit / skill / lock configuration is installed through closures and dimensions by harness/src/bin/c06_limits.rs '
           '(goal_reader.rs::get_tour_limit_feature and the pragmatic fleet/job readers are not in the loop); one vehicle, '
           'time-independent routing, SimpleActivityCost, no reload intervals, no breaks',
           'c06_limits, mode e2e: the Python lookup of job / vehicle skills in the problem document and of the served jobs in the '
           'solution document (no Coq model behind this mode)']
ASSUMPTIONS = ['integer-valued data below 2^40: every f64 operation of the evaluator is exact',
               'skills are compared as sets of ids (the code uses HashSet<String>; only membership is observable)']

SKILLS = [1, 2, 3, 4]
POS = {'any': 'LAny', 'departure': 'LDeparture', 'arrival': 'LArrival', 'fixed': 'LFixed'}


# ---------------------------------------------------------------- independent extended simulation (oracle)
def full_tour_x(c, acts):
    t = K.full_tour(c, acts)
    for a, d in zip(t[1:], acts):
        a['job'] = d['job']
        a['skills'] = d.get('skills')
    return t


def skills_sat(vskills, sk):
    """documented meaning: allOf - the vehicle has all; oneOf - at least one (when any is listed); noneOf - none"""
    if sk is None:
        return True
    vs = set(vskills or [])
    a, o, n = (sk.get('all') or []), (sk.get('one') or []), (sk.get('none') or [])
    return all(s in vs for s in a) and (not o or any(s in vs for s in o)) and not any(s in vs for s in n)


def lock_ok(rule, served):
    """strict rule: the listed jobs are one contiguous block of the served jobs, anchored as the position says"""
    js = rule['jobs']
    k = len(js)
    for i in range(len(served) - k + 1):
        if served[i:i + k] == js:
            pre, post = served[:i], served[i + k:]
            if rule['pos'] == 'any' or (rule['pos'] == 'departure' and not pre) or (rule['pos'] == 'arrival' and not post) or \
                    (rule['pos'] == 'fixed' and not pre and not post):
                return True
    return False


def strict_rules(c):
    return [l for l in (c.get('locks') or []) if l['order'] == 'strict' and l['cond']]


def parts(c, t):
    """[time windows + load, distance, duration, size, skills] of the step-by-step simulation"""
    time_ok, load_ok, sched, dist = K.simulate(c, t)
    lim = c['lim']
    dur = sched[-1][1] - sched[0][1]
    count = sum(1 for a in t if not a['term'])
    sk = all(skills_sat(c['vskills'], a.get('skills')) for a in t if not a['term'])
    return [time_ok and load_ok, lim['dist'] is None or dist <= lim['dist'], lim['dur'] is None or dur <= lim['dur'],
            lim['size'] is None or count <= lim['size'], sk]


def locks_ok(c, t):
    served = [a['job'] for a in t if not a['term']]
    return all(lock_ok(r, served) for r in strict_rules(c))


def target_x(c, job, prev, place, win):
    x = K.target_of(job, prev, place, win)
    x['job'] = job['id']
    x['skills'] = job.get('skills')
    return x


def alternatives_x(c, t, job):
    out = []
    for idx in range(K.leg_count(c, t)):
        for pi, p in enumerate(job['places']):
            for w in p['tws']:
                x = target_x(c, job, t[idx], p, w)
                t2 = t[:idx + 1] + [x] + t[idx + 1:]
                out.append((idx, pi, tz(w[0]), tz(w[1]), parts(c, t2), locks_ok(c, t2), t2))
    return out


def code_estimates(c, t, idx, x):
    """python twin of calculate_travel_delta, used ONLY to place generated limits on the evaluator's decision boundary"""
    n = c['n']
    _, _, sched, dist = K.simulate(c, t)
    prev = t[idx]
    pd = sched[idx][1]
    dep_x = max(pd + c['dur'][prev['loc'] * n + x['loc']], x['tws']) + x['svc']
    if idx + 1 < len(t):
        nx = t[idx + 1]
        dep_new = max(dep_x + c['dur'][x['loc'] * n + nx['loc']], nx['tws']) + nx['svc']
        dd = c['dist'][prev['loc'] * n + x['loc']] + c['dist'][x['loc'] * n + nx['loc']] - c['dist'][prev['loc'] * n + nx['loc']]
        return dist + dd, (sched[-1][1] - sched[0][1]) + dep_new - sched[idx + 1][1]
    return dist + c['dist'][prev['loc'] * n + x['loc']], (sched[-1][1] - sched[0][1]) + dep_x - pd


# ---------------------------------------------------------------- generation
def gen_skillset(rng, allow_empty=True):
    k = rng.below(8)
    if k < 3:
        return None
    if k == 3 and allow_empty:
        return []
    return sorted(set(rng.choice(SKILLS) for _ in range(rng.range(1, 3))))


def gen_jskills(rng):
    if rng.chance(2, 5):
        return None
    return {'all': gen_skillset(rng), 'one': gen_skillset(rng), 'none': gen_skillset(rng)}


def gen_jskills_for(rng, vskills):
    """job skills that the vehicle mostly satisfies (each part absent / empty / built from the vehicle's set)"""
    vs = sorted(vskills or [])
    others = [s for s in SKILLS if s not in vs]
    def part(pool, allow_extra):
        k = rng.below(6)
        if k < 2:
            return None
        if k == 2:
            return []
        xs = rng.shuffle(pool)[:rng.range(1, 2)] if pool else []
        if allow_extra and rng.chance(1, 2):
            xs = xs + [rng.choice(SKILLS)]
        return sorted(set(xs)) or None
    sk = {'all': part(vs, False), 'one': part(vs, True) if vs else rng.choice([None, None, []]), 'none': part(others, False)}
    if rng.chance(1, 4):
        # break exactly ONE part (each of the three checks must be seen to reject on its own)
        k = rng.choice(['all', 'one', 'none'])
        if k == 'all' and others:
            sk['all'] = sorted(set((sk['all'] or []) + [rng.choice(others)]))
        elif k == 'one' and others:
            sk['one'] = sorted(set(rng.shuffle(others)[:rng.range(1, 2)]))
        elif k == 'none' and vs:
            sk['none'] = sorted(set((sk['none'] or []) + [rng.choice(vs)]))
    elif rng.chance(1, 8):
        k = rng.choice(['all', 'one', 'none'])
        sk[k] = gen_skillset(rng)
    return sk


def gen_tour_wait(rng, w, maxlen=5):
    """waiting-heavy tour: about half of the windows open after the arrival"""
    n = w['n']
    acts = []
    loc, dep = w['veh']['start'], w['veh']['shift_start']
    for jid in range(1, rng.below(maxlen + 1) + 1):
        l = rng.below(n)
        arr = dep + w['dur'][loc * n + l]
        svc = rng.choice([0, 0, 2, 7])
        if rng.chance(1, 2):
            tws = arr + rng.range(1, 30)
            twe = tws + rng.range(0, 60)
        else:
            tws = max(0, arr - rng.range(0, 20))
            twe = rng.choice(['inf', arr + rng.range(0, 50)])
        q = rng.below(4)
        dem = [0, 0, rng.range(1, 3), 0] if q == 0 else ([rng.range(1, 3), 0, 0, 0] if q == 1 else [0, 0, 0, 0])
        acts.append({'job': jid, 'loc': l, 'svc': svc, 'tws': tws, 'twe': twe, 'dem': dem})
        loc, dep = l, max(arr, tws) + svc
    return acts


def duplicate_location(rng, w):
    """make location k a copy of location j: zero-length legs between them"""
    n = w['n']
    j, k = rng.below(n), rng.below(n)
    if j == k:
        return
    for m in ('dur', 'dist'):
        a = w[m]
        for x in range(n):
            a[k * n + x] = a[j * n + x]
            a[x * n + k] = a[x * n + j]
        a[k * n + j] = a[j * n + k] = a[k * n + k] = 0


def near(rng, x):
    return max(0, x + rng.choice([-1, 0, 0, 1]))


def gen_eval(rng):
    w = K.gen_world(rng)
    if rng.chance(1, 4):
        duplicate_location(rng, w)
    if w['veh']['end'] is not None and rng.chance(1, 4):
        w['veh']['end'] = rng.below(w['n'])
    w['veh']['cap'] = rng.range(8, 30)          # capacity is not the subject here: fewer route-level capacity rejections
    tour = gen_tour_wait(rng, w) if rng.chance(1, 2) else K.gen_tour(rng, w, tight=rng.chance(1, 4))
    c = dict(w)
    c['tour'] = tour
    c['job'] = K.gen_boundary_single(rng, w, tour) if rng.chance(1, 3) else K.gen_single(rng, w, tour)
    if rng.chance(1, 2):
        c['job']['dem'] = rng.choice([[0, 0, 0, 0], [0, 0, 1, 0], [1, 0, 0, 0]])
    r = rng.below(10)
    c['pos'] = 'any' if r < 6 else ('last' if r < 7 else ['concrete', rng.below(len(tour) + (2 if rng.chance(1, 6) else 1))])
    # skills
    c['vskills'] = gen_skillset(rng)
    c['job']['skills'] = None if rng.chance(2, 5) else gen_jskills_for(rng, c['vskills'])
    for a in tour:
        a['skills'] = None
        if rng.chance(1, 4):
            a['skills'] = gen_jskills(rng) if rng.chance(1, 8) else gen_jskills_for(rng, c['vskills'])
            if a['skills'] and a['skills'].get('one') == [] and c['vskills'] is not None:
                a['skills']['one'] = None
    # limits around the totals after inserting the first alternative at a random leg
    c['lim'] = {'dist': None, 'dur': None, 'size': None}
    c['locks'] = None
    t = full_tour_x(c, tour)
    _, _, sched, dist0 = K.simulate(c, t)
    dur0 = sched[-1][1] - sched[0][1]
    idx = rng.below(K.leg_count(c, t))
    p = c['job']['places'][0]
    x = target_x(c, c['job'], t[idx], p, p['tws'][0])
    t2 = t[:idx + 1] + [x] + t[idx + 1:]
    _, _, sched2, dist2 = K.simulate(c, t2)
    dur2 = sched2[-1][1] - sched2[0][1]
    est_dist, est_dur = code_estimates(c, t, idx, x)
    big = 10 ** 6
    k = rng.below(10)
    if k < 6:
        c['lim']['dist'] = rng.choice([near(rng, dist2), near(rng, dist2), near(rng, dist2), near(rng, dist2), max(dist0, dist2 - 1),
                                       dist0, dist2 + rng.range(2, 30), dist2 + rng.range(2, 30), big, max(0, dist0 - rng.range(1, 5))])
    k = rng.below(10)
    if k < 7 and dur2 < INF // 4:
        c['lim']['dur'] = rng.choice([near(rng, dur2), near(rng, dur2), near(rng, est_dur), near(rng, est_dur), max(dur0, dur2 - 1), dur0,
                                      max(dur0, est_dur - 1), max(dur2, est_dur) + rng.range(2, 30), max(dur2, est_dur) + rng.range(2, 30),
                                      big, max(0, dur0 - rng.range(1, 5))])
    k = rng.below(10)
    if k < 5:
        c['lim']['size'] = max(0, len(tour) + rng.choice([-1, 0, 0, 1, 1, 1, 1, 1, 2, 5]))
    # locks
    if tour and rng.chance(1, 4):
        locks = []
        ids = [a['job'] for a in tour]
        pos = rng.choice(['any', 'departure', 'arrival', 'fixed'])
        blen = rng.range(1, min(3, len(ids)))
        if rng.chance(5, 6):
            start = {'any': rng.below(len(ids) - blen + 1), 'departure': 0, 'arrival': len(ids) - blen,
                     'fixed': 0}[pos]
            if pos == 'fixed':
                blen = len(ids)
        else:
            start = rng.below(len(ids) - blen + 1)       # not necessarily where the position demands
        block = ids[start:start + blen]
        locks.append({'cond': not rng.chance(1, 8), 'order': 'strict', 'pos': pos, 'jobs': block})
        rest = [i for i in ids if i not in block]
        if rest and rng.chance(1, 2):
            locks.append({'cond': rng.chance(3, 4), 'order': rng.choice(['any', 'sequence']), 'pos': 'any',
                          'jobs': rest[:rng.range(1, len(rest))]})
        if rng.chance(1, 3):
            locks.append({'cond': rng.chance(1, 2), 'order': rng.choice(['any', 'sequence', 'strict']), 'pos': rng.choice(list(POS)),
                          'jobs': [c['job']['id']]})
        c['locks'] = locks
    return c


def gen_skills(rng):
    vs = gen_skillset(rng)
    js = gen_jskills(rng) if rng.chance(1, 3) else gen_jskills_for(rng, vs)
    cand = gen_jskills(rng)
    if js and rng.chance(2, 3):
        # a candidate related to the source: every part absent, equal, a subset or a superset (the cases the merge rule separates)
        def related(x):
            k = rng.below(5)
            if k == 0:
                return None
            if x is None:
                return gen_skillset(rng) if k == 1 else None
            if k == 1:
                return list(x)
            if k == 2:
                return sorted(x)[:max(0, len(x) - 1)] if rng.chance(1, 4) else (sorted(x)[:max(1, len(x) - 1)] or None)
            return sorted(set(list(x) + [rng.choice(SKILLS)]))
        cand = {'all': related(js.get('all')), 'one': related(js.get('one')), 'none': related(js.get('none'))}
    return {'mode': 'skills', 'vskills': vs, 'js': js, 'cand': cand, 'raw': [gen_skillset(rng), gen_skillset(rng), gen_skillset(rng)]}


def gen_lockrule(rng):
    jobs = rng.shuffle([1, 2, 3])[:rng.range(1, 3)]
    pool = [None, 1, 2, 3, 7, 8]
    has_next = rng.chance(4, 5)
    return {'mode': 'lockrule', 'rule': {'pos': rng.choice(list(POS)), 'jobs': jobs}, 'job': rng.choice([7, 8, 9, 1, 2]),
            'prev': rng.choice(pool), 'next': rng.choice(pool) if has_next else None, 'has_next': has_next,
            'closed': rng.chance(1, 2)}


def gen_size(rng):
    w = K.gen_world(rng)
    tour = gen_tour_wait(rng, w)
    c = dict(w)
    c['mode'] = 'size'
    c['tour'] = tour
    c['k'] = rng.choice([0, 2, 2, 3, 4])            # 0 = a Single job; a Multi has at least two sub-jobs
    c['vskills'] = None
    c['lim'] = {'dist': None, 'dur': None, 'size': max(0, len(tour) + rng.choice([-1, 0, 1, 2, 3, 4])) if rng.chance(5, 6) else None}
    return c


LETTERS = ['a', 'b', 'c']


def gen_e2e(rng):
    """a tiny pragmatic problem with vicinity clustering: jobs close to each other, random skills"""
    nj = rng.range(2, 4)
    n = nj + 1
    pts = [(0, 0)] + [(40 + rng.range(0, 6), 40 + rng.range(0, 6)) for _ in range(nj)]
    m = [abs(pts[i][0] - pts[j][0]) + abs(pts[i][1] - pts[j][1]) for i in range(n) for j in range(n)]

    def subset(pool, lo=1):
        xs = rng.shuffle(pool)[:rng.range(lo, max(lo, len(pool)))]
        return sorted(set(xs))

    # vehicles first; the jobs' lists are variations of one base list that the first vehicle mostly meets, so that merges happen
    vehicles = []
    for k in range(rng.range(1, 2)):
        v = {'typeId': 'v%d' % k, 'vehicleIds': ['v%d_1' % k], 'profile': {'matrix': 'car'},
             'costs': {'fixed': 0, 'distance': 1, 'time': 1},
             'shifts': [{'start': {'earliest': '1970-01-01T00:00:00Z', 'location': {'index': 0}},
                         'end': {'latest': '1970-01-01T10:00:00Z', 'location': {'index': 0}}}], 'capacity': [10]}
        if not rng.chance(1, 6):
            v['skills'] = subset(LETTERS)
        vehicles.append(v)
    vs = vehicles[0].get('skills') or []
    others = [x for x in LETTERS if x not in vs]
    base = subset(LETTERS)
    ids = rng.shuffle(['A', 'B', 'C', 'D'])[:nj]
    jobs = []
    for i, jid in enumerate(ids):
        sk = {}
        k = rng.below(8)
        if k < 2:
            sk['oneOf'] = base
        elif k < 4:
            sk['oneOf'] = subset(base)
        elif k < 6:
            sk['oneOf'] = sorted(set(base + [rng.choice(LETTERS)]))
        if vs and rng.chance(1, 4):
            sk['allOf'] = subset(vs)
        elif rng.chance(1, 10):
            sk['allOf'] = subset(LETTERS)
        if others and rng.chance(1, 4):
            sk['noneOf'] = subset(others)
        elif rng.chance(1, 10):
            sk['noneOf'] = subset(LETTERS)
        j = {'id': jid, 'deliveries': [{'places': [{'location': {'index': i + 1}, 'duration': 10,
                                                     'times': [['1970-01-01T00:00:00Z', '1970-01-01T05:00:00Z']]}], 'demand': [1]}]}
        if sk:
            j['skills'] = sk
        jobs.append(j)
    problem = {'plan': {'jobs': jobs,
                        'clustering': {'type': 'vicinity', 'profile': {'matrix': 'car'}, 'threshold': {'duration': 100, 'distance': 100},
                                       'visiting': rng.choice(['continue', 'return']), 'serving': {'type': 'original', 'parking': 0}}},
               'fleet': {'vehicles': vehicles, 'profiles': [{'name': 'car'}]}}
    return {'mode': 'e2e', 'problem': problem, 'matrices': [{'profile': 'car', 'travelTimes': m, 'distances': m}], 'generations': 10}


def generate(rng, tier, n):
    cases = []
    for _ in range(n):
        r = rng.below(100)
        if r < 3:
            cases.append(gen_e2e(rng))
        elif r < 78:
            cases.append(gen_eval(rng))
        elif r < 88:
            cases.append(gen_skills(rng))
        elif r < 95:
            cases.append(gen_lockrule(rng))
        else:
            cases.append(gen_size(rng))
    return cases


def corpus():
    m4 = [0, 10, 10, 10, 10, 0, 10, 10, 10, 10, 0, 10, 10, 10, 10, 0]
    base = {'n': 4, 'dur': m4, 'dist': m4, 'vskills': None, 'locks': None,
            'veh': {'start': 0, 'end': 0, 'shift_start': 0, 'shift_end': 1000, 'cap': 10, 'costs': [0, 1, 1, 0, 0]}}
    job = {'id': 9, 'places': [{'loc': 3, 'svc': 0, 'tws': [[0, 1000]]}], 'dem': [0, 0, 0, 0], 'skills': None}
    a = lambda j, l, s: {'job': j, 'loc': l, 'svc': 0, 'tws': s, 'twe': 1000, 'dem': [0, 0, 0, 0], 'skills': None}
    # the witness of C06_duration_limit_conservative_witness: 0 -> 1 -> 2 (opens at 100) -> 0, duration 110, limit 115; a job at 3
    # put in front of 1 delays the departure at 1 by 10 (estimate 120 > 115: rejected), the wait at 2 absorbs it (real 110)
    c1 = dict(base, lim={'dist': None, 'dur': 115, 'size': None}, tour=[a(1, 1, 0), a(2, 2, 100)], job=job, pos=['concrete', 0])
    # distance limit exactly reached (30 + 20 = 50) / missed by one
    c2 = dict(base, lim={'dist': 50, 'dur': None, 'size': None}, tour=[a(1, 1, 0), a(2, 2, 0)], job=job, pos='any')
    c3 = dict(base, lim={'dist': 49, 'dur': None, 'size': None}, tour=[a(1, 1, 0), a(2, 2, 0)], job=job, pos='any')
    # tour size exactly reached / exceeded
    c4 = dict(base, lim={'dist': None, 'dur': None, 'size': 3}, tour=[a(1, 1, 0), a(2, 2, 0)], job=job, pos='any')
    c5 = dict(base, lim={'dist': None, 'dur': None, 'size': 2}, tour=[a(1, 1, 0), a(2, 2, 0)], job=job, pos='any')
    # an EMPTY oneOf set (only constructible field by field): rejected by a vehicle WITH skills, accepted by one WITHOUT
    s1 = {'mode': 'skills', 'vskills': [1, 2], 'js': {'all': None, 'one': [], 'none': None}, 'cand': None, 'raw': [[], [1], None]}
    s2 = {'mode': 'skills', 'vskills': None, 'js': {'all': None, 'one': [], 'none': None}, 'cand': None, 'raw': [None, None, []]}
    # merge rule, oneOf (finding C01-F10, repaired by /repo ee5718d): candidate {1} is a subset of source {1,2}; the old rule merged
    # them although a vehicle with skill 2 only serves the source; the repaired rule refuses (regression: oracle class below)
    s3 = {'mode': 'skills', 'vskills': [2], 'js': {'all': None, 'one': [1, 2], 'none': None},
          'cand': {'all': None, 'one': [1], 'none': None}, 'raw': [None, None, None]}
    # the other direction is fine: source {1}, candidate {1,2}
    s4 = {'mode': 'skills', 'vskills': [1], 'js': {'all': None, 'one': [1], 'none': None},
          'cand': {'all': None, 'one': [1, 2], 'none': None}, 'raw': [None, None, None]}
    out = [c1, c2, c3, c4, c5, s1, s2, s3, s4]
    # C01-F10 end to end (vicinity clustering): the regression case of corpus/C01/extra, through the real reader / solver / writer
    f = os.path.join(os.path.dirname(os.path.dirname(os.path.dirname(os.path.abspath(__file__)))), 'corpus', 'C01', 'extra',
                     'skills_one_of_clustered.json')
    if os.path.exists(f):
        for c in json.load(open(f))['cases']:
            out.append({'mode': 'e2e', 'problem': c['problem'], 'matrices': c['matrices'], 'generations': 20})
    return out


# ---------------------------------------------------------------- Gallina rendering
def g_oz(x):
    return opt(x, z)


def g_set(x):
    return opt(x, zlist)


def g_js(sk):
    return opt(sk, lambda s: '(mkJS %s %s %s)' % (g_set(s.get('all')), g_set(s.get('one')), g_set(s.get('none'))))


def g_lim(lim):
    return '(mkLim %s %s %s)' % (g_oz(lim['dist']), g_oz(lim['dur']), opt(lim['size'], nat))


def g_goal(c):
    rules = lst(strict_rules(c), lambda l: '(mkRule %s %s)' % (POS[l['pos']], zlist(l['jobs'])))
    conds = lst([(j, l['cond']) for l in (c.get('locks') or []) for j in l['jobs']],
                lambda p: '(%s, %s)' % (z(p[0]), 'true' if p[1] else 'false'))
    return '(mkXGoal %s %s %s %s)' % (g_lim(c['lim']), g_set(c['vskills']), rules, conds)


def g_oj(x):
    return opt(x, z)


def model_term(c):
    mode = c.get('mode', 'eval')
    if mode == 'e2e':
        return None                  # no model behind this mode: the oracle judges the returned document
    if mode == 'skills':
        return 'run_skills %s %s %s (%s, %s, %s)' % (g_set(c['vskills']), g_js(c['js']), g_js(c['cand']),
                                                     g_set(c['raw'][0]), g_set(c['raw'][1]), g_set(c['raw'][2]))
    if mode == 'lockrule':
        nxt = c['next'] if c['has_next'] else None
        return 'run_lock_rule (mkRule %s %s) %s %s %s' % (POS[c['rule']['pos']], zlist(c['rule']['jobs']), g_oj(c['job']),
                                                       g_oj(c['prev']), g_oj(nxt))
    if mode == 'size':
        return 'run_size %s %s %s %s' % (K.g_world(c), g_lim(c['lim']), lst(c['tour'], K.g_tact), nat(c['k'] or 1))
    skills = lst(c['tour'], lambda a: '(%s, %s)' % (z(a['job']), g_js(a.get('skills'))))
    return 'run_limits %s %s %s %s %s %s %s' % (K.g_world(c), g_goal(c), skills, lst(c['tour'], K.g_tact),
                                                K.g_single(c['job']), g_js(c['job'].get('skills')), K.g_pos(c['pos']))


# ---------------------------------------------------------------- comparison
def canon_t(x):
    return 'inf' if x == 'inf' or (isinstance(x, int) and x >= INF // 2) else x


def verdict3(v):
    return [0, 0, 0] if v is None else [1, v['code'], 1 if v['stopped'] else 0]


def opt_list(v):
    return [0] if v is None else [1, v['code'], 1 if v['stopped'] else 0]


def coq_opt_set(x):
    """parsed `option (list Z)`"""
    return None if x == 'None' else list(x[1])


def compare(c, impl, model):
    if 'panic' in impl:
        return 'implementation panicked: %s' % impl['panic']
    mode = c.get('mode', 'eval')
    if mode == 'e2e':
        return None
    if mode == 'skills':
        verdict, merged, fresh = model
        if opt_list(impl['verdict']) != list(verdict):
            return 'skills route-level verdict: impl %s model %s' % (impl['verdict'], verdict)
        if (impl['merge'] == 1) != (merged == 1):
            return 'skills merge: impl %s model %s' % (impl['merge'], merged)
        if [coq_opt_set(x) for x in fresh] != impl['new']:
            return 'JobSkills::new: impl %s model %s' % (impl['new'], fresh)
        return None
    if mode == 'lockrule':
        can, merge = model
        if (impl['verdict'] is None) != (can == 1):
            return 'strict rule: impl verdict %s, model can_insert = %s' % (impl['verdict'], can)
        if impl['verdict'] is not None and impl['verdict'] != {'code': 7, 'stopped': False}:
            return 'strict rule: violation %s, expected code 7 / not stopped' % (impl['verdict'],)
        if {True: 1, False: 0, None: -1}[impl['merge']] != merge:
            return 'lock merge rule: impl %s model %s' % (impl['merge'], merge)
        return None
    if mode == 'size':
        verdict, count = model
        if opt_list(impl['verdict']) != list(verdict) or impl['count'] != count:
            return 'tour size: impl %s (count %s) model %s (count %s)' % (impl['verdict'], impl['count'], verdict, count)
        return None
    sched, totals, res, route, parts0, alts, (sched2, totals2, parts2) = model
    isched = [[canon_t(a), canon_t(b)] for a, b in impl['before']['sched']]
    msched = [[canon_t(a), canon_t(b)] for a, b in sched]
    if msched != isched:
        return 'schedule: impl %s model %s' % (isched, msched)
    if [impl['before']['dist'], canon_t(impl['before']['dur'])] != [totals[0], canon_t(totals[1])]:
        return 'cached totals: impl %s model %s' % ([impl['before']['dist'], impl['before']['dur']], totals)
    if opt_list(impl['route']) != list(route):
        return 'route-level verdict: impl %s model %s' % (impl['route'], route)
    # every alternative: whole goal, travel limits alone (with / without cached state), locks alone
    if len(alts) != len(impl['alts']):
        return 'alternatives: impl has %d, model %d' % (len(impl['alts']), len(alts))
    for ia, ma in zip(impl['alts'], alts):
        if [ia['idx'], ia['place'], canon_t(ia['tws']), canon_t(ia['twe'])] != [ma[0], ma[1], canon_t(ma[2]), canon_t(ma[3])]:
            return 'alternatives are enumerated differently: impl %s model %s' % (ia, ma[:4])
        got = verdict3(ia['goal']) + verdict3(ia['limit']) + verdict3(ia['limit_nostate']) + verdict3(ia.get('lock'))
        if got != list(ma[9:21]):
            return 'alternative %s: verdicts [goal, limits, limits without state, locks] impl %s model %s' % (ma[:4], got, ma[9:21])
    e = impl['eval']
    if e['ok']:
        a = e['acts'][0]
        got = [1, a['index'], a['place'], a['loc'], canon_t(a['svc']), canon_t(a['tws']), canon_t(a['twe']), e['cost'][0]]
        exp = [canon_t(x) for x in res]
        if got != exp:
            return 'eval: impl %s model %s' % (got, exp)
        af = impl['after']
        if [[canon_t(x), canon_t(y)] for x, y in af['sched']] != [[canon_t(x), canon_t(y)] for x, y in sched2]:
            return 'schedule after applying the insertion: impl %s model %s' % (af['sched'], sched2)
        if [af['dist'], canon_t(af['dur']), af['count']] != [totals2[0], canon_t(totals2[1]), totals2[2]]:
            return 'totals after applying the insertion: impl %s model %s' % ([af['dist'], af['dur'], af['count']], totals2)
    else:
        got = [0, e['code'], 1 if e['stopped'] else 0]
        if got != list(res):
            return 'eval: impl %s model %s' % (got, list(res))
    # the python simulation (oracle) vs the Coq specification
    t = full_tour_x(c, c['tour'])
    if [1 if b else 0 for b in parts(c, t)] != list(parts0):
        return 'python extended simulation disagrees with Coq feasible_x_parts on the tour: %s vs %s' % (parts(c, t), parts0)
    for pa, ma in zip(alternatives_x(c, t, c['job']), alts):
        if [1 if b else 0 for b in pa[4]] != list(ma[4:9]):
            return 'python extended simulation disagrees with Coq feasible_x_parts on alternative %s: %s vs %s' % (ma[:4], pa[4], ma[4:9])
    if e['ok']:
        t2 = applied_tour(c, impl)
        if [1 if b else 0 for b in parts(c, t2)] != list(parts2):
            return 'python extended simulation disagrees with Coq feasible_x_parts on the applied tour: %s vs %s' % (parts(c, t2), parts2)
    return None


# ---------------------------------------------------------------- oracle: the property on the implementation's output
def applied_tour(c, impl):
    t = full_tour_x(c, c['tour'])
    a = impl['eval']['acts'][0]
    x = {'loc': a['loc'], 'svc': tz(a['svc']), 'tws': tz(a['tws']), 'twe': tz(a['twe']), 'dem': c['job']['dem'] or [0, 0, 0, 0],
         'term': False, 'job': c['job']['id'], 'skills': c['job'].get('skills')}
    return t[:a['index'] + 1] + [x] + t[a['index'] + 1:]


PART_CLASS = ['time-window-or-capacity', 'distance-limit', 'duration-limit', 'tour-size', 'skills']


def exact_duration_case(c, t, idx, x):
    """the duration estimate is exact (theorem C06_duration_limit_exact_*): the leg is the last one of the tour, or nothing after
    the next activity waits in the current schedule and the next activity does not leave earlier than before"""
    if idx + 2 >= len(t):
        return True
    _, _, sched, _ = K.simulate(c, t)
    n = c['n']
    dep_x = max(sched[idx][1] + c['dur'][t[idx]['loc'] * n + x['loc']], x['tws']) + x['svc']
    nx = t[idx + 1]
    dep_new = max(dep_x + c['dur'][x['loc'] * n + nx['loc']], nx['tws']) + nx['svc']
    return dep_new >= sched[idx + 1][1] and all(sched[k][0] >= t[k]['tws'] for k in range(idx + 2, len(t)))


def oracle_e2e(c, impl):
    """every job a returned tour serves has its skills met by the tour's vehicle (looked up in the problem document)"""
    if 'error' in impl:
        return [{'class': 'e2e-error', 'what': impl['error']}]
    jobs = {j['id']: j for j in c['problem']['plan']['jobs']}
    vskills = {vid: vt.get('skills') for vt in c['problem']['fleet']['vehicles'] for vid in vt['vehicleIds']}
    v = []
    for t in impl['solution']['tours']:
        vs = vskills.get(t['vehicleId'])
        for st in t['stops']:
            for a in st['activities']:
                j = jobs.get(a['jobId'])
                if j is None or not j.get('skills'):
                    continue
                sk = {'all': j['skills'].get('allOf'), 'one': j['skills'].get('oneOf'), 'none': j['skills'].get('noneOf')}
                if not skills_sat(vs, sk):
                    part = [k for k in ('all', 'one', 'none') if not skills_sat(vs, {k: sk[k]})]
                    v.append({'class': 'returned-tour-serves-%s-job-with-unmet-skills-%s' % ('clustered' if 'commute' in a else 'plain', '+'.join(part)),
                              'what': 'job %s (skills %s) is served by %s (skills %s)' % (a['jobId'], j['skills'], t['vehicleId'], vs)})
    return v


def oracle(c, impl):
    if 'panic' in impl:
        return [{'class': 'panic', 'what': 'evaluator panicked: ' + impl['panic']}]
    mode = c.get('mode', 'eval')
    v = []
    if mode == 'e2e':
        return oracle_e2e(c, impl)
    if mode == 'skills':
        # the merge rule: the merged job keeps the SOURCE's skills, so every vehicle that meets the source's requirement must meet
        # the candidate's (records without an EMPTY oneOf set, as JobSkills::new builds them)
        if impl['merge'] == 1 and not (c['js'] and c['js'].get('one') == []) and skills_sat(c['vskills'], c['js']) \
                and not skills_sat(c['vskills'], c['cand']):
            part = [k for k in ('all', 'one', 'none')
                    if not skills_sat(c['vskills'], {k: (c['cand'] or {}).get(k)})]
            v.append({'class': 'skills-merge-accepts-candidate-unmet-by-source-vehicle-' + '+'.join(part),
                      'what': 'merge(source %s, candidate %s) = Ok although a vehicle with skills %s meets the source and not the candidate'
                              % (c['js'], c['cand'], c['vskills'])})
        ok = skills_sat(c['vskills'], c['js'])
        if impl['verdict'] is None and not ok:
            v.append({'class': 'unsound-skills', 'what': 'skills constraint accepts a vehicle %s for a job requiring %s' % (c['vskills'], c['js'])})
        if impl['verdict'] is not None and ok and not (c['js'] and c['js'].get('one') == []):
            v.append({'class': 'incomplete-skills', 'what': 'skills constraint rejects a vehicle %s that satisfies %s' % (c['vskills'], c['js'])})
        return v
    if mode == 'size':
        lim = c['lim']['size']
        new = len(c['tour']) + (c['k'] or 1)
        if lim is not None and impl['verdict'] is None and new > lim:
            v.append({'class': 'unsound-tour-size', 'what': 'a job with %d activities accepted for a tour of %d, tourSize %d' % (c['k'] or 1, len(c['tour']), lim)})
        if impl['verdict'] is not None and (lim is None or new <= lim):
            v.append({'class': 'incomplete-tour-size', 'what': 'a job with %d activities rejected for a tour of %d, tourSize %s' % (c['k'] or 1, len(c['tour']), lim)})
        return v
    if mode == 'lockrule':
        return v
    t = full_tour_x(c, c['tour'])
    if not all(parts(c, t)):
        return []                  # the property speaks about feasible tours
    base_locks = locks_ok(c, t)
    rules = strict_rules(c)
    in_rule = any(c['job']['id'] in r['jobs'] for r in rules)
    palts = alternatives_x(c, t, c['job'])
    route_ok = impl['route'] is None
    # (1) every alternative the real goal accepts (route level AND activity level) is feasible for the extended simulation
    if route_ok and len(palts) == len(impl['alts']):
        for pa, ia in zip(palts, impl['alts']):
            if ia['goal'] is None:
                for k, ok in enumerate(pa[4]):
                    if not ok:
                        v.append({'class': 'unsound-' + PART_CLASS[k],
                                  'what': 'goal accepts leg %d place %d window (%s, %s); the simulation of that tour breaks: %s' % (
                                      pa[0], pa[1], pa[2], pa[3], PART_CLASS[k])})
                if base_locks and not in_rule and not pa[5]:
                    v.append({'class': 'unsound-strict-lock', 'what': 'goal accepts leg %d: a strict block is split or loses its anchor' % pa[0]})
            else:
                code = ia['goal']['code']
                # the exact tests: a rejection by them means the simulation breaks the same rule
                if code == 3 and pa[4][1]:
                    v.append({'class': 'incomplete-distance-limit', 'what': 'leg %d rejected by the distance limit, the simulated tour is within it' % pa[0]})
                if code == 4 and pa[4][2] and exact_duration_case(c, t, pa[0], pa[6][pa[0] + 1]):
                    v.append({'class': 'incomplete-duration-limit-without-later-waiting',
                              'what': 'leg %d rejected by the duration limit, the simulated tour is within it and nothing after the next activity waits' % pa[0]})
    # (2) the answer of the evaluator, really applied (tour.insert_at + accept_insertion by the harness)
    e = impl['eval']
    if e['ok']:
        af = impl['after']
        t2 = applied_tour(c, impl)
        if af['locs'] != [a['loc'] for a in t2]:
            v.append({'class': 'applied-tour-differs', 'what': 'the applied tour %s is not the tour with the job at the answered place %s' % (af['locs'], [a['loc'] for a in t2])})
        p2 = parts(c, t2)
        for k, ok in enumerate(p2):
            if not ok:
                v.append({'class': 'unsound-' + PART_CLASS[k], 'what': 'accepted insertion (index %d): the applied tour breaks: %s' % (e['acts'][0]['index'], PART_CLASS[k])})
        # the implementation's own totals of the applied tour
        lim = c['lim']
        if lim['dist'] is not None and af['dist'] > lim['dist']:
            v.append({'class': 'unsound-distance-limit', 'what': 'cached total distance %s of the applied tour exceeds %s' % (af['dist'], lim['dist'])})
        if lim['dur'] is not None and tz(af['dur']) > lim['dur']:
            v.append({'class': 'unsound-duration-limit', 'what': 'cached total duration %s of the applied tour exceeds %s' % (af['dur'], lim['dur'])})
        if lim['size'] is not None and af['count'] > lim['size']:
            v.append({'class': 'unsound-tour-size', 'what': 'the applied tour has %s job activities, tourSize %s' % (af['count'], lim['size'])})
        if base_locks and not in_rule and not locks_ok(c, t2):
            v.append({'class': 'unsound-strict-lock', 'what': 'accepted insertion splits a strict block or takes its anchor'})
        cond = [l['cond'] for l in (c.get('locks') or []) if c['job']['id'] in l['jobs']]
        if cond and not cond[-1]:
            v.append({'class': 'unsound-lock-condition', 'what': 'a job locked to another vehicle is accepted'})
    else:
        # route-level rejections by an exact rule
        if e['code'] == 6 and skills_sat(c['vskills'], c['job'].get('skills')) and not (c['job'].get('skills') or {}).get('one') == []:
            v.append({'class': 'incomplete-skills', 'what': 'job rejected (skills) although the vehicle %s satisfies %s' % (c['vskills'], c['job']['skills'])})
        if e['code'] == 10 and (c['lim']['size'] is None or len(c['tour']) + 1 <= c['lim']['size']):
            v.append({'class': 'incomplete-tour-size', 'what': 'job rejected (tour size) although %d + 1 <= %s' % (len(c['tour']), c['lim']['size'])})
    # de-duplicate
    seen, out = set(), []
    for x in v:
        if x['class'] not in seen:
            seen.add(x['class'])
            out.append(x)
    return out


def nontrivial_key(c, impl):
    if 'panic' in impl:
        return None
    mode = c.get('mode', 'eval')
    if mode == 'e2e':
        return ('e2e', json.dumps(c['problem'], sort_keys=True)) if 'solution' in impl else None
    if mode != 'eval':
        return (mode, str(sorted((k, str(x)) for k, x in c.items() if k != 'id')))
    lim = c['lim']
    if not c['tour'] or (lim['dist'] is None and lim['dur'] is None and lim['size'] is None and c['job'].get('skills') is None and not c.get('locks')):
        return None
    return (str(c['tour']), str(c['job']), str(c['pos']), str(c['veh']), str(lim), str(c['vskills']), str(c.get('locks')))


def classify(c, impl):
    mode = c.get('mode', 'eval')
    labs = ['mode=' + mode]
    if 'panic' in impl:
        return labs
    if mode == 'eval':
        lim = c['lim']
        labs += ['closed' if c['veh']['end'] is not None else 'open', 'tour_len=%d' % len(c['tour']),
                 'limits=' + ('+'.join(k for k in ('dist', 'dur', 'size') if lim[k] is not None) or 'none'),
                 'vskills=' + ('none' if c['vskills'] is None else ('empty' if not c['vskills'] else 'some')),
                 'jobskills=' + ('none' if c['job'].get('skills') is None else 'some'), 'locks=%s' % bool(c.get('locks'))]
        e = impl['eval']
        labs.append('verdict=' + ('success' if e['ok'] else 'fail(code=%s,stopped=%s)' % (e['code'], e['stopped'])))
        t = full_tour_x(c, c['tour'])
        feas = all(parts(c, t))
        labs.append('tour_feasible_x=%s' % feas)
        if feas:
            palts = alternatives_x(c, t, c['job'])
            for pa, ia in zip(palts, impl['alts']):
                if ia['goal'] is not None and ia['goal']['code'] == 4 and pa[4][2]:
                    labs.append('conservative-duration-reject(later waiting absorbs the delay)')
                    break
            for pa, ia in zip(palts, impl['alts']):
                if ia['goal'] is None:
                    _, _, s2, d2 = K.simulate(c, pa[6])
                    if lim['dist'] is not None and d2 == lim['dist']:
                        labs.append('accepted-at-distance-limit')
                    if lim['dur'] is not None and s2[-1][1] - s2[0][1] == lim['dur']:
                        labs.append('accepted-at-duration-limit')
                    break
    elif mode == 'e2e':
        if 'solution' in impl:
            acts = [a for t in impl['solution']['tours'] for st in t['stops'] for a in st['activities']]
            labs.append('clustered=%s' % any('commute' in a for a in acts))
            labs.append('unassigned=%d' % len(impl['solution'].get('unassigned') or []))
        else:
            labs.append('error')
    elif mode == 'skills':
        labs.append('verdict=%s' % ('ok' if impl['verdict'] is None else 'fail'))
        labs.append('merge=%s' % (impl['merge'] == 1))
    elif mode == 'lockrule':
        labs.append('pos=%s can_insert=%s' % (c['rule']['pos'], impl['verdict'] is None))
    elif mode == 'size':
        labs.append('k=%s verdict=%s' % (c['k'], 'ok' if impl['verdict'] is None else 'fail'))
    return labs


def shrink_candidates(c):
    if c.get('mode', 'eval') != 'eval':
        return
    for i in range(len(c['tour'])):
        gone = c['tour'][i]['job']
        if any(gone in l['jobs'] for l in (c.get('locks') or [])):
            continue
        d = dict(c)
        d['tour'] = c['tour'][:i] + c['tour'][i + 1:]
        yield d
    if c.get('locks'):
        d = dict(c)
        d['locks'] = None
        yield d
    for k in ('dist', 'dur', 'size'):
        if c['lim'][k] is not None:
            d = dict(c)
            d['lim'] = dict(c['lim'])
            d['lim'][k] = None
            yield d
    for pi, p in enumerate(c['job']['places']):
        if len(c['job']['places']) > 1:
            d = dict(c)
            d['job'] = dict(c['job'], places=c['job']['places'][:pi] + c['job']['places'][pi + 1:])
            yield d
        for wi in range(len(p['tws'])):
            if len(p['tws']) > 1:
                d = dict(c)
                ps = [dict(q) for q in c['job']['places']]
                ps[pi]['tws'] = p['tws'][:wi] + p['tws'][wi + 1:]
                d['job'] = dict(c['job'], places=ps)
                yield d
