"""C10 sub-stream `c10_ext` — EXTENDED problem documents (relations, objectives, job values, task orders, index / coordinate / mixed
locations with supplied or approximated routing matrices incl. timestamps and errorCodes, recharge stations, vicinity clustering
profile, explicit speeds, resource capacities, limits) read by the real typed entry point
`(ApiProblem, Option<Vec<Matrix>>).read_pragmatic()` and validated by the real `ValidationContext::validate`, each under catch_unwind.

Verdict: the Coq model (Model/ValidationX.v :: run_xvalidate, Model/Reader.v :: run_xread) and the Coq specification
(Spec/RulesX.v :: run_xspec = the documented rules, run_xknown = the recorded deviation classes) are evaluated inside Coq for every
case; `compare` = model vs implementation on {Ok, sorted set of codes, Panic} for validate and read; `oracle_model` = the property
itself evaluated with the Coq specification on the implementation's answer.  The python reference (tools/props/c10_full.py, a
transcription of the code) and the python copies of the known classes / of create_transport_costs are cross-checks of the Coq side.
Registered by `SUBSTREAMS = ['c10_ext']` in tools/props/c10.py.  Theorems: Properties/C10.v (C10_x_*)."""
import copy, json, re, datetime
from coqterm import z, zlist, lst, string, opt, nat
from props import c10
from props import c10_full as FULL

ID = 'C10'
HARNESS = 'c10_ext'
COQ_IMPORTS = ('From VRP Require Import Base.Tac Model.Validation Model.ValidationX Model.Reader Spec.Rules Spec.RulesX.\n'
               'From Coq Require Import String.')
MODEL_TARGETS = ['theories/Model/ValidationX.vo', 'theories/Model/Reader.vo', 'theories/Spec/RulesX.vo']
SIZES = {'quick': 1500, 'thorough': 20000, 'search': 5000}
SHARD = 60
RULE = ('cases: a valid base document (as in the main stream) extended with one area of deviations, 1-2 per case: relations '
        '(unknown jobs / vehicles / shift indices, reserved ids departure / arrival / break / reload and `recharge` in every position and '
        'multiplicity against the number of optional breaks / reloads / stations, duplicated jobs across relations and vehicles, duplicated '
        'plan ids, incomplete jobs, multi-place jobs), objectives (empty, duplicates at both levels, missing / multiple cost objectives, '
        'value and order interplay incl. 0, negative and 0.5, multi-objectives: nested, empty, of objective-only members, weighted-sum '
        'arity, only multi-objectives with / without a break, compact-tour radius), routing (coordinates / indices / mixed / shared / sparse / '
        'colliding locations against supplied matrices of fitting and non-fitting, non-square and differing sizes, named / unnamed / mixed / '
        'unknown / duplicated / missing profiles, timestamps valid / unparsable / one or two per profile, errorCodes of every shape, negative '
        'values, no matrices, explicit speeds), recharge stations (valid / invalid times), required breaks of mixed kinds or with touching '
        'spans, clustering profile known / unknown, resource capacity dimensions, limits. non-trivial = distinct (outcome, codes, labels).')
TRUSTED = ['c10_ext: RFC 3339 parsing is an oracle (every time string travels with its parse result; matrix timestamps are classified by a strict python check)',
           'c10_ext: serde deserialisation of the generated JSON; rendering of the extended document into JSON (xjson) and into Gallina (c_xdoc)',
           'c10_ext: hierarchical-areas objectives, custom locations, skills / groups / compatibility / tags / break places and policies are not generated (not modelled)',
           'c10_ext: a plan job is never named like a conditional job (`<vehicle>_break_<shift>_<n>`)']
ASSUMPTIONS = ['c10_ext: integer-valued numbers (job value in multiples of 0.001); approximated matrices are only looked at through their size']

TYPES = ['minimize-cost', 'minimize-distance', 'minimize-duration', 'minimize-tours', 'maximize-tours', 'maximize-value',
         'minimize-unassigned', 'minimize-arrival-time', 'balance-max-load', 'balance-activities', 'balance-distance',
         'balance-duration', 'compact-tour', 'tour-order', 'fast-service', 'hierarchical-areas']
TAG = {t: k for k, t in enumerate(TYPES)}
PLAIN_ONLY = ('minimize-tours', 'maximize-tours', 'minimize-unassigned', 'minimize-arrival-time')
RESERVED = ('departure', 'arrival', 'break', 'reload')
SPECIAL = ('break', 'reload', 'recharge')
XKNAMES = dict(c10.KNAMES)
XKNAMES.update({11: 'relation-special-id-without-conditional-job-panics-in-read-locks',
                14: 'profile-speed-not-positive-panics-before-validation',
                16: 'recharge-station-times-unchecked-panics-in-reader',
                21: 'objectives-pass-validation-but-goal-reader-rejects-with-E0000',
                22: 'required-breaks-of-mixed-kinds-or-intersecting-spans-rejected-as-E0002'})
H = c10.H


def T(h):
    return c10.T(h * H)


_RFC = re.compile(r'^(\d{4})-(\d\d)-(\d\d)[Tt ](\d\d):(\d\d):(\d\d)(\.\d+)?([Zz]|[+-]\d\d:\d\d)$')


def stamp(s):
    """[text, value | None] for a matrix timestamp string"""
    m = _RFC.match(s)
    if not m:
        return [s, None]
    try:
        y, mo, dd, hh, mi, ss = (int(m.group(k)) for k in range(1, 7))
        dt = datetime.datetime(y, mo, dd, hh, mi, ss, tzinfo=datetime.timezone.utc)
    except ValueError:
        return [s, None]
    off = m.group(8)
    v = int(dt.timestamp())
    if off not in ('Z', 'z'):
        sign = 1 if off[0] == '+' else -1
        v -= sign * (int(off[1:3]) * 3600 + int(off[4:6]) * 60)
    return [s, v]


# ------------------------------------------------------------------ document helpers
def job_tasks(j):
    return c10.job_tasks(j)


def base_doc(rng):
    for _ in range(200):
        d = c10.mk_doc(rng)
        if not c10.py_spec(d) and not c10.py_known(d) and all(v['vehicle_ids'] for v in d['vehicles']):
            break
    d.update({'relations': None, 'objectives': None, 'clustering': None, 'matrices': None, 'loc_mode': 'coord', 'speeds': None,
              'resource_dims': None})
    return d


def distinct_profiles(d):
    out = []
    for p in d['profiles']:
        if p not in out:
            out.append(p)
    return out


def count_locations(d):
    n = sum(len(t['places']) for j in d['jobs'] for t in job_tasks(j))
    for v in d['vehicles']:
        for s in v['shifts']:
            n += 1 + (1 if s['end'] is not None else 0) + len(s['reloads'] or [])
            n += len((s.get('recharges') or {}).get('stations', []))
    return n


def plain_matrices(d, size, named=True):
    return [{'profile': p if named else None, 'timestamp': None, 'travelTimes': [1] * (size * size), 'distances': [1] * (size * size),
             'errorCodes': None} for p in distinct_profiles(d)]


# ------------------------------------------------------------------ JSON
def xjson(d):
    """(problem JSON, matrices JSON | None); fills d['_locs'] (location descriptors in CoordIndex::new order)"""
    p = c10.to_json(d)
    mode = d['loc_mode']
    locs = []
    total = count_locations(d)

    def conv(loc):
        k = int(loc['lat']) - 1
        if mode == 'coord':
            kind, v = 'c', k
        elif mode == 'index':
            kind, v = 'i', k
        elif mode == 'index-shared':
            kind, v = 'i', max(k - 1, 0)
        elif mode == 'coord-shared':
            kind, v = 'c', max(k - 1, 0)
        elif mode == 'index-sparse':
            kind, v = 'i', (d['sparse'][1] if k == d['sparse'][0] else k)
        elif mode == 'index-reversed':
            kind, v = 'i', total - 1 - k
        elif mode == 'mixed-collide':
            # the first location is an index equal to the position a later coordinate gets: the coordinate replaces it in the reverse index
            kind, v = ('i', d['collide']) if k == 0 else ('c', k)
        else:                                     # mixed
            kind, v = ('c', k) if k % 2 == 0 else ('i', k)
        locs.append((kind, v))
        return {'lat': float(v + 1), 'lng': 0.0} if kind == 'c' else {'index': v}
    for j in p['plan']['jobs']:
        for kind in ('pickups', 'deliveries', 'replacements', 'services'):
            for t in j.get(kind) or []:
                for pl in t['places']:
                    pl['location'] = conv(pl['location'])
    for v in p['fleet']['vehicles']:
        for s in v['shifts']:
            s['start']['location'] = conv(s['start']['location'])
            if 'end' in s:
                s['end']['location'] = conv(s['end']['location'])
            for r in s.get('reloads') or []:
                r['location'] = conv(r['location'])
            for st in (s.get('recharges') or {}).get('stations', []):
                st['location'] = conv(st['location'])
    d['_locs'] = locs
    if d.get('relations') is not None:
        p['plan']['relations'] = [dict({'type': r['type'], 'jobs': r['jobs'], 'vehicleId': r['vehicle_id']},
                                       **({'shiftIndex': r['shift_index']} if r['shift_index'] is not None else {}))
                                  for r in d['relations']]
    if d.get('objectives') is not None:
        p['objectives'] = d['objectives']
    if d.get('clustering') is not None:
        p['plan']['clustering'] = {'type': 'vicinity', 'profile': {'matrix': d['clustering']}, 'threshold': {'duration': 120, 'distance': 100},
                                   'visiting': 'return', 'serving': {'type': 'original', 'parking': 0}}
    for prof, sp in zip(p['fleet']['profiles'], d.get('speeds') or []):
        if sp is not None:
            prof['speed'] = sp
    ms = None
    if d.get('matrices') is not None:
        ms = []
        for m in d['matrices']:
            o = {'travelTimes': m['travelTimes'], 'distances': m['distances']}
            if m.get('profile') is not None:
                o['profile'] = m['profile']
            if m.get('timestamp') is not None:
                o['timestamp'] = m['timestamp'][0]
            if m.get('errorCodes') is not None:
                o['errorCodes'] = m['errorCodes']
            ms.append(o)
    return p, ms


def finish(d, labels):
    problem, ms = xjson(d)
    return {'op': 'x', 'doc': d, 'labels': labels, 'problem': problem, 'matrices': ms}


# ------------------------------------------------------------------ Gallina
def milli(v):
    return int(round(v * 1000))


def c_xjob(j):
    orders = [t['order'] for t in job_tasks(j) if t.get('order') is not None]
    return '(mkXJob %s %s %s)' % (c10.c_job(j), opt(j.get('value'), lambda v: z(milli(v))), zlist(orders))


def c_stations(rc):
    return lst(rc['stations'], lambda st: c10.c_tws(st['times']))


def c_xvehicle(v):
    lim = v.get('limits') or {}
    return '(mkXVehicle %s %s %s %s %s)' % (
        c10.c_vehicle(v), lst(v['shifts'], lambda s: opt(s.get('recharges'), c_stations)),
        opt(lim.get('tourSize'), z), opt(lim.get('maxDistance'), z), opt(lim.get('maxDuration'), z))


def c_obj_arg(o):
    return z(o.get('job_radius', 0))


def c_inner(o):
    if o['type'] == 'multi-objective':
        return 'INested'
    return '(IObj %s %s)' % (nat(TAG[o['type']]), c_obj_arg(o))


def c_objective(o):
    if o['type'] == 'multi-objective':
        st = o['strategy']
        s = 'SSum' if st['name'] == 'sum' else '(SWeighted %s)' % nat(len(st['weights']))
        return '(OMulti %s %s)' % (s, lst(o['objectives'], c_inner))
    return '(OObj %s %s)' % (nat(TAG[o['type']]), c_obj_arg(o))


def c_relation(r):
    return '(mkRel %s %s %s %s)' % ({'any': 'RAny', 'sequence': 'RSequence', 'strict': 'RStrict'}[r['type']],
                                    lst(r['jobs'], string), string(r['vehicle_id']), opt(r['shift_index'], nat))


def c_loc(l):
    return '(LCoord %s)' % z(l[1]) if l[0] == 'c' else '(LIndex %s)' % nat(l[1])


def c_xmatrix(m):
    return '(mkXMatrix %s %s)' % (c10.c_matrix(m), opt(m.get('timestamp'), c10.c_tm))


def resource_dims(d):
    if d['resources'] is None:
        return []
    return d.get('resource_dims') or [max(1, d.get('ndim', 1))] * len(d['resources'])


def c_xdoc(d):
    speeds = [s for s in (d.get('speeds') or []) if s is not None]
    return '(mkXDoc %s %s %s %s %s %s %s %s %s %s %s)' % (
        lst(d['jobs'], c_xjob), lst(d['vehicles'], c_xvehicle), lst(d['profiles'], string), zlist(speeds),
        opt(d['resources'], lambda rs: lst(rs, string)), lst(resource_dims(d), nat), lst(d['_locs'], c_loc),
        opt(d.get('relations'), lambda rs: lst(rs, c_relation)), opt(d.get('objectives'), lambda os: lst(os, c_objective)),
        opt(d.get('clustering'), string), opt(d.get('matrices'), lambda ms: lst(ms, c_xmatrix)))


def model_term(c):
    return ('let d := %s in (fst (run_xvalidate d), snd (run_xvalidate d), fst (run_xread d), snd (run_xread d), run_xspec d, run_xknown d, '
            'xtransport_fails (x_profiles d) (seen_matrices d))' % c_xdoc(c['doc']))


# ------------------------------------------------------------------ python cross-checks
def ndistinct(locs):
    return len(set(tuple(l) for l in locs))


def reference(d):
    """codes of the rules the document breaks: base rules from the documented-rule copy (c10.py_spec), relation / objective rules from
    the transcription in c10_full, routing rules below"""
    base = c10.py_spec(d)
    out = [c for c in base if not 1500 <= c < 1600]
    out += [c for c in base if c in (1500, 1501)]
    locs = [tuple(l) for l in d['_locs']]
    has_c = any(l[0] == 'c' for l in locs)
    has_i = any(l[0] == 'i' for l in locs)
    ms = d.get('matrices')
    if has_c and has_i:
        out.append(1502)
    if has_i and not ms:
        out.append(1503)
    if ms:
        size = FULL.round_sqrt(len(ms[0]['distances']))
        if max(ndistinct(locs), 1) != size or any(l[0] == 'i' and l[1] >= size for l in locs):
            out.append(1504)
    elif ms is None and not has_i and d['profiles'] and not locs and not bad_speed(d):
        out.append(1504)
    if 1505 in base or (d.get('clustering') is not None and d['clustering'] not in d['profiles']):
        out.append(1505)
    return sorted(set(out + FULL.ref_objectives(d) + FULL.ref_relations(d)))


def opt_breaks(s):
    return sum(1 for b in (s['breaks'] or []) if b[0] in ('otw', 'ooff'))


def req_spans(s):
    out = []
    for b in s['breaks'] or []:
        if b[0] == 'roff':
            out.append((True, (b[1], b[2])))
        elif b[0] == 'rexact' and b[1][1] is not None and b[2][1] is not None:
            out.append((False, (b[1][1], b[2][1])))
    return out


def multi_bad(o):
    ins = o['objectives']
    if not ins:
        return True
    if any(i['type'] == 'multi-objective' or (i['type'] == 'compact-tour' and i.get('job_radius', 0) <= 0) for i in ins):
        return True
    if all(i['type'] in PLAIN_ONLY for i in ins):
        return True
    st = o['strategy']
    return st['name'] == 'weighted-sum' and len(st['weights']) != len(ins)


def py_xknown(d):
    out = list(c10.py_known(d))
    if 7 not in out and any(k > 8 for k in resource_dims(d)):
        out.append(7)
    x11 = False
    for r in d.get('relations') or []:
        for v in d['vehicles']:
            si = r['shift_index'] or 0
            if r['vehicle_id'] in v['vehicle_ids'] and si < len(v['shifts']):
                s = v['shifts'][si]
                have = {'break': opt_breaks(s), 'reload': len(s['reloads'] or []),
                        'recharge': len((s.get('recharges') or {}).get('stations', []))}
                if any(r['jobs'].count(k) > n for k, n in have.items()):
                    x11 = True
    if x11:
        out.append(11)
    locs = [tuple(l) for l in d['_locs']]
    # (X14 - speed <= 0 without matrices - was repaired in /repo by 01921b9: E0002 from the matrix step, no class any more)
    if any(st['times'] is not None and any(c10.p_window(w) is None for w in st['times'])
           for v in d['vehicles'] for s in v['shifts'] for st in (s.get('recharges') or {}).get('stations', [])):
        out.append(16)
    objs = d.get('objectives')
    if objs is not None:
        listed = [o for o in objs if o['type'] != 'multi-objective']
        some_break = any(s['breaks'] for v in d['vehicles'] for s in v['shifts'])
        if any((o['type'] == 'compact-tour' and o.get('job_radius', 0) <= 0) or (o['type'] == 'multi-objective' and multi_bad(o)) for o in objs) \
                or (not listed and not some_break):
            out.append(21)

    def g2(s):
        sp = req_spans(s)
        if any(a[0] != b[0] for a in sp for b in sp):
            return True
        ws = [x[1] for x in sp]
        return any(c10.overlap(ws[i], ws[j]) for i in range(len(ws)) for j in range(i + 1, len(ws)))
    if any(v['vehicle_ids'] and any(g2(s) for s in v['shifts']) for v in d['vehicles']):
        out.append(22)
    return sorted(set(out))


def seen_matrices(d):
    """the matrices validation and the reader see (None = approximated, only sizes matter)"""
    if d.get('matrices') is not None:
        return d['matrices']
    locs = [tuple(l) for l in d['_locs']]
    if any(l[0] == 'i' for l in locs):
        return []
    if bad_speed(d):
        return []                                  # X14 repair (01921b9): nothing is approximated for a speed that is not positive
    n = ndistinct(locs)
    return [{'profile': p, 'timestamp': None, 'travelTimes': [0] * (n * n), 'distances': [0] * (n * n), 'errorCodes': None}
            for p in d['profiles']]


def bad_speed(d):
    return any(s is not None and s <= 0 for s in (d.get('speeds') or []))


def py_transport_fails(d):
    """python copy of fleet_reader.rs::create_transport_costs + vrp-core matrix transport cost constructors: True = E0002"""
    ms = seen_matrices(d)
    names = distinct_profiles(d)
    named = [m.get('profile') is not None for m in ms]
    stamped = [m.get('timestamp') is not None for m in ms]
    if not all(named) and any(named):
        return True
    if not all(named) and any(stamped):
        return True
    if len(ms) < len(names):
        return True
    datas = []
    for m in ms:
        dt = FULL.matrix_data_py(m)
        if dt is None or (m.get('timestamp') is not None and m['timestamp'][1] is None):
            return True
        datas.append(dt)
    idxs = [names.index(m['profile']) if m.get('profile') in names else i for i, m in enumerate(ms)]
    if len(set(idxs)) != len(names):
        return True
    if not datas:
        return True
    size = FULL.round_sqrt(len(datas[0][0]))
    if any(len(a) != len(b) for a, b in datas):
        return True
    if any(FULL.round_sqrt(len(b)) != size or FULL.round_sqrt(len(a)) != size for a, b in datas):
        return True
    if any(len(a) != size * size or len(b) != size * size for a, b in datas):
        return True
    if any(stamped):
        return not all(stamped) or any(idxs.count(i) == 1 for i in idxs)
    return sorted(idxs) != list(range(len(idxs)))


# ------------------------------------------------------------------ generation: relations
def vehicle_of(d, vid):
    for v in d['vehicles']:
        if vid in v['vehicle_ids']:
            return v
    return None


def start_relation(rng, d):
    """a valid relation on a simple job (the base of every relation deviation)"""
    if not any(FULL.simple_job(j) for j in d['jobs']) or rng.chance(1, 2):
        FULL.simplify(rng.choice(d['jobs']))
    r, v = FULL.valid_relation(rng, d)
    d['relations'] = [r]
    return r, v


def set_breaks(s, n_opt, n_req, lo=1):
    bs = []
    for k in range(n_opt):
        bs.append(['otw', [T(lo + 2 * k), T(lo + 2 * k + 1)]])
    for k in range(n_req):
        a = lo + 2 * (n_opt + k)
        bs.append(['rexact', T(a), T(a), 600])
    s['breaks'] = bs


def gen_relations_x(rng, d):
    r, v = start_relation(rng, d)
    base = [i for i in r['jobs'] if i not in RESERVED]
    if not base:
        return ['xrel-no-simple-job']
    si = r['shift_index'] or 0
    s = v['shifts'][si]
    k = rng.below(16)
    if k == 0:
        # reserved ids in every position
        ids = list(base)
        for name in rng.shuffle(['departure', 'arrival'])[:rng.range(1, 2)]:
            if name == 'arrival' and s['end'] is None:
                continue
            ids.insert(rng.below(len(ids) + 1), name)
        r['jobs'] = ids
        return ['xrel-departure-arrival-anywhere']
    if k in (1, 2, 3):
        # `break` named m times against n optional breaks (+ required ones, which have no conditional job)
        n_opt, n_req = rng.choice([(0, 0), (0, 1), (1, 0), (2, 0), (1, 1), (2, 1)])
        if s['earliest'][1] is None:
            return ['xrel-valid']
        lo = (s['earliest'][1] - c10.BASE) // H + 1
        set_breaks(s, n_opt, n_req, lo)
        if any(b[0] in ('roff', 'ooff') for b in s['breaks']):
            s['latest'] = s['earliest']
        m = rng.choice([1, 1, 2, 3])
        ids = list(base)
        for _ in range(m):
            ids.insert(rng.below(len(ids) + 1), 'break')
        r['jobs'] = ids
        if n_opt == 0 and n_req == 0 and rng.chance(1, 2):
            s['breaks'] = rng.choice([None, []])
        return ['xrel-break-x%d-with-%d-optional-%d-required%s' % (m, n_opt, n_req, '-none' if s['breaks'] is None else '')]
    if k in (4, 5):
        n = rng.choice([0, 1, 2])
        s['reloads'] = [{'times': None, 'resource': None} for _ in range(n)] if (n or rng.chance(1, 2)) else None
        m = rng.choice([1, 2, 3])
        r['jobs'] = base + ['reload'] * m
        return ['xrel-reload-x%d-with-%s-reloads' % (m, 'no' if s['reloads'] is None else n)]
    if k in (6, 7):
        # `recharge` is not a reserved id: a plan job of that name is needed; read_locks treats it as special all the same
        n = rng.choice([0, 1, 2])
        if n:
            s['recharges'] = {'stations': [{'times': None} for _ in range(n)]}
        with_job = rng.chance(2, 3)
        if with_job:
            j = rng.choice(d['jobs'])
            FULL.simplify(j)
            old = j['id']
            j['id'] = 'recharge'
            base = ['recharge' if i == old else i for i in base]
        m = rng.choice([1, 2])
        ids = list(base)
        if not with_job:
            ids += ['recharge'] * m
        elif 'recharge' not in ids:
            ids += ['recharge'] * len(job_tasks([x for x in d['jobs'] if x['id'] == 'recharge'][0]))
        r['jobs'] = ids
        return ['xrel-recharge-%s-job-%d-stations' % ('with' if with_job else 'without', n)]
    if k == 8:
        # a duplicated plan id: the relation resolves to the LAST job of that id
        j0 = copy.deepcopy([j for j in d['jobs'] if j['id'] == base[0]][0])
        t = job_tasks(j0)[0]
        t['places'] = t['places'][:1] + [copy.deepcopy(t['places'][0])]
        if rng.chance(1, 2):
            d['jobs'].insert(0, j0)               # multi-place twin first: not the one that counts
            return ['xrel-duplicate-plan-id-multi-place-first']
        d['jobs'].append(j0)
        return ['xrel-duplicate-plan-id-multi-place-last']
    if k == 9:
        # a duplicated vehicle id: the relation resolves to the LAST vehicle type with that id
        v2 = c10.mk_vehicle(rng, 7, d['ndim'], d['profiles'], d['resources'] or [])
        v2['vehicle_ids'] = [r['vehicle_id']]
        v2['shifts'] = v2['shifts'][:1]
        v2['shifts'][0]['end'] = None if rng.chance(1, 2) else v2['shifts'][0]['end']
        d['vehicles'].append(v2) if rng.chance(2, 3) else d['vehicles'].insert(0, v2)
        r['shift_index'] = rng.choice([None, 0, 1])
        r['jobs'] = base + (['arrival'] if rng.chance(1, 2) else [])
        return ['xrel-duplicate-vehicle-id']
    if k == 10:
        # three relations: vehicle A, vehicle B, vehicle A again with the same job
        ids = [i for vv in d['vehicles'] for i in vv['vehicle_ids']]
        others = [i for i in ids if i != r['vehicle_id']]
        r['jobs'] = list(base)
        r['shift_index'] = None
        r2, r3 = copy.deepcopy(r), copy.deepcopy(r)
        pattern = rng.choice(['ABA', 'AAB', 'AAA', 'ABB'])
        if others:
            for rel, ch in zip((r, r2, r3), pattern):
                rel['vehicle_id'] = r['vehicle_id'] if ch == 'A' else others[0]
        d['relations'] = [r, r2, r3]
        return ['xrel-three-relations-%s' % (pattern if others else 'AAA')]
    if k == 11:
        v['shifts'] = []
        r['shift_index'] = rng.choice([None, 0])
        r['jobs'] = list(base)
        return ['xrel-vehicle-without-shifts']
    if k == 12:
        # a plan job with a reserved id (E1104) named by a relation: E1207 counts it, E1200 / E1202 / E1203 / E1204 do not
        j = [x for x in d['jobs'] if x['id'] == base[0]][0]
        name = rng.choice(['break', 'reload', 'arrival', 'departure'])
        j['id'] = name
        if rng.chance(1, 2):                      # a multi-place job behind a reserved id: E1203 does not look at it (R13)
            t = job_tasks(j)[0]
            t['places'] = t['places'][:1] + [copy.deepcopy(t['places'][0])]
        extra = rng.choice([0, 1])
        r['jobs'] = [name] * (len(job_tasks(j)) + extra)
        others = [x for x in d['jobs'] if x is not j and FULL.simple_job(x)]
        if others and rng.chance(1, 2):
            o = others[0]
            r['jobs'] += [o['id']] * len(job_tasks(o))
        return ['xrel-plan-job-with-reserved-id-%s' % name]
    if k == 13:
        r['type'] = 'strict'
        r['jobs'] = rng.choice([['departure'], ['departure', 'arrival'], ['departure'] + base, base + base])
        return ['xrel-strict-variants']
    if k == 14:
        r['jobs'] = base + [rng.choice(['Break', 'RELOAD', 'arrival ', 'nojob', ''])]
        return ['xrel-near-reserved-or-unknown-id']
    r['shift_index'] = rng.choice([len(v['shifts']), len(v['shifts']) + 3, 0])
    r['vehicle_id'] = rng.choice([r['vehicle_id'], 'nov', v['type_id']])
    return ['xrel-shift-and-vehicle-variants']


# ------------------------------------------------------------------ generation: objectives
def mo(objs, strategy=None):
    return {'type': 'multi-objective', 'strategy': strategy or {'name': 'sum'}, 'objectives': objs}


def O(t, **kw):
    return dict({'type': t}, **kw)


def gen_objectives_x(rng, d):
    base = [O('minimize-unassigned'), O('minimize-tours'), O('minimize-cost')]
    k = rng.below(18)
    if k == 0:
        n = rng.choice([1, 2, 3])
        d['objectives'] = [O('minimize-unassigned'), mo([O('minimize-cost'), O('balance-distance')], {'name': 'weighted-sum', 'weights': [1] * n})]
        return ['xobj-weighted-sum-%d-weights-for-2' % n]
    if k == 1:
        inner = rng.choice([mo([O('minimize-tours')]), mo([]), mo([O('minimize-cost'), O('minimize-cost')])])
        d['objectives'] = [O('minimize-unassigned'), mo([O('minimize-cost'), inner])]
        return ['xobj-nested-multi']
    if k == 2:
        d['objectives'] = [O('minimize-unassigned'), mo([O('minimize-cost'), mo([O('minimize-tours')]), mo([O('maximize-tours')])])]
        return ['xobj-two-nested-multis-in-one']
    if k == 3:
        d['objectives'] = [O('minimize-unassigned'), O('minimize-cost'), mo([])]
        return ['xobj-empty-multi']
    if k == 4:
        members = rng.shuffle(list(PLAIN_ONLY))[:rng.range(1, 3)]
        d['objectives'] = [O('minimize-cost'), mo([O(t) for t in members])]
        return ['xobj-multi-of-objective-only-members']
    if k == 5:
        d['objectives'] = [O('minimize-cost'), mo([O('minimize-tours'), O(rng.choice(['balance-activities', 'fast-service', 'tour-order']))])]
        if d['objectives'][1]['objectives'][1]['type'] == 'tour-order':
            job_tasks(d['jobs'][0])[0]['order'] = 1
        return ['xobj-multi-with-one-stateful-member']
    if k in (6, 7):
        with_break = rng.chance(1, 2)
        d['objectives'] = [mo([O('minimize-cost'), O('minimize-tours')])] + ([mo([O('minimize-unassigned'), O('balance-duration')])] if rng.chance(1, 2) else [])
        v = d['vehicles'][0]
        for vv in d['vehicles']:
            for s in vv['shifts']:
                s['breaks'] = None
        if with_break:
            s = v['shifts'][0]
            lo = (s['earliest'][1] - c10.BASE) // H + 1
            if rng.chance(1, 2):
                s['breaks'] = [['otw', [T(lo), T(lo + 1)]]]
            else:
                s['breaks'] = [['rexact', T(lo), T(lo), 600]]
        return ['xobj-only-multi-objectives-%s-break' % ('with' if with_break else 'without')]
    if k == 8:
        rad = rng.choice([0, 1, 3])
        where = rng.chance(1, 2)
        ct = O('compact-tour', job_radius=rad)
        d['objectives'] = base + [ct] if where else base[:2] + [mo([O('minimize-cost'), ct])]
        return ['xobj-compact-tour-radius-%d-%s' % (rad, 'top' if where else 'inner')]
    if k == 9:
        d['objectives'] = [O('minimize-unassigned'), mo([O('minimize-cost'), O('minimize-tours')]), mo([O('balance-distance'), O(rng.choice(['minimize-tours', 'maximize-tours']))])]
        return ['xobj-two-multis']
    if k == 10:
        # value objective inside a multi-objective: E1607 does not see it (R16), E1603 neither
        val = rng.choice([None, 2, 0.5])
        d['jobs'][0]['value'] = val
        d['objectives'] = [mo([O('maximize-value'), O('minimize-unassigned')]), O('minimize-cost')]
        return ['xobj-value-objective-inside-multi-value-%s' % val]
    if k == 11:
        o = rng.choice([None, 1, 0])
        job_tasks(d['jobs'][0])[0]['order'] = o
        d['objectives'] = [O('minimize-unassigned'), mo([O('tour-order'), O('minimize-cost')])]
        return ['xobj-order-objective-inside-multi-order-%s' % o]
    if k == 12:
        d['objectives'] = [O('minimize-unassigned'), mo([O('minimize-cost'), O(rng.choice(['minimize-distance', 'minimize-duration']))])]
        return ['xobj-two-costs-inside-multi']
    if k == 13:
        d['jobs'][-1]['value'] = rng.choice([0.5, 0.999, 1, 1.001, 0.001, -0.5])
        d['objectives'] = rng.choice([None, base, [O('maximize-value')] + base])
        return ['xobj-fractional-value-%s-%s' % (d['jobs'][-1]['value'], 'none' if d['objectives'] is None else len(d['objectives']))]
    if k == 14:
        ts = job_tasks(d['jobs'][-1])
        ts[-1]['order'] = rng.choice([1, 0, -1, 2])
        if len(ts) > 1:
            ts[0]['order'] = rng.choice([None, 1, 0])
        d['objectives'] = rng.choice([None, base, base[:2] + [O('tour-order'), base[2]]])
        return ['xobj-orders-%s' % ('none' if d['objectives'] is None else len(d['objectives']))]
    if k == 15:
        d['objectives'] = [O(t) for t in rng.shuffle(['minimize-cost', 'minimize-unassigned', 'minimize-arrival-time', 'balance-max-load',
                                                       'balance-activities', 'fast-service', 'maximize-tours', 'balance-duration'])[:rng.range(1, 5)]]
        return ['xobj-random-plain-list']
    if k == 16:
        d['objectives'] = [O('minimize-unassigned', breaks=2.0), O('minimize-cost'), mo([O('minimize-tours'), O('minimize-unassigned')])]
        return ['xobj-duplicate-across-levels']
    return FULL.gen_objectives(rng, d)


# ------------------------------------------------------------------ generation: routing / matrices
def gen_routing_x(rng, d):
    n = count_locations(d)
    k = rng.below(22)
    if k == 0:
        d['loc_mode'] = rng.choice(['coord', 'index'])
        d['matrices'] = plain_matrices(d, n, named=False)
        return ['xrt-unnamed-matrices-%s' % d['loc_mode']]
    if k == 1:
        d['profiles'] = ['car', 'truck']
        d['matrices'] = plain_matrices(d, n)
        d['matrices'][rng.below(2)]['profile'] = None
        return ['xrt-mixed-named-unnamed']
    if k == 2:
        d['matrices'] = plain_matrices(d, n)
        d['matrices'][0]['profile'] = rng.choice(['bike', 'Car', ''])
        return ['xrt-unknown-matrix-profile']
    if k == 3:
        d['profiles'] = ['car', 'truck']
        d['matrices'] = plain_matrices(d, n)
        how = rng.below(4)
        if how == 0:
            d['matrices'][1]['profile'] = 'car'
        elif how == 1:
            d['matrices'] = d['matrices'][:1]
        elif how == 2:
            d['matrices'].append(copy.deepcopy(d['matrices'][0]))
        else:
            d['matrices'].reverse()
        return ['xrt-two-profiles-%s' % ['same-name-twice', 'one-matrix', 'three-matrices', 'reversed'][how]]
    if k == 4:
        d['loc_mode'] = rng.choice(['coord', 'index'])
        d['matrices'] = []
        return ['xrt-empty-matrix-list-%s' % d['loc_mode']]
    if k in (5, 6):
        # timestamps: none / all valid / one unparsable / some missing; one or two matrices per profile
        d['loc_mode'] = rng.choice(['coord', 'index'])
        per = rng.choice([1, 2, 2, 3])
        good = ['2020-07-04T00:00:00Z', '2020-07-04T06:00:00Z', '2020-07-04T12:00:00+02:00']
        ms = []
        for p in distinct_profiles(d):
            for q in range(per):
                m = plain_matrices(d, n)[0]
                m['profile'] = p
                m['timestamp'] = stamp(good[q])
                ms.append(m)
        how = rng.below(5)
        if how == 1:
            ms[rng.below(len(ms))]['timestamp'] = stamp(rng.choice(['nope', '', '2020-07-04', '1593820800', '2020-13-40T00:00:00Z', '2020-07-04T24:00:00Z', '2020-07-04T00:00:00']))
        elif how == 2:
            ms[rng.below(len(ms))]['timestamp'] = None
        elif how == 3:
            for m in ms:
                m['profile'] = None
        elif how == 4 and per > 1:
            ms[1]['timestamp'] = ms[0]['timestamp']
        d['matrices'] = ms
        return ['xrt-timestamps-%d-per-profile-%s' % (per, ['all-valid', 'one-unparsable', 'one-missing', 'unnamed', 'equal'][how])]
    if k == 7:
        d['loc_mode'] = rng.choice(['coord', 'index'])
        d['matrices'] = plain_matrices(d, n)
        m = d['matrices'][-1]
        how = rng.below(5)
        if how == 0:
            m['travelTimes'] = m['travelTimes'][:-1]
        elif how == 1:
            m['distances'] = m['distances'] + [1]
            m['travelTimes'] = m['travelTimes'] + [1]
        elif how == 2:
            m['distances'] = [1] * ((n + 1) * (n + 1))
            m['travelTimes'] = [1] * ((n + 1) * (n + 1))
        elif how == 3:
            m['distances'] = [-1] * (n * n)
            m['travelTimes'] = [-5] * (n * n)
        else:
            m['travelTimes'] = []
            m['distances'] = []
        return ['xrt-last-matrix-%s' % ['travel-times-short', 'one-cell-more', 'bigger', 'negative-values', 'empty'][how]]
    if k == 8:
        # a matrix whose length is not a square: the rounded square root may still fit (E1504 silent, E0002)
        d['loc_mode'] = rng.choice(['coord', 'index'])
        extra = rng.choice([1, -1, 2])
        d['matrices'] = plain_matrices(d, n)
        for m in d['matrices']:
            m['distances'] = [1] * max(n * n + extra, 0)
            m['travelTimes'] = [1] * max(n * n + extra, 0)
        return ['xrt-non-square-length-%+d' % extra]
    if k == 9:
        d['loc_mode'] = 'index-reversed'
        d['matrices'] = plain_matrices(d, n)
        return ['xrt-indices-in-reverse-order']
    if k == 10:
        d['loc_mode'] = 'coord-shared'
        fit = rng.chance(1, 2)
        d['matrices'] = plain_matrices(d, n - 1 if fit else n) if rng.chance(2, 3) else None
        return ['xrt-shared-coordinate-%s' % ('none' if d['matrices'] is None else 'fits' if fit else 'off')]
    if k == 11:
        # mixed locations where a coordinate takes the slot of an index location in the reverse index
        d['loc_mode'] = 'mixed-collide'
        d['collide'] = rng.choice([1, n - 1, n, n + 2]) if n > 1 else 1
        size = rng.choice([n, n, n + 1, d['collide'] + 1])
        d['matrices'] = plain_matrices(d, max(size, 1)) if rng.chance(3, 4) else None
        return ['xrt-mixed-colliding-index-%s' % ('no-matrix' if d['matrices'] is None else 'matrix')]
    if k == 12:
        d['matrices'] = None
        d['speeds'] = [rng.choice([None, 1, 5, 0, -1]) for _ in d['profiles']]
        d['loc_mode'] = rng.choice(['coord', 'coord', 'index', 'mixed'])
        return ['xrt-no-matrix-speeds-%s' % d['loc_mode']]
    if k == 13:
        d['matrices'] = plain_matrices(d, n)
        d['speeds'] = [rng.choice([0, -1]) for _ in d['profiles']]
        return ['xrt-matrix-and-non-positive-speeds']
    if k == 14:
        # errorCodes of every shape on one matrix (create_transport_costs)
        d['loc_mode'] = rng.choice(['coord', 'index'])
        d['matrices'] = plain_matrices(d, n)
        lab, ec, lt, ld = rng.choice(FULL.ec_variants(rng, n * n))
        m = d['matrices'][rng.below(len(d['matrices']))]
        m['travelTimes'], m['distances'], m['errorCodes'] = [1] * lt, [1] * ld, ec
        return ['xrt-' + lab]
    if k == 15:
        d['matrices'] = plain_matrices(d, n)
        d['clustering'] = rng.choice(['car', 'bike', d['profiles'][-1]])
        return ['xrt-clustering-profile-%s' % ('known' if d['clustering'] in d['profiles'] else 'unknown')]
    if k == 16:
        d['clustering'] = rng.choice(['car', 'bike'])
        if rng.chance(1, 3):
            d['profiles'] = []
        return ['xrt-clustering-no-matrix']
    if k == 17:
        d['profiles'] = d['profiles'] + [d['profiles'][0]]
        d['matrices'] = plain_matrices(d, n) if rng.chance(1, 2) else None
        return ['xrt-duplicate-profile-%s' % ('matrix' if d['matrices'] else 'approx')]
    labs = FULL.gen_routing(rng, d)
    for m in d.get('matrices') or []:
        m.setdefault('errorCodes', None)
        m['timestamp'] = stamp(m['timestamp']) if isinstance(m.get('timestamp'), str) else m.get('timestamp')
    return labs


# ------------------------------------------------------------------ generation: recharges, required breaks, resources, limits
def gen_misc_x(rng, d):
    v = rng.choice(d['vehicles'])
    s = rng.choice(v['shifts'])
    lo = (s['earliest'][1] - c10.BASE) // H
    k = rng.below(12)
    if k in (0, 1, 2):
        lab, tws = rng.choice(c10.window_variants(rng) + [('tw-none', None), ('tw-valid', [[T(lo + 1), T(lo + 2)]])])
        st = [{'times': tws}]
        if rng.chance(1, 3):
            st.insert(rng.below(2), {'times': None})
        s['recharges'] = {'stations': st}
        if rng.chance(1, 6):
            v['vehicle_ids'] = []
            if all(not x['vehicle_ids'] for x in d['vehicles']):
                v['vehicle_ids'] = ['vx']
        return ['xmisc-recharge-station-' + lab]
    if k in (3, 4, 5):
        how = rng.below(6)
        if how == 0:
            s['breaks'] = [['rexact', T(lo + 1), T(lo + 2), 600], ['roff', 4 * H, 5 * H, 600]]
        elif how == 1:
            s['breaks'] = [['roff', 1 * H, 2 * H, 600], ['otw', [T(lo + 5), T(lo + 6)]], ['rexact', T(lo + 8), T(lo + 9), 0]]
        elif how == 2:
            # E1303 adds the duration to the end; with a negative duration the spans intersect although the windows do not
            s['breaks'] = [['rexact', T(lo + 1), T(lo + 4), -2 * H], ['rexact', T(lo + 3), T(lo + 5), 0]]
        elif how == 3:
            s['breaks'] = [['rexact', T(lo + 1), T(lo + 2), 600], ['rexact', T(lo + 3), T(lo + 4), 600]]
        elif how == 4:
            s['breaks'] = [['roff', 1 * H, 2 * H, 600], ['roff', 3 * H, 4 * H, 0]]
        else:
            s['breaks'] = [['rexact', T(lo + 3), T(lo + 4), 600], ['rexact', T(lo + 1), T(lo + 2), 600], ['otw', [T(lo + 6), T(lo + 7)]]]
        if any(b[0] in ('roff', 'ooff') for b in s['breaks']):
            s['latest'] = s['earliest']
        return ['xmisc-required-breaks-%s' % ['exact-and-offset', 'offset-optional-exact', 'negative-duration-spans-intersect',
                                              'two-exact', 'two-offset', 'exact-unsorted'][how]]
    if k in (6, 7):
        dims = rng.choice([1, 2, 8, 9, 12])
        d['resources'] = ['res1'] if rng.chance(2, 3) else ['res1', 'res2']
        d['resource_dims'] = [dims] + [max(1, d['ndim'])] * (len(d['resources']) - 1)
        ref = rng.chance(3, 4)
        s['reloads'] = [{'times': None, 'resource': 'res1' if ref else None}]
        return ['xmisc-resource-capacity-%d-dims-%s' % (dims, 'referenced' if ref else 'unreferenced')]
    if k == 8:
        v['limits'] = {'tourSize': rng.choice([None, 0, 1, 5]), 'maxDistance': rng.choice([None, 0, -5, 1000]),
                       'maxDuration': rng.choice([None, 0, -1, 3600])}
        return ['xmisc-limits']
    if k == 9:
        s['recharges'] = {'stations': []}
        return ['xmisc-recharges-without-stations']
    if k == 10:
        s['recharges'] = {'stations': [{'times': [[T(lo + 1), T(lo + 2)]]}, {'times': [[T(lo + 1), T(lo + 3)]]}]}
        s['reloads'] = [{'times': None, 'resource': None}]
        return ['xmisc-recharges-and-reload']
    d['jobs'][0]['value'] = rng.choice([1, 2])
    job_tasks(d['jobs'][-1])[0]['order'] = rng.choice([1, 3])
    return ['xmisc-value-and-order-no-objectives']


AREAS = [(35, gen_relations_x), (25, gen_objectives_x), (25, gen_routing_x), (15, gen_misc_x)]


def pick_area(rng):
    r = rng.below(100)
    for w, f in AREAS:
        if r < w:
            return f
        r -= w
    return AREAS[0][1]


def gen_case(rng):
    for _ in range(60):
        d = base_doc(rng)
        labels = []
        try:
            f = pick_area(rng)
            if f is gen_relations_x and rng.chance(1, 4):
                labels += FULL.gen_relations(rng, d)
            else:
                labels += f(rng, d)
            if rng.chance(1, 4):
                g = pick_area(rng)
                if g is not f and not (g is gen_relations_x and d.get('relations') is not None):
                    labels += g(rng, d)
        except (IndexError, KeyError, TypeError, ValueError):
            continue
        for m in d.get('matrices') or []:
            m.setdefault('errorCodes', None)
            m.setdefault('profile', None)
            if isinstance(m.get('timestamp'), str):
                m['timestamp'] = stamp(m['timestamp'])
            m.setdefault('timestamp', None)
        case = finish(d, labels)
        if len(py_xknown(d)) <= 1:
            return case
    d = base_doc(rng)
    return finish(d, ['xbase'])


def generate(rng, tier, n):
    return [gen_case(rng) for _ in range(n)]


# ------------------------------------------------------------------ verdicts
def outcome(r):
    return c10.outcome(r)


def compare(c, impl, model):
    if 'panic' in impl:
        return 'harness panicked outside catch_unwind: %s' % impl['panic']
    vk, vcs, rk, rcs, mspec, mknown, mtf = model
    d = c['doc']
    if outcome(impl['validate']) != c10.model_outcome((vk, vcs)):
        return 'validate: impl %s %s, Model/ValidationX.v %s' % (outcome(impl['validate']), impl['validate'].get('msg', ''), c10.model_outcome((vk, vcs)))
    if outcome(impl['read']) != c10.model_outcome((rk, rcs)):
        return 'read: impl %s %s, Model/Reader.v %s' % (outcome(impl['read']), impl['read'].get('causes', impl['read'].get('msg', '')),
                                                      c10.model_outcome((rk, rcs)))
    if sorted(reference(d)) != sorted(mspec):
        return 'documented rules: python reference %s, Spec/RulesX.v %s' % (sorted(reference(d)), sorted(mspec))
    if py_xknown(d) != sorted(mknown):
        return 'known classes: python copy %s, Spec/RulesX.v %s' % (py_xknown(d), sorted(mknown))
    if py_transport_fails(d) != (mtf == 'true'):
        return 'create_transport_costs: python copy fails=%s, Model/Reader.v xtransport_fails=%s' % (py_transport_fails(d), mtf)
    return None


# how each recorded class deviates: a class only explains a deviation of ITS kind (a G1 document that panics is something else)
DEVIATION = {6: 'panic', 7: 'panic', 9: 'panic', 11: 'panic', 14: 'panic', 16: 'panic', 8: ('extra', [1102]), 21: ('codes', [0]), 22: ('codes', [2])}


def _class(known, fallback, observed=None, expected=None):
    """class of a deviation: the recorded class of the document when the deviation is of the recorded kind, else the structural fallback"""
    fit = []
    for k in known:
        dev = DEVIATION.get(k)
        if dev == 'panic':
            ok = observed == 'panic'
        elif dev and dev[0] == 'extra':
            ok = isinstance(observed, list) and expected is not None and sorted(set(expected) | set(dev[1])) == observed
        elif dev and dev[0] == 'codes':
            ok = observed == dev[1] and expected == []
        else:
            ok = False
        if ok:
            fit.append(k)
    if fit:
        return '+'.join(XKNAMES[k] for k in fit)
    if known:
        return fallback + ':in-known-class-%s-but-not-its-deviation' % '-'.join(str(k) for k in known)
    return fallback


def oracle(c, impl):
    """independent of the Coq side: harness health and the two entry points (typed / text) agree"""
    if 'panic' in impl:
        return [{'class': 'harness-crash', 'what': impl['panic']}]
    out = []
    if impl['read']['k'] == 'deser':
        out.append({'class': 'generator-produced-undeserialisable-document:' + '/'.join(c.get('labels', [])), 'what': str(impl['text'])[:300]})
    elif outcome(impl['read']) != outcome(impl['text']):
        out.append({'class': 'typed-and-text-entry-points-differ', 'what': 'typed %s, text %s' % (outcome(impl['read']), outcome(impl['text']))})
    return out


def oracle_model(c, impl, model):
    """the property with the Coq specification: the documented rules the input breaks (run_xspec), the recorded deviation classes
    (run_xknown); E0002 is expected exactly when no rule is broken and the matrix data cannot become transport costs"""
    if 'panic' in impl or impl['read']['k'] == 'deser':
        return []
    vk, vcs, rk, rcs, mspec, mknown, mtf = model
    spec, known = sorted(mspec), sorted(mknown)
    d = c['doc']
    lab = '/'.join(c.get('labels', []))
    rd = impl['read']
    out = []
    if rd['k'] == 'panic':
        out.append({'class': _class(known, 'read-panics-unexplained:' + lab, observed='panic'),
                    'what': 'read_pragmatic panicked (%s); documented rules broken by the input: %s' % (rd['msg'][:200], spec)})
        return out
    got = c10.codes_of(rd) if rd['k'] == 'err' else []
    if spec:
        expected = spec
    elif py_transport_fails(d):
        expected = [2]
    else:
        expected = []
    if got != expected:
        missing = [x for x in expected if x not in got]
        extra = [x for x in got if x not in expected]
        out.append({'class': _class(known, 'codes-differ-from-documented-rules:missing=%s:extra=%s' % (missing, extra), observed=got, expected=expected),
                    'what': 'reported %s, expected %s (documented rules broken: %s; %s) %s' % (got, expected, spec, lab, str(rd.get('causes', ''))[:200])})
    v = impl['validate']
    if v['k'] == 'panic' and rd['k'] != 'panic':
        out.append({'class': 'validate-panics-but-read-does-not', 'what': v['msg']})
    return out


def nontrivial_key(c, impl):
    if 'panic' in impl:
        return None
    return ('x', outcome(impl['read']), tuple(c.get('labels', [])))


def classify(c, impl):
    labs = ['op=x']
    if 'panic' in impl:
        return labs
    o = outcome(impl['read'])
    labs.append('read=' + o[0])
    if o[0] == 'err':
        labs += ['code=E%04d' % x for x in o[1]]
    for l in c.get('labels', []):
        labs.append('dev=' + re.sub(r'-?\d+(\.\d+)?', '#', l))
    for k in py_xknown(c['doc']):
        labs.append('known=%d' % k)
    return labs
