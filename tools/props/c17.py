"""C17 — LKH re-sequencing, DBSCAN and k-medoids keep their contracts (plugin for tools/verif.py)."""
import os, re, json, subprocess, itertools
from concurrent.futures import ThreadPoolExecutor
import coqterm

ID = 'C17'
HARNESS = 'c17'
COQ_IMPORTS = 'From VRP Require Import Base.Tac Model.Dbscan Model.Lkh Model.KMedoids.'
MODEL_TARGETS = ['theories/Model/Dbscan.vo', 'theories/Model/Lkh.vo', 'theories/Model/KMedoids.vo']
EXTRA_COQ_TARGETS = list(MODEL_TARGETS)
SIZES = {'quick': 1500, 'thorough': 12000, 'search': 6000}
RULE = ('cases: (dbscan) 1-14 points on small integer grids (duplicates, collinear points), eps^2 thresholds on integer squared '
        'distances, min_points 0-5, neighbour lists in index/shuffled order, with/without the point itself, plus abstract '
        'non-symmetric neighbourhood tables with repeated entries; point lists permuted / subsets / repeated. '
        '(lkh) symmetric integer cost matrices on 0-10 nodes: Sidon-valued (all edge-cost differences distinct, no hash-order '
        'ties), small-valued (many ties), metric (line / grid) ; start paths = permutations starting at node 0 (the internal '
        'caller\'s shape) and arbitrary ones; neighbour lists complete-sorted-by-cost (as lkh_search builds them), truncated, '
        'shuffled; separate malformed stream (asymmetric matrices, repeated nodes, foreign nodes). (k-medoids) 1-12 points, integer '
        'distance matrices (grid squared distances with ties / tie-free Sidon values), k 1-4, hierarchical tiers 0-4; '
        'malformed stream with repeated points and k above the number of distinct points. '
        'non-trivial = distinct inputs whose output differs from the trivial one (a cluster was grown / the tour changed / '
        'more than one medoid).')
TRUSTED = ['f64 arithmetic on integer-valued costs/distances below 2^53 is exact; sum/len averages in k-medoids order like the sums (validated each run)',
           'HashMap/HashSet iteration order is modelled as an oracle; exact output comparison only on runs where the model saw no order-dependent tie',
           'rayon chunking of fold_reduce is an oracle argument of the model; the harness pins it with a 1-thread pool (two halves) for exact comparison and also runs the default pool for the contract oracle']
ASSUMPTIONS = ['LKH cost and termination clauses (C17_lkh_cost, C17_lkh_terminates): symmetric cost matrix (the property quantifies over '
               'symmetric matrices only), duplicate-free input path, hash order returns entries of the map',
               'LKH cost / termination are proved over exact integer costs (Z), not over f64 rounding: with non-representable costs or '
               'sums above 2^53 a positive computed gain need not be a real decrease']

# ------------------------------------------------------------------ rendering helpers
def nl(xs):
    return '[' + '; '.join('%d' % x for x in xs) + ']%nat'


def nll(xss):
    return '[' + '; '.join('[' + '; '.join('%d' % x for x in xs) + ']' for xs in xss) + ']%nat'


def zll(xss):
    return '[' + '; '.join(coqterm.zlist(xs) for xs in xss) + ']'


# ------------------------------------------------------------------ generators
def gen_dbscan(rng):
    if rng.chance(7, 10):
        n = rng.range(1, 14)
        g = rng.range(2, 7)
        if rng.chance(1, 5):   # collinear
            coords = [(rng.below(g * 2), 0) for _ in range(n)]
        else:
            coords = [(rng.below(g), rng.below(g)) for _ in range(n)]
        eps2 = rng.choice([0, 1, 1, 2, 2, 4, 5, 8, 9, 10, 16])
        self_in = not rng.chance(1, 10)
        nbr = []
        for i in range(n):
            row = [j for j in range(n) if (coords[i][0] - coords[j][0]) ** 2 + (coords[i][1] - coords[j][1]) ** 2 <= eps2
                   and (self_in or j != i)]
            if rng.chance(1, 3):
                row = rng.shuffle(row)
            nbr.append(row)
        kind = 'geometric'
    else:
        n = rng.range(1, 10)
        rows = n if rng.chance(3, 4) else rng.below(n + 1)
        nbr = []
        for i in range(rows):
            row = [rng.below(n) for _ in range(rng.below(min(n, 5) + 2))]
            if rng.chance(1, 2):
                row = [i] + row
            nbr.append(row)
        kind = 'abstract'
    minp = rng.choice([0, 1, 2, 2, 3, 3, 4, 5])
    pts = list(range(n))
    r = rng.below(10)
    if r < 5:
        pts = rng.shuffle(pts)
    elif r < 7:
        pts = rng.shuffle(pts)[:rng.range(0, n)]
    elif r < 8:
        pts = pts + [rng.below(n) for _ in range(rng.below(4))]
    return {'op': 'dbscan', 'n': n, 'pts': pts, 'minp': minp, 'nbr': nbr, 'kind': kind}


def _sidon(count):
    """Mian-Chowla style greedy Sidon set containing 0: all pairwise differences of distinct elements are distinct"""
    out, diffs, x = [0], set(), 0
    while len(out) < count:
        x += 1
        nd = set(x - y for y in out)
        if nd & diffs:
            continue
        diffs |= nd
        out.append(x)
    return out


SIDON = _sidon(80)


def sym_matrix(rng, n, kind):
    """symmetric integer matrix with zero diagonal"""
    m = [[0] * n for _ in range(n)]
    pairs = [(i, j) for i in range(n) for j in range(i + 1, n)]
    if kind == 'sidon':
        vals = rng.shuffle(SIDON[1:len(pairs) + 1 + rng.below(8)])
        for (i, j), v in zip(pairs, vals):
            m[i][j] = m[j][i] = v
    elif kind == 'small':
        hi = rng.choice([1, 2, 3, 6])
        for i, j in pairs:
            m[i][j] = m[j][i] = rng.range(0 if rng.chance(1, 4) else 1, hi)
    elif kind == 'medium':
        for i, j in pairs:
            m[i][j] = m[j][i] = rng.range(1, 1000)
    else:  # metric: grid points, squared euclid or manhattan
        g = rng.range(2, 9)
        pts = [(rng.below(g), rng.below(g)) for _ in range(n)]
        if rng.chance(1, 4):
            pts = [(x, 0) for x, _ in pts]
        man = rng.chance(1, 2)
        for i, j in pairs:
            dx, dy = abs(pts[i][0] - pts[j][0]), abs(pts[i][1] - pts[j][1])
            m[i][j] = m[j][i] = dx + dy if man else dx * dx + dy * dy
    return m


def gen_lkh(rng):
    dim = rng.choice([0, 1, 2, 3, 4, 5, 5, 6, 6, 7, 7, 8, 8, 9, 10])
    kind = rng.choice(['sidon', 'sidon', 'sidon', 'medium', 'medium', 'metric', 'metric', 'small'])
    cost = sym_matrix(rng, dim, kind)
    nodes = list(range(dim))
    r = rng.below(100)
    shape = 'start0'
    timeout = 4000
    if r < 60 or dim < 2:
        path = nodes[:1] + rng.shuffle(nodes[1:])
        if rng.chance(1, 4) and dim > 3:
            # nearly sorted tours: one or two local defects (2-opt / or-opt shaped)
            path = list(nodes)
            for _ in range(rng.range(1, 2)):
                i, j = sorted([rng.range(1, dim - 1), rng.range(1, dim - 1)])
                path[i:j + 1] = reversed(path[i:j + 1])
    elif r < 78:
        path = rng.shuffle(nodes)
        shape = 'start0' if path[0] == 0 else 'start-other'
    elif r < 90:
        k = rng.range(1, dim)
        path = rng.shuffle(nodes)[:k]
        if rng.chance(1, 2) and 0 in path:
            path.remove(0)
            path = [0] + path
        shape = 'subtour-start0' if path and path[0] == 0 else ('subtour-with0' if 0 in path else 'subtour-without0')
    elif r < 96:
        path = nodes[:1] + rng.shuffle(nodes[1:])
        path[rng.below(len(path))] = rng.below(dim)
        path.insert(rng.below(len(path) + 1), rng.below(dim))
        shape = 'malformed-repeated'
    else:
        path = nodes[:1] + rng.shuffle(nodes[1:])
        for _ in range(rng.range(1, 4)):
            i, j = rng.below(dim), rng.below(dim)
            cost[i][j] += rng.range(1, 50)
        shape = 'malformed-asymmetric'
        timeout = 700
    nk = rng.below(100)
    nbr = []
    for i in range(dim):
        row = sorted([j for j in range(dim) if j != i], key=lambda j: (cost[i][j], j))
        if nk < 50:
            pass
        elif nk < 75:
            row = row[:rng.range(1, 5)]
        elif nk < 90:
            row = rng.shuffle(row)
        else:
            row = [rng.below(dim) for _ in range(rng.below(dim + 2))]
        nbr.append(row)
    return {'op': 'lkh', 'path': path, 'cost': cost, 'nbr': nbr, 'kind': kind, 'shape': shape, 'timeout_ms': timeout}


def gen_kmedoids(rng):
    dim = rng.range(1, 12)
    kind = rng.choice(['sidon', 'sidon', 'metric', 'metric', 'medium', 'small'])
    dist = sym_matrix(rng, dim, kind)
    pts = rng.shuffle(list(range(dim)))
    if rng.chance(1, 4):
        pts = pts[:rng.range(1, dim)]
    shape = 'distinct'
    hier = rng.chance(2, 5)
    r = rng.below(100)
    if r < 6:
        pts = []
        shape = 'empty'
    elif r < 14:
        pts = pts + [rng.choice(pts) for _ in range(rng.range(1, 3))]
        pts = rng.shuffle(pts)
        shape = 'repeated-points'
    if hier:
        return {'op': 'hkmedoids', 'pts': pts, 'tiers': rng.choice([0, 1, 2, 2, 3, 3, 4]), 'dist': dist, 'kind': kind,
                'shape': shape, 'threads': 1}
    k = rng.choice([0, 1, 2, 2, 2, 3, 3, 4])
    if k > len(set(pts)) and not rng.chance(1, 6):
        k = rng.range(min(1, len(set(pts))), len(set(pts)))
    if rng.chance(1, 15):
        k = len(set(pts)) + rng.range(0, 2)
    return {'op': 'kmedoids', 'pts': pts, 'k': k, 'dist': dist, 'kind': kind, 'shape': shape,
            'threads': 1 if rng.chance(3, 4) else 0}


def generate(rng, tier, n):
    cases = []
    for _ in range(n):
        r = rng.below(100)
        if r < 30:
            cases.append(gen_dbscan(rng))
        elif r < 70:
            cases.append(gen_lkh(rng))
        else:
            cases.append(gen_kmedoids(rng))
    return cases


def corpus():
    return [
        {'op': 'dbscan', 'n': 6, 'pts': [0, 1, 2, 3, 4, 5], 'minp': 2, 'nbr': [[0, 1], [0, 1, 2], [1, 2], [3], [4, 5], [4, 5]], 'kind': 'abstract'},
        # a noise point later absorbed as a border point; a border point claimed by the first cluster that reaches it
        {'op': 'dbscan', 'n': 5, 'pts': [0, 1, 2, 3, 4], 'minp': 3, 'nbr': [[0, 1], [0, 1, 2], [1, 2, 3], [2, 3, 4], [3, 4]], 'kind': 'abstract'},
        {'op': 'dbscan', 'n': 3, 'pts': [2, 1, 0], 'minp': 0, 'nbr': [], 'kind': 'abstract'},
    ]


# ------------------------------------------------------------------ model terms
def model_term(c):
    op = c['op']
    if op == 'dbscan':
        return 'run_dbscan %s %d%%nat %s' % (nll(c['nbr']), c['minp'], nl(c['pts']))
    if op == 'lkh':
        return 'run_lkh %s %s %s' % (zll(c['cost']), nll(c['nbr']), nl(c['path']))
    if op == 'kmedoids':
        if c.get('threads', 1) != 1:
            return None        # default pool: chunking not pinned, contract oracle only
        return 'run_kmedoids %s %s %d%%nat' % (zll(c['dist']), nl(c['pts']), c['k'])
    if op == 'hkmedoids':
        return 'run_hkmedoids %s %s %d%%nat' % (zll(c['dist']), nl(c['pts']), c['tiers'])
    return None


def unopt(m):
    """('Some', x) -> x ; 'None' -> None"""
    if isinstance(m, tuple) and m and m[0] == 'Some':
        return m[1]
    return None


def compare(c, impl, model):
    op = c['op']
    if op == 'dbscan':
        if 'panic' in impl:
            return 'implementation panicked: %s' % impl['panic']
        m = unopt(model)
        if m is None:
            return 'model ran out of fuel (%r)' % (model,)
        if impl['clusters'] != m:
            return 'clusters: impl %s model %s' % (impl['clusters'], m)
        return None
    if op == 'lkh':
        if 'panic' in impl:
            return 'implementation panicked: %s' % impl['panic']
        code, path = model
        if impl.get('skipped'):
            return None
        if impl.get('timeout'):
            if not is_symmetric(c['cost']):
                return None      # asymmetric matrix: both sides keep "improving" for ever (outside the property's domain)
            return 'implementation did not finish in time; model: %r' % (model,)
        if code == 2:
            _EXTRA['lkh_runs_with_hash_order_tie_not_compared'] = _EXTRA.get('lkh_runs_with_hash_order_tie_not_compared', 0) + 1
            return None
        if code != 0:
            return 'model ran out of fuel (code %d)' % code
        if impl['paths'] != [path]:
            return 'paths: impl %s model %s' % (impl['paths'], [path])
        return None
    if op == 'kmedoids':
        if 'panic' in impl:
            return 'implementation panicked: %s' % impl['panic']
        tie, m = model
        if tie == 'true':
            _EXTRA['kmedoids_runs_with_assignment_tie_not_compared'] = _EXTRA.get('kmedoids_runs_with_assignment_tie_not_compared', 0) + 1
            return None
        mm = [[k, list(v)] for k, v in m]
        if impl['clusters'] != mm:
            return 'clusters: impl %s model %s' % (impl['clusters'], mm)
        return None
    if op == 'hkmedoids':
        m = unopt(model)
        if 'panic' in impl:
            return None if m is None else 'implementation panicked (%s), model returned tiers' % impl['panic']
        if m is None:
            return 'model panics (expect "should be set"), implementation returned %s' % impl
        if c['kind'] == 'sidon' and c['shape'] in ('distinct', 'empty'):
            mm = [[[k, list(v)] for k, v in t] for t in m]
            if impl['tiers'] != mm:
                return 'tiers: impl %s model %s' % (impl['tiers'], mm)
        return None
    return None


# ------------------------------------------------------------------ oracle: the contract on the implementation's output
def dbscan_oracle(c, impl):
    v = []
    if 'panic' in impl:
        return [{'class': 'dbscan-panic', 'what': 'create_clusters panicked: ' + impl['panic']}]
    nbr, minp = c['nbr'], c['minp']

    def N(p):
        return nbr[p] if p < len(nbr) else []

    def core(p):
        return len(N(p)) >= minp
    cs = impl['clusters']
    flat = [p for cl in cs for p in cl]
    if len(flat) != len(set(flat)):
        v.append({'class': 'dbscan-overlap', 'what': 'a point occurs in two clusters (or twice in one): %s' % cs})
    for cl in cs:
        if not cl:
            v.append({'class': 'dbscan-empty-cluster', 'what': 'empty cluster'})
            continue
        seeds = [p for p in cl if core(p)]
        # grown from a core point: some core point of the cluster reaches every member
        ok = False
        for s in seeds:
            reach, todo = {s}, [s]
            while todo:
                x = todo.pop()
                if core(x):
                    for y in N(x):
                        if y not in reach:
                            reach.add(y)
                            todo.append(y)
            if all(p in reach for p in cl):
                ok = True
                break
        if not seeds:
            v.append({'class': 'dbscan-seed-not-core', 'what': 'cluster %s contains no core point' % cl})
        elif not ok:
            v.append({'class': 'dbscan-unreachable-member', 'what': 'cluster %s has a member not density-reachable from its core points' % cl})
    inc = set(flat)
    for p in c['pts']:
        if core(p) and p not in inc:
            v.append({'class': 'dbscan-core-unclustered', 'what': 'core point %d is in no cluster' % p})
            break
    return v


def cyc_cost(cost, p):
    return sum(cost[p[i]][p[(i + 1) % len(p)]] for i in range(len(p))) if p else 0


def is_symmetric(m):
    return all(m[i][j] == m[j][i] for i in range(len(m)) for j in range(len(m)))


def lkh_oracle(c, impl):
    if impl.get('skipped'):
        return []       # the harness stops running the search after several timeouts (it cannot kill the threads)
    if 'panic' in impl:
        return [{'class': 'lkh-panic', 'what': 'lkh_optimize panicked: ' + impl['panic']}]
    if impl.get('timeout') and not is_symmetric(c['cost']):
        return []       # the property quantifies over symmetric matrices only
    if impl.get('timeout'):
        return [{'class': 'lkh-no-termination', 'what': 'lkh_optimize did not return within the time limit'}]
    inp = c['path']
    v = []
    if len(set(inp)) != len(inp):
        return v        # repeated nodes: not a tour; only termination / no panic is required
    if not impl['paths']:
        v.append({'class': 'lkh-no-path-returned', 'what': 'empty result vector'})
    for out in impl['paths']:
        if sorted(out) != sorted(inp):
            v.append({'class': 'lkh-not-permutation', 'what': 'output %s is not a permutation of %s' % (out, inp)})
            continue
        if inp and out[0] != inp[0]:
            if inp[0] != 0 and out[0] == 0:
                cls = 'lkh-start-moved-to-node-0:input-path-not-starting-at-node-0'
            else:
                cls = 'lkh-start-changed'
            v.append({'class': cls, 'what': 'input starts at node %d, output %s starts at node %d' % (inp[0], out, out[0])})
        if is_symmetric(c['cost']) and cyc_cost(c['cost'], out) > cyc_cost(c['cost'], inp):
            v.append({'class': 'lkh-cost-increased', 'what': 'closed-tour cost %d > input cost %d' % (
                cyc_cost(c['cost'], out), cyc_cost(c['cost'], inp))})
    return v


def km_partition_class(c):
    if len(set(c['pts'])) < (c['k'] if c['op'] == 'kmedoids' else 2) or len(set(c['pts'])) != len(c['pts']) and c['op'] == 'hkmedoids':
        return 'kmedoids-k-exceeds-distinct-points'
    return 'kmedoids-not-partition'


def km_check(c, clusters, nearest=True):
    """clusters: [[medoid, [points]], ...]"""
    v = []
    d = c['dist']
    allp = sorted(p for _, ps in clusters for p in ps)
    if allp != sorted(c['pts']):
        v.append({'class': km_partition_class(c), 'what': 'clusters %s are not a partition of %s' % (clusters, c['pts'])})
    if nearest:
        for m, ps in clusters:
            for p_ in ps:
                for m2, _ in clusters:
                    if d[p_][m2] < d[p_][m]:
                        v.append({'class': 'kmedoids-closer-to-other-medoid',
                                  'what': 'point %d is in the cluster of medoid %d (d=%d) but medoid %d is closer (d=%d)' % (
                                      p_, m, d[p_][m], m2, d[p_][m2])})
                        return v
    return v


def kmedoids_oracle(c, impl):
    if 'panic' in impl:
        if c['op'] == 'hkmedoids' and len(c['pts']) == 1 and c['tiers'] >= 1 and 'should be set' in impl['panic']:
            return [{'class': 'hkmedoids-single-point-panic', 'what': 'create_hierarchical_kmedoids panics on a single point: ' + impl['panic']}]
        return [{'class': 'kmedoids-panic', 'what': '%s panicked: %s' % (c['op'], impl['panic'])}]
    if c['op'] == 'kmedoids':
        return km_check(c, impl['clusters'])
    v = []
    for i, t in enumerate(impl['tiers']):
        v += km_check(c, t, nearest=(i == 0))
    return v


_SEEN = []   # (case, impl) pairs of this run, for the Coq-side checkers in extra_checks


def oracle(c, impl):
    if not re.match(r'^s\d+$', str(c.get('id', ''))):      # shrink candidates are not part of the campaign
        _SEEN.append((c, impl))
    op = c['op']
    if op == 'dbscan':
        return dbscan_oracle(c, impl)
    if op == 'lkh':
        return lkh_oracle(c, impl)
    return kmedoids_oracle(c, impl)


def nontrivial_key(c, impl):
    if 'panic' in impl:
        return None
    if c['op'] == 'dbscan':
        if any(len(cl) > 1 for cl in impl['clusters']):
            return ('dbscan', json.dumps([c['nbr'], c['minp'], c['pts']]))
        return None
    if c['op'] == 'lkh':
        if impl.get('paths') and impl['paths'] != [c['path']]:
            return ('lkh', json.dumps([c['path'], c['cost'], c['nbr']]))
        return None
    if c['op'] == 'kmedoids':
        return ('km', json.dumps([c['pts'], c['k'], c['dist']])) if len(impl['clusters']) > 1 else None
    if c['op'] == 'hkmedoids':
        return ('hkm', json.dumps([c['pts'], c['tiers'], c['dist']])) if impl['tiers'] else None
    return None


def classify(c, impl):
    labs = ['op=' + c['op']]
    if c['op'] == 'dbscan':
        labs.append('dbscan:' + c.get('kind', '?'))
        if 'panic' not in impl:
            k = len(impl['clusters'])
            labs.append('dbscan-clusters=%s' % (k if k < 3 else '3+'))
    if c['op'] == 'lkh':
        labs.append('lkh-cost:' + c['kind'])
        labs.append('lkh-path:' + c['shape'])
        if 'panic' not in impl and impl.get('paths'):
            labs.append('lkh-improved=%s' % (impl['paths'] != [c['path']]))
    if c['op'] in ('kmedoids', 'hkmedoids'):
        labs.append('km-dist:' + c['kind'])
        labs.append('km-points:' + c['shape'])
        if c['op'] == 'kmedoids':
            labs.append('km-pool=%s' % ('1-thread' if c.get('threads', 1) == 1 else 'default'))
    return labs


# ------------------------------------------------------------------ Coq-side checkers on the implementation's outputs
def checker_term(c, impl):
    """Gallina term evaluating the verified boolean contract checker on the implementation's output; None to skip"""
    if 'panic' in impl:
        return None
    if c['op'] == 'dbscan':
        return 'check_dbscan %s %d%%nat %s %s' % (nll(c['nbr']), c['minp'], nl(c['pts']), nll(impl['clusters']))
    if c['op'] == 'lkh':
        if impl.get('timeout') or impl.get('skipped') or len(impl['paths']) != 1 or len(set(c['path'])) != len(c['path']) or not is_symmetric(c['cost']):
            return None
        return 'check_lkh %s %s %s' % (zll(c['cost']), nl(c['path']), nl(impl['paths'][0]))
    if c['op'] == 'kmedoids':
        return 'check_kmedoids %s %s %s' % (zll(c['dist']), nl(c['pts']), cmap_term(impl['clusters']))
    if c['op'] == 'hkmedoids' and impl['tiers']:
        return 'check_kmedoids %s %s %s' % (zll(c['dist']), nl(c['pts']), cmap_term(impl['tiers'][0]))
    return None


def cmap_term(clusters):
    return '[' + '; '.join('(%d, [%s])' % (m, '; '.join('%d' % p for p in ps)) for m, ps in clusters) + ']%nat'


def checker_failure_class(c, impl, value):
    """map the checker's value to a violation class (None = passed)"""
    if c['op'] == 'dbscan':
        return None if value == 'true' else 'dbscan-coq-checker'
    if c['op'] == 'lkh':
        out = []
        for code in value:
            if code == 1:
                out.append('lkh-not-permutation')
            elif code == 2:
                inp, o = c['path'], impl['paths'][0]
                out.append('lkh-start-moved-to-node-0:input-path-not-starting-at-node-0' if inp and o and inp[0] != 0 and o[0] == 0 else 'lkh-start-changed')
            else:
                out.append('lkh-cost-increased')
        return out or None
    if c['op'] in ('kmedoids', 'hkmedoids'):
        out = []
        for code in value:
            out.append(km_partition_class(c) if code == 1 else 'kmedoids-closer-to-other-medoid')
        return out or None
    return None


def extra_checks(ctx):
    items = []
    for c, impl in _SEEN:
        t = checker_term(c, impl)
        if t is not None:
            items.append((c, impl, t))
    del _SEEN[:]
    if not items:
        return
    wd = ctx['wd']
    coq = os.environ.get('VERIF_COQ', os.path.join(os.path.dirname(os.path.dirname(os.path.dirname(os.path.abspath(__file__)))), 'coq'))
    shard = 300
    shards = [items[k:k + shard] for k in range(0, len(items), shard)]

    def one(k):
        f = os.path.join(wd, 'checker_%d.v' % k)
        with open(f, 'w') as fh:
            fh.write(COQ_IMPORTS + '\nSet Printing Width 1000000.\nSet Printing Depth 1000000.\n')
            for _, _, t in shards[k]:
                fh.write('Eval vm_compute in (%s).\n' % t)
        p = subprocess.run(['timeout', '600', 'coqc', '-noglob', '-Q', os.path.join(coq, 'theories'), 'VRP', '-w', '-all', f],
                           cwd=wd, stdout=subprocess.PIPE, stderr=subprocess.STDOUT, text=True)
        if p.returncode != 0:
            raise RuntimeError('coq checker evaluation failed: ' + p.stdout[-1500:])
        vals = coqterm.parse_eval_output(p.stdout)
        if len(vals) != len(shards[k]):
            raise RuntimeError('coq checker evaluation: expected %d values got %d' % (len(shards[k]), len(vals)))
        return vals

    with ThreadPoolExecutor(max_workers=8) as ex:
        allvals = list(ex.map(one, range(len(shards))))
    n = 0
    for sh, vals in zip(shards, allvals):
        for (c, impl, _), val in zip(sh, vals):
            n += 1
            cls = checker_failure_class(c, impl, val)
            if cls is None:
                continue
            classes = cls if isinstance(cls, list) else [cls]
            for cl in classes:
                fid = None
                for e in ctx['known']:
                    if e.get('kind') == 'finding' and e.get('property') == ID and e.get('class') == cl:
                        fid = e['id']
                if fid:
                    ctx['verdict'].known_hits[fid] = ctx['verdict'].known_hits.get(fid, 0) + 1
                else:
                    rp = ctx['write_replay'](ID, {'property': ID, 'kind': 'oracle-violation',
                                                  'what': {'class': cl, 'what': 'verified Coq contract checker rejects the implementation output: %r' % (val,)},
                                                  'case': c, 'impl': impl, 'seed': ctx['stats']['seed']})
                    ctx['verdict'].violation(rp)
    ctx['stats']['coq_checked_outputs'] = n
    _EXTRA['implementation_outputs_checked_by_verified_coq_checker'] = n


_EXTRA = {}


def extra_coverage():
    return dict(_EXTRA)


def shrink_candidates(c):
    if c['op'] == 'dbscan':
        pts = c['pts']
        for i in range(len(pts)):
            d = dict(c)
            d['pts'] = pts[:i] + pts[i + 1:]
            yield d
        for i in range(len(c['nbr'])):
            for j in range(len(c['nbr'][i])):
                d = dict(c)
                d['nbr'] = [list(r) for r in c['nbr']]
                del d['nbr'][i][j]
                yield d


MANIFEST_TEXT = ('Machine-checked proof (Coq, no axioms) over executable models of dbscan::create_clusters, lkh (Tour, KOpt) and '
                 'k-medoids (create_kmedoids / create_hierarchical_kmedoids); models tied to /repo on every run by vm_compute '
                 'evaluation on the same generated inputs as the real public functions, and verified boolean contract checkers '
                 'evaluated on the implementation outputs.')
MANIFEST_NOTE = 'see notes/C17.md'
MANIFEST_TECHNIQUE = 'Coq proof over executable model + vm_compute differential correspondence with the Rust implementation'
