"""C17 — LKH re-sequencing, DBSCAN and k-medoids keep their contracts (plugin for tools/verif.py)."""
import os, re, json, subprocess, itertools
from fractions import Fraction
from concurrent.futures import ThreadPoolExecutor
import coqterm
from props.c17_lkhf import lkh_repaired

ID = 'C17'
HARNESS = 'c17'
SUBSTREAMS = ['c17_lkhf']
COQ_IMPORTS = ('From Coq Require Import QArith.\nFrom VRP Require Import Base.Tac Model.Dbscan Model.Lkh Model.LkhG Model.KMedoids Model.ClusterWrappers.\n'
               'Local Open Scope Z_scope.')
MODEL_TARGETS = ['theories/Model/Dbscan.vo', 'theories/Model/Lkh.vo', 'theories/Model/LkhG.vo', 'theories/Model/KMedoids.vo', 'theories/Model/ClusterWrappers.vo']
MODEL_NEEDS_IMPL = True     # the job-cluster model is evaluated on the neighbourhoods the public Jobs::neighbors API reported
EXTRA_COQ_TARGETS = list(MODEL_TARGETS)
SIZES = {'quick': 1500, 'thorough': 12000, 'search': 6000}
RULE = ('cases: (dbscan) 1-14 points on small integer grids (duplicates, collinear points), eps^2 thresholds on integer squared '
        'distances, min_points 0-5, neighbour lists in index/shuffled order, with/without the point itself, plus abstract '
        'non-symmetric neighbourhood tables with repeated entries; point lists permuted / subsets / repeated. '
        '(lkh) symmetric integer cost matrices on 0-10 nodes: Sidon-valued (all edge-cost differences distinct, no hash-order '
        'ties), small-valued (many ties), metric (line / grid) ; start paths = permutations starting at node 0 (the internal '
        'caller\'s shape) and arbitrary ones; neighbour lists complete-sorted-by-cost (as lkh_search builds them), truncated, '
        'shuffled; separate malformed stream (asymmetric matrices, repeated nodes, foreign nodes). (k-medoids) 1-12 points, integer '
        'distance matrices (grid squared distances with ties / tie-free Sidon values), k 1-4, hierarchical tiers 0-4; '
        'malformed stream with repeated points and k above the number of distinct points; 45% of the k-medoids cases use ASYMMETRIC '
        'distance matrices (all entries distinct = tie-free, random, metric base with one-way detours, one-way ring road), for '
        'create_kmedoids and create_hierarchical_kmedoids alike. (job clusters) a real Problem of 1-17 jobs (single jobs, jobs with '
        'alternative places, multi jobs, jobs without any location) over integer matrices per profile (1-2 profiles, 1-2 vehicles '
        'per profile, optional one-way detours): two dense groups joined by one shared border job where one group\'s core has '
        'exactly min_points neighbours (a legitimate cluster of <= min_points members), evenly spaced chains (cores with exactly '
        'min_points neighbours), blobs with repeated coordinates, random grids; min_points None/0-5/7, epsilon given (cost values, '
        'cost+1/2) or estimated (only where every divisor of the estimate is a power of two), job slice permuted / subset / '
        'repeated; the public create_job_clusters AND Jobs::clusters() (what the cluster-removal ruin reads) are both read. '
        '(multi tier) create_multi_tier_clusters on 0-18 locations, 1-2 profiles, asymmetric matrices. '
        '(analyze) pragmatic documents shaped like examples/data/pragmatic/simple.basic.problem.json (1-9 jobs at geo coordinates, '
        'distances approximated from them: floats) and that file itself, through vrp-cli get_dbscan_clusters (min_points 3/None/2/4, '
        'epsilon estimated or given) and get_k_medoids_clusters; no model for this stream: watchdog + contract oracle with float '
        'comparisons only. Every clustering call of every stream runs under a 20 s watchdog thread in the harness. '
        'non-trivial = distinct inputs whose output differs from the trivial one (a cluster was grown / the tour changed / '
        'more than one medoid).')
TRUSTED = ['f64 arithmetic on integer-valued costs/distances below 2^53 is exact; sum/len averages in k-medoids order like the sums (validated each run)',
           'HashMap/HashSet iteration order is modelled as an oracle; exact output comparison only on runs where the model saw no order-dependent tie',
           'rayon chunking of fold_reduce is an oracle argument of the model; the harness pins it with a 1-thread pool (two halves) for exact comparison and also runs the default pool for the contract oracle',
           'analyze stream: the oracle mirrors estimate_epsilon operation by operation in IEEE doubles (Python floats) and otherwise only compares floats',
           'job clusters: the neighbourhood rows are those the public Jobs::neighbors API reports (the job index itself is an input, not modelled); index costs are integers below 2^24 (exact in f32); the estimated epsilon is modelled over exact rationals, the generators only ask for it where all divisors (taken neighbours + 1, number of profiles) are powers of two, and Point::distance_to_line divides all cross products by the same positive length so `>` orders like the exact absolute cross products']
ASSUMPTIONS = ['LKH cost and termination clauses over exact costs (C17_lkh_cost, C17_lkh_terminates, C17_lkh_repaired_cost): symmetric cost matrix '
               '(the property quantifies over symmetric matrices only), duplicate-free input path, hash order returns entries of the map',
               'LKH over f64 costs that are not integers: termination of the code as it is is REFUTED (C17_lkh_float_termination_refuted, finding '
               'C17-F4); permutation / start / termination of one improve call hold for every cost arithmetic '
               '(C17_lkh_permutation_any_arithmetic, C17_lkh_improve_terminates_any_arithmetic); the proposed repair terminates for every cost '
               'arithmetic (C17_lkh_repaired_terminates); the cost clause over f64 is only validated (exact comparison of sums of square roots / '
               'decimal fractions in the oracle of sub-stream c17_lkhf), not proved']

# ------------------------------------------------------------------ rendering helpers
def nl(xs):
    return '[' + '; '.join('%d' % x for x in xs) + ']%nat'


def nll(xss):
    return '[' + '; '.join('[' + '; '.join('%d' % x for x in xs) + ']' for xs in xss) + ']%nat'


def zll(xss):
    return '[' + '; '.join(coqterm.zlist(xs) for xs in xss) + ']'


# ------------------------------------------------------------------ generators
def gen_dbscan(rng):
    if rng.chance(7, 10):
        n = rng.range(1, 14)
        g = rng.range(2, 7)
        if rng.chance(1, 5):   # collinear
            coords = [(rng.below(g * 2), 0) for _ in range(n)]
        else:
            coords = [(rng.below(g), rng.below(g)) for _ in range(n)]
        eps2 = rng.choice([0, 1, 1, 2, 2, 4, 5, 8, 9, 10, 16])
        self_in = not rng.chance(1, 10)
        nbr = []
        for i in range(n):
            row = [j for j in range(n) if (coords[i][0] - coords[j][0]) ** 2 + (coords[i][1] - coords[j][1]) ** 2 <= eps2
                   and (self_in or j != i)]
            if rng.chance(1, 3):
                row = rng.shuffle(row)
            nbr.append(row)
        kind = 'geometric'
    else:
        n = rng.range(1, 10)
        rows = n if rng.chance(3, 4) else rng.below(n + 1)
        nbr = []
        for i in range(rows):
            row = [rng.below(n) for _ in range(rng.below(min(n, 5) + 2))]
            if rng.chance(1, 2):
                row = [i] + row
            nbr.append(row)
        kind = 'abstract'
    minp = rng.choice([0, 1, 2, 2, 3, 3, 4, 5])
    pts = list(range(n))
    r = rng.below(10)
    if r < 5:
        pts = rng.shuffle(pts)
    elif r < 7:
        pts = rng.shuffle(pts)[:rng.range(0, n)]
    elif r < 8:
        pts = pts + [rng.below(n) for _ in range(rng.below(4))]
    return {'op': 'dbscan', 'n': n, 'pts': pts, 'minp': minp, 'nbr': nbr, 'kind': kind}


def _sidon(count):
    """Mian-Chowla style greedy Sidon set containing 0: all pairwise differences of distinct elements are distinct"""
    out, diffs, x = [0], set(), 0
    while len(out) < count:
        x += 1
        nd = set(x - y for y in out)
        if nd & diffs:
            continue
        diffs |= nd
        out.append(x)
    return out


SIDON = _sidon(80)


def sym_matrix(rng, n, kind):
    """symmetric integer matrix with zero diagonal"""
    m = [[0] * n for _ in range(n)]
    pairs = [(i, j) for i in range(n) for j in range(i + 1, n)]
    if kind == 'sidon':
        vals = rng.shuffle(SIDON[1:len(pairs) + 1 + rng.below(8)])
        for (i, j), v in zip(pairs, vals):
            m[i][j] = m[j][i] = v
    elif kind == 'small':
        hi = rng.choice([1, 2, 3, 6])
        for i, j in pairs:
            m[i][j] = m[j][i] = rng.range(0 if rng.chance(1, 4) else 1, hi)
    elif kind == 'medium':
        for i, j in pairs:
            m[i][j] = m[j][i] = rng.range(1, 1000)
    else:  # metric: grid points, squared euclid or manhattan
        g = rng.range(2, 9)
        pts = [(rng.below(g), rng.below(g)) for _ in range(n)]
        if rng.chance(1, 4):
            pts = [(x, 0) for x, _ in pts]
        man = rng.chance(1, 2)
        for i, j in pairs:
            dx, dy = abs(pts[i][0] - pts[j][0]), abs(pts[i][1] - pts[j][1])
            m[i][j] = m[j][i] = dx + dy if man else dx * dx + dy * dy
    return m


def gen_lkh(rng):
    dim = rng.choice([0, 1, 2, 3, 4, 5, 5, 6, 6, 7, 7, 8, 8, 9, 10])
    kind = rng.choice(['sidon', 'sidon', 'sidon', 'medium', 'medium', 'metric', 'metric', 'small'])
    cost = sym_matrix(rng, dim, kind)
    nodes = list(range(dim))
    r = rng.below(100)
    shape = 'start0'
    timeout = 4000
    if r < 60 or dim < 2:
        path = nodes[:1] + rng.shuffle(nodes[1:])
        if rng.chance(1, 4) and dim > 3:
            # nearly sorted tours: one or two local defects (2-opt / or-opt shaped)
            path = list(nodes)
            for _ in range(rng.range(1, 2)):
                i, j = sorted([rng.range(1, dim - 1), rng.range(1, dim - 1)])
                path[i:j + 1] = reversed(path[i:j + 1])
    elif r < 78:
        path = rng.shuffle(nodes)
        shape = 'start0' if path[0] == 0 else 'start-other'
    elif r < 90:
        k = rng.range(1, dim)
        path = rng.shuffle(nodes)[:k]
        if rng.chance(1, 2) and 0 in path:
            path.remove(0)
            path = [0] + path
        shape = 'subtour-start0' if path and path[0] == 0 else ('subtour-with0' if 0 in path else 'subtour-without0')
    elif r < 96:
        path = nodes[:1] + rng.shuffle(nodes[1:])
        path[rng.below(len(path))] = rng.below(dim)
        path.insert(rng.below(len(path) + 1), rng.below(dim))
        shape = 'malformed-repeated'
    else:
        path = nodes[:1] + rng.shuffle(nodes[1:])
        for _ in range(rng.range(1, 4)):
            i, j = rng.below(dim), rng.below(dim)
            cost[i][j] += rng.range(1, 50)
        shape = 'malformed-asymmetric'
        timeout = 700
    nk = rng.below(100)
    nbr = []
    for i in range(dim):
        row = sorted([j for j in range(dim) if j != i], key=lambda j: (cost[i][j], j))
        if nk < 50:
            pass
        elif nk < 75:
            row = row[:rng.range(1, 5)]
        elif nk < 90:
            row = rng.shuffle(row)
        else:
            row = [rng.below(dim) for _ in range(rng.below(dim + 2))]
        nbr.append(row)
    return {'op': 'lkh', 'path': path, 'cost': cost, 'nbr': nbr, 'kind': kind, 'shape': shape, 'timeout_ms': timeout}


def asym_matrix(rng, n, kind):
    """integer matrix with zero diagonal whose two directions differ (distance_fn(a, b) = m[a][b])"""
    if kind == 'asym-distinct':
        # tie-free: all off-diagonal entries pairwise distinct
        vals = rng.shuffle(list(range(1, n * n + 8)))
        m = [[0] * n for _ in range(n)]
        k = 0
        for i in range(n):
            for j in range(n):
                if i != j:
                    m[i][j] = vals[k]
                    k += 1
        return m
    if kind == 'asym-random':
        hi = rng.choice([3, 9, 60, 1000])
        return [[0 if i == j else rng.range(1, hi) for j in range(n)] for i in range(n)]
    if kind == 'asym-oneway':
        # a metric base with one-way detours: some directed legs cost a multiple of the way back
        m = sym_matrix(rng, n, 'metric')
        for i in range(n):
            for j in range(n):
                if i != j and rng.chance(1, 3):
                    m[i][j] = m[i][j] * rng.range(2, 5) + rng.range(0, 7)
        return m
    # 'asym-ring': one-way ring road, going backwards means going all the way round
    step = [rng.range(1, 9) for _ in range(n)]
    total = sum(step)
    m = [[0] * n for _ in range(n)]
    for i in range(n):
        acc = 0
        for t in range(1, n):
            acc += step[(i + t - 1) % n]
            m[i][(i + t) % n] = acc
    perm = rng.shuffle(list(range(n)))
    return [[m[perm[i]][perm[j]] for j in range(n)] for i in range(n)]


ASYM_KINDS = ['asym-distinct', 'asym-distinct', 'asym-random', 'asym-oneway', 'asym-oneway', 'asym-ring']
TIE_FREE_KINDS = ('sidon', 'asym-distinct')


def km_matrix(rng, dim, kind):
    return asym_matrix(rng, dim, kind) if kind.startswith('asym') else sym_matrix(rng, dim, kind)


def gen_kmedoids(rng):
    dim = rng.range(1, 12)
    if rng.chance(9, 20):
        kind = rng.choice(ASYM_KINDS)
    else:
        kind = rng.choice(['sidon', 'sidon', 'metric', 'metric', 'medium', 'small'])
    dist = km_matrix(rng, dim, kind)
    pts = rng.shuffle(list(range(dim)))
    if rng.chance(1, 4):
        pts = pts[:rng.range(1, dim)]
    shape = 'distinct'
    hier = rng.chance(2, 5)
    r = rng.below(100)
    if r < 6:
        pts = []
        shape = 'empty'
    elif r < 14:
        pts = pts + [rng.choice(pts) for _ in range(rng.range(1, 3))]
        pts = rng.shuffle(pts)
        shape = 'repeated-points'
    if hier:
        return {'op': 'hkmedoids', 'pts': pts, 'tiers': rng.choice([0, 1, 2, 2, 3, 3, 4]), 'dist': dist, 'kind': kind,
                'shape': shape, 'threads': 1}
    k = rng.choice([0, 1, 2, 2, 2, 3, 3, 4])
    if k > len(set(pts)) and not rng.chance(1, 6):
        k = rng.range(min(1, len(set(pts))), len(set(pts)))
    if rng.chance(1, 15):
        k = len(set(pts)) + rng.range(0, 2)
    return {'op': 'kmedoids', 'pts': pts, 'k': k, 'dist': dist, 'kind': kind, 'shape': shape,
            'threads': 1 if rng.chance(3, 4) else 0}


def gen_multitier(rng):
    """create_multi_tier_clusters(profile, transport): k-medoids of all matrix locations for every k <= size/3 of a fixed list"""
    size = rng.choice([0, 1, 3, 5, 6, 6, 7, 8, 9, 9, 10, 11, 12, 12, 13, 15, 16, 18])
    nprof = rng.choice([1, 1, 2])
    kinds = [rng.choice(ASYM_KINDS + ['sidon', 'metric']) for _ in range(nprof)]
    dist = [km_matrix(rng, size, k) for k in kinds]
    profile = rng.below(nprof)
    return {'op': 'multitier', 'size': size, 'dist': dist, 'profile': profile, 'kind': kinds[profile]}


def _jc_layout(rng):
    """positions (one per location) and the distance matrix of a job-cluster case;
    returns (shape, matrix, hint) with hint = None | (min_points, epsilon in distance units as [num, den]) fitting the layout"""
    r = rng.below(100)
    hint = None
    if r < 34:
        # two dense groups A and B joined by ONE shared border job (the shape of seeded/C17-5): the last job of A and the first
        # job of B are cores with the border job in reach, the border job itself has only these two neighbours; B's core has
        # EXACTLY min_points neighbours, so the group visited second keeps <= min_points members
        mp = rng.choice([3, 3, 3, 4, 5])
        g = rng.range(mp - 1, mp + 1)
        a = rng.range(mp, mp + 2)
        xs = list(range(a))
        bx = a - 1 + g
        xs.append(bx)
        xs += [bx + g + t for t in range(mp)]
        if rng.chance(1, 2):
            xs.append(xs[-1] + rng.range(g + 2, 30))          # an outlier
        if rng.chance(1, 4):
            xs.append(bx + g + mp + g)                        # a second border job behind B (claimed by B only)
        coords = [(v, 0) for v in xs]
        if rng.chance(1, 3):
            coords = [(0, v) for v in xs]
        man = True
        hint = (rng.choice([mp, mp, mp, None]) if mp == 3 else mp, [2 * g + 1, 2])
        shape = 'shared-border'
    elif r < 48:
        # evenly spaced chain: interior jobs have exactly 2h neighbours within epsilon (sparse cores with exactly min_points)
        n = rng.range(4, 11)
        st = rng.range(1, 3)
        h = rng.choice([1, 1, 2])
        coords = [(i * st, 0) for i in range(n)]
        if rng.chance(1, 3):
            cut = rng.range(2, n - 1)
            coords = [(i * st, 0) for i in range(cut)] + [(1000 + i * st, 0) for i in range(n - cut)]
        man = True
        hint = (rng.choice([2 * h, 2 * h, 2 * h + 1, max(2 * h - 1, 0)]), [2 * st * h + 1, 2])
        shape = 'sparse-chain'
    elif r < 62:
        # dense blobs (repeated coordinates) with stragglers
        n = rng.range(4, 12)
        centres = [(rng.below(12), rng.below(12)) for _ in range(rng.range(1, 3))]
        coords = []
        for _ in range(n):
            cx, cy = rng.choice(centres)
            coords.append((cx + rng.below(3), cy + rng.below(2)))
        man = rng.chance(1, 2)
        shape = 'blobs'
    else:
        n = rng.range(1, 12)
        g = rng.range(2, 8)
        coords = [(rng.below(g), rng.below(g)) for _ in range(n)]
        man = rng.chance(1, 2)
        shape = 'grid'
    n = len(coords)
    m = [[(abs(p[0] - q[0]) + abs(p[1] - q[1])) if man else (p[0] - q[0]) ** 2 + (p[1] - q[1]) ** 2 for q in coords] for p in coords]
    if rng.chance(1, 5):
        # one-way detours: the neighbourhoods become asymmetric
        for i in range(n):
            for j in range(n):
                if i != j and rng.chance(1, 4):
                    m[i][j] += rng.range(1, 6)
        shape += '+asymmetric'
    return shape, m, hint


def gen_jobclusters(rng):
    shape, m, hint = _jc_layout(rng)
    nloc = len(m)
    size = nloc + 1                                   # the last location is the depot
    far = 2000

    def widen(mat):
        out = [row + [far] for row in mat]
        out.append([far] * nloc + [0])
        return out
    nprof = 2 if rng.chance(1, 4) else 1
    dist = [widen(m)]
    if nprof == 2:
        # the second profile sees other distances: only the FIRST profile may decide the clusters
        dist.append(widen([[(v * 3 + rng.below(4)) if i != j else 0 for j, v in enumerate(row)] for i, row in enumerate(m)]))
    dur = [[[rng.below(3) if i != j else 0 for j in range(size)] for i in range(size)] if hint is None and rng.chance(1, 5)
           else [[0] * size for _ in range(size)] for _ in range(nprof)]
    jobs = []
    for l in rng.shuffle(list(range(nloc))):
        r = rng.below(100)
        if r < 80 or hint is not None and r < 96:
            jobs.append({'places': [l]})
        elif r < 88:
            jobs.append({'places': [l, rng.below(nloc)]})           # alternative places: the cost is the minimum over the pairs
        elif r < 94:
            jobs.append({'multi': [[l], [rng.below(nloc)]]})
        else:
            jobs.append({'places': [l, None]})
    for _ in range(rng.choice([0, 0, 0, 1, 1, 2])):
        # jobs without any location: cost 0 to everybody in the index, must be ignored by the clustering
        jobs.insert(rng.below(len(jobs) + 1), rng.choice([{'places': [None]}, {'multi': [[None], [None]]}]))
    vehicles = [{'profile': p, 'start': nloc, 'per_distance': rng.choice([1, 1, 1, 2]), 'per_time': rng.choice([0, 0, 1])}
                for p in range(nprof)]
    if rng.chance(1, 5):
        # two vehicles of the first profile: the index uses their AVERAGE cost rates (kept integral)
        vehicles.append(dict(vehicles[0], per_distance=vehicles[0]['per_distance'] + 2))
    if rng.chance(1, 6):
        vehicles = [dict(v, profile=v['profile'] + 1) for v in vehicles]      # first profile need not be index 0
    njobs = len(jobs)
    order = list(range(njobs))
    r = rng.below(10)
    if r < 5:
        order = rng.shuffle(order)
    elif r < 7:
        order = rng.shuffle(order)[:rng.range(0, njobs)]
    elif r < 8 and njobs:
        order = order + [rng.below(njobs) for _ in range(rng.below(3))]
    located = sum(1 for j in jobs if job_has_locations(j))
    minp = rng.choice([None, None, 0, 1, 2, 2, 3, 3, 3, 4, 5, 7])
    eff = max(3 if minp is None else minp, 2)
    rate = sum(v['per_distance'] for v in vehicles if v['profile'] == vehicles[0]['profile']) // sum(1 for v in vehicles if v['profile'] == vehicles[0]['profile'])
    allv = sorted(set(v * rate for row in m for v in row))
    if hint is not None and rng.chance(4, 5):
        minp = hint[0]
        eps = [hint[1][0] * rate, hint[1][1]]
    elif rng.chance(1, 4) and (located <= eff or (eff + 1 in (4, 8) and located >= eff + 1)):
        eps = None        # estimated; only where every divisor of the estimate is a power of two (or nothing can be a core)
    else:
        base = rng.choice(allv[:8] + [rng.range(1, 6)]) if allv else 1
        eps = rng.choice([[base, 1], [base + 1, 1], [2 * base + 1, 2], [base, 1], [2 * base + 3, 2], [0, 1], [1000, 1]])
    return {'op': 'jobclusters', 'size': size, 'dist': dist, 'dur': dur, 'jobs': jobs, 'vehicles': vehicles,
            'order': order, 'minp': minp, 'eps': eps, 'shape': shape}


def gen_analyze(rng):
    """pragmatic documents shaped like examples/data/pragmatic/simple.basic.problem.json (what the repository's
    commands::analyze tests read): few jobs with geo coordinates, distances approximated from them (floats), min_points from the
    CLI default (3) or None, epsilon estimated"""
    base = (52.5, 13.4)
    npl = rng.range(1, 8)
    spread = rng.choice([50, 400, 3000])
    places = [(round(base[0] + rng.below(spread) / 10000.0, 5), round(base[1] + rng.below(spread) / 10000.0, 5)) for _ in range(npl)]

    def loc():
        la, ln = rng.choice(places)
        return {'lat': la, 'lng': ln}

    def task(tag=None):
        pl = {'location': loc(), 'duration': float(rng.choice([60, 240, 300]))}
        if tag:
            pl['tag'] = tag
        return {'places': [pl], 'demand': [1]}
    jobs = []
    for i in range(rng.range(1, 9)):
        r = rng.below(10)
        if r < 4:
            jobs.append({'id': 'job%d' % (i + 1), 'deliveries': [task()]})
        elif r < 7:
            jobs.append({'id': 'job%d' % (i + 1), 'pickups': [task()]})
        else:
            jobs.append({'id': 'job%d' % (i + 1), 'pickups': [task('p1')], 'deliveries': [task('d1')]})
    depot = {'lat': 52.5316, 'lng': 13.3884}
    problem = {'plan': {'jobs': jobs},
               'fleet': {'vehicles': [{'typeId': 'vehicle', 'vehicleIds': ['vehicle_1'], 'profile': {'matrix': 'normal_car'},
                                       'costs': {'fixed': 22.0, 'distance': 0.0002, 'time': 0.004806},
                                       'shifts': [{'start': {'earliest': '2019-07-04T09:00:00Z', 'location': depot},
                                                   'end': {'latest': '2019-07-04T18:00:00Z', 'location': depot}}],
                                       'capacity': [10]}],
                         'profiles': [{'name': 'normal_car'}]}}
    return {'op': 'analyze', 'problem': problem, 'minp': rng.choice([3, 3, 3, None, 2, 4]), 'eps': None if rng.chance(4, 5) else rng.choice([0.5, 1.0, 2.5]),
            'k': rng.choice([2, 2, 3, 3, 4, 9]), 'shape': 'geo-simple-basic-like'}


def job_has_locations(j):
    if 'multi' in j:
        return any(l is not None for s in j['multi'] for l in s)
    return any(l is not None for l in j['places'])


def generate(rng, tier, n):
    cases = []
    for _ in range(n):
        r = rng.below(100)
        if r < 22:
            cases.append(gen_dbscan(rng))
        elif r < 37:
            cases.append(gen_jobclusters(rng))
        elif r < 70:
            cases.append(gen_lkh(rng))
        elif r < 92:
            cases.append(gen_kmedoids(rng))
        elif r < 97:
            cases.append(gen_multitier(rng))
        else:
            cases.append(gen_analyze(rng))
    return cases


def corpus():
    return [
        {'op': 'dbscan', 'n': 6, 'pts': [0, 1, 2, 3, 4, 5], 'minp': 2, 'nbr': [[0, 1], [0, 1, 2], [1, 2], [3], [4, 5], [4, 5]], 'kind': 'abstract'},
        # a noise point later absorbed as a border point; a border point claimed by the first cluster that reaches it
        {'op': 'dbscan', 'n': 5, 'pts': [0, 1, 2, 3, 4], 'minp': 3, 'nbr': [[0, 1], [0, 1, 2], [1, 2, 3], [2, 3, 4], [3, 4]], 'kind': 'abstract'},
        {'op': 'dbscan', 'n': 3, 'pts': [2, 1, 0], 'minp': 0, 'nbr': [], 'kind': 'abstract'},
    ] + _wrapper_corpus()


ONEWAY6 = [[0, 1, 2, 30, 31, 32], [9, 0, 1, 30, 31, 32], [9, 9, 0, 30, 31, 32],
           [30, 31, 32, 0, 1, 2], [30, 31, 32, 9, 0, 1], [30, 31, 32, 9, 9, 0]]


def _wrapper_corpus():
    """the instances of C17_job_clusters_nonvacuous / C17_kmedoids_directed_nonvacuous / C17_multi_tier_nonvacuous"""
    pos = [0, 1, 2, 3, 6, 9, 10, 11, 30]
    n = len(pos)
    m = [[abs(a - b) for b in pos] + [2000] for a in pos] + [[2000] * n + [0]]
    base = {'op': 'jobclusters', 'size': n + 1, 'dist': [m], 'dur': [[[0] * (n + 1) for _ in range(n + 1)]],
            'jobs': [{'places': [i]} for i in range(n)], 'vehicles': [{'profile': 0, 'start': n, 'per_distance': 1, 'per_time': 0}],
            'minp': 3, 'eps': [7, 2], 'shape': 'shared-border'}
    return [
        dict(base, order=list(range(n))),                  # the dense group claims the border job: the other cluster has 3 = min_points members
        dict(base, order=list(range(n))[::-1]),
        dict(base, order=list(range(n)), eps=None),
        {'op': 'kmedoids', 'pts': [0, 1, 2, 3, 4, 5], 'k': 2, 'dist': ONEWAY6, 'kind': 'asym-oneway', 'shape': 'distinct', 'threads': 1},
        {'op': 'hkmedoids', 'pts': [0, 1, 2, 3, 4, 5], 'tiers': 2, 'dist': ONEWAY6, 'kind': 'asym-oneway', 'shape': 'distinct', 'threads': 1},
        {'op': 'multitier', 'size': 6, 'dist': [ONEWAY6], 'profile': 0, 'kind': 'asym-oneway'},
    ] + _analyze_corpus()


def _analyze_corpus():
    """the very document the repository's commands::analyze tests read, with the arguments those tests pass (and None, None)"""
    path = os.path.join(os.environ.get('VERIF_REPO', '/repo'), 'examples/data/pragmatic/simple.basic.problem.json')
    try:
        with open(path) as fh:
            doc = json.load(fh)
    except (OSError, ValueError):
        return []
    return [{'op': 'analyze', 'problem': doc, 'minp': 3, 'eps': None, 'k': 3, 'shape': 'simple.basic.problem.json'},
            {'op': 'analyze', 'problem': doc, 'minp': None, 'eps': None, 'k': 2, 'shape': 'simple.basic.problem.json'}]


# ------------------------------------------------------------------ model terms
def opt_term(x, f):
    return 'None' if x is None else '(Some %s)' % f(x)


def rows_term(rows):
    """[profile][job] -> [(neighbour, cost), ...]"""
    return '[' + '; '.join('[' + '; '.join('[' + '; '.join('(%d%%nat, %s)' % (j, coqterm.z(cst)) for j, cst in row) + ']' for row in prow) + ']'
                           for prow in rows) + ']'


def jobs_term(jobs):
    """every job as the list of its sub-jobs' places (a single job has one sub-job)"""
    def places(ls):
        return '[' + '; '.join('None' if l is None else '(Some %d%%nat)' % l for l in ls) + ']'
    return '[' + '; '.join('[' + '; '.join(places(s) for s in (j['multi'] if 'multi' in j else [j['places']])) + ']' for j in jobs) + ']'


def model_term(c, impl=None):
    op = c['op']
    if op == 'analyze':
        return None           # float distances from coordinates: termination + contract oracle on the implementation's output only
    if op == 'jobclusters':
        if impl is None or 'panic' in impl or 'rows' not in impl:
            return None
        common = 'run_job_clusters %s %s' % (jobs_term(c['jobs']), rows_term(impl['rows']))
        eps = opt_term(c['eps'], lambda e: '(%s # %d)%%Q' % (coqterm.z(e[0]), e[1]))
        return '[%s %s %s %s; %s %s (Some 3%%nat) None]' % (
            common, nl(c['order']), opt_term(c['minp'], lambda k: '%d%%nat' % k), eps,
            common, nl(list(range(len(c['jobs'])))))
    if op == 'multitier':
        return 'run_multi_tier %s %d%%nat' % (zll(c['dist'][c['profile']]), c['size'])
    if op == 'dbscan':
        return 'run_dbscan %s %d%%nat %s' % (nll(c['nbr']), c['minp'], nl(c['pts']))
    if op == 'lkh':
        # the code as it is (KOpt::solutions = the current tour only) or the repair notes/patches/C17-lkh-termination.diff
        # (every discovered tour is kept and returned): decided by reading kopt.rs of the tree under test
        return '%s %s %s %s' % ('run_lkh_repaired' if lkh_repaired() else 'run_lkh', zll(c['cost']), nll(c['nbr']), nl(c['path']))
    if op == 'kmedoids':
        if c.get('threads', 1) != 1:
            return None        # default pool: chunking not pinned, contract oracle only
        return 'run_kmedoids %s %s %d%%nat' % (zll(c['dist']), nl(c['pts']), c['k'])
    if op == 'hkmedoids':
        return 'run_hkmedoids %s %s %d%%nat' % (zll(c['dist']), nl(c['pts']), c['tiers'])
    return None


def unopt(m):
    """('Some', x) -> x ; 'None' -> None"""
    if isinstance(m, tuple) and m and m[0] == 'Some':
        return m[1]
    return None


def as_sets(cs):
    return sorted(sorted(cl) for cl in cs)


def compare(c, impl, model):
    op = c['op']
    if op != 'lkh' and impl.get('timeout'):
        return 'implementation did not return within the watchdog limit (the model terminates)'
    if op != 'lkh' and impl.get('skipped'):
        return None
    if op == 'jobclusters':
        if 'panic' in impl:
            return 'implementation panicked: %s' % impl['panic']
        (code, meps, cs), (scode, mseps, scs) = model
        # the oracle's own (Fraction) re-computation of the estimated epsilon against the model's
        for what, me, mp_, order in (('create_job_clusters', meps, c['minp'], c['order']), ('Jobs::new', mseps, 3, list(range(len(c['jobs']))))):
            if what == 'create_job_clusters' and c['eps'] is not None:
                continue
            mine = jc_estimate_epsilon(c, impl['rows'], order, max(3 if mp_ is None else mp_, 2))
            if Fraction(me[0], me[1]) != mine:
                return '%s: estimated epsilon: model %s/%s, oracle %s' % (what, me[0], me[1], mine)
        if code == 2 or scode == 2:
            return 'model ran out of fuel'
        if impl['err'] is not None:
            return None if code == 1 else 'implementation returned Err(%s), model returned clusters' % impl['err']
        if code == 1:
            return 'model returns Err (no profile), implementation returned %s' % impl['clusters']
        # the clusters are HashSets and the property does not order them: sets of sets
        if as_sets(impl['clusters']) != as_sets(cs):
            return 'create_job_clusters: impl %s model %s' % (as_sets(impl['clusters']), as_sets(cs))
        if as_sets(impl['solver_clusters']) != as_sets(scs):
            return 'Jobs::clusters(): impl %s model %s' % (as_sets(impl['solver_clusters']), as_sets(scs))
        return None
    if op == 'multitier':
        if 'panic' in impl:
            return 'implementation panicked: %s' % impl['panic']
        if 'err' in impl:
            return 'implementation returned Err(%s)' % impl['err']
        if len(model) != len(impl['tiers']):
            return 'tiers: impl %d model %d' % (len(impl['tiers']), len(model))
        for t, (tie, m) in zip(impl['tiers'], model):
            if tie == 'true':
                _EXTRA['kmedoids_runs_with_assignment_tie_not_compared'] = _EXTRA.get('kmedoids_runs_with_assignment_tie_not_compared', 0) + 1
                continue
            mm = [[k, list(v)] for k, v in m]
            if t != mm:
                return 'tier: impl %s model %s' % (t, mm)
        return None
    if op == 'dbscan':
        if 'panic' in impl:
            return 'implementation panicked: %s' % impl['panic']
        m = unopt(model)
        if m is None:
            return 'model ran out of fuel (%r)' % (model,)
        if impl['clusters'] != m:
            return 'clusters: impl %s model %s' % (impl['clusters'], m)
        return None
    if op == 'lkh':
        if 'panic' in impl:
            return 'implementation panicked: %s' % impl['panic']
        code, path = model
        if impl.get('skipped'):
            return None
        if impl.get('timeout'):
            if not is_symmetric(c['cost']):
                return None      # asymmetric matrix: both sides keep "improving" for ever (outside the property's domain)
            return 'implementation did not finish in time; model: %r' % (model,)
        if code == 2:
            _EXTRA['lkh_runs_with_hash_order_tie_not_compared'] = _EXTRA.get('lkh_runs_with_hash_order_tie_not_compared', 0) + 1
            return None
        if code != 0:
            return 'model ran out of fuel (code %d)' % code
        expected = path if lkh_repaired() else [path]       # repaired: all discovered tours, the input first
        if impl['paths'] != expected:
            return 'paths: impl %s model %s' % (impl['paths'], expected)
        return None
    if op == 'kmedoids':
        if 'panic' in impl:
            return 'implementation panicked: %s' % impl['panic']
        tie, m = model
        if tie == 'true':
            _EXTRA['kmedoids_runs_with_assignment_tie_not_compared'] = _EXTRA.get('kmedoids_runs_with_assignment_tie_not_compared', 0) + 1
            return None
        mm = [[k, list(v)] for k, v in m]
        if impl['clusters'] != mm:
            return 'clusters: impl %s model %s' % (impl['clusters'], mm)
        return None
    if op == 'hkmedoids':
        m = unopt(model)
        if 'panic' in impl:
            return None if m is None else 'implementation panicked (%s), model returned tiers' % impl['panic']
        if m is None:
            return 'model panics (expect "should be set"), implementation returned %s' % impl
        if c['kind'] in TIE_FREE_KINDS and c['shape'] in ('distinct', 'empty'):
            mm = [[[k, list(v)] for k, v in t] for t in m]
            if impl['tiers'] != mm:
                return 'tiers: impl %s model %s' % (impl['tiers'], mm)
        return None
    return None


# ------------------------------------------------------------------ oracle: the contract on the implementation's output
def dbscan_oracle(c, impl):
    v = []
    if 'panic' in impl:
        return [{'class': 'dbscan-panic', 'what': 'create_clusters panicked: ' + impl['panic']}]
    nbr, minp = c['nbr'], c['minp']

    def N(p):
        return nbr[p] if p < len(nbr) else []

    def core(p):
        return len(N(p)) >= minp
    cs = impl['clusters']
    flat = [p for cl in cs for p in cl]
    if len(flat) != len(set(flat)):
        v.append({'class': 'dbscan-overlap', 'what': 'a point occurs in two clusters (or twice in one): %s' % cs})
    for cl in cs:
        if not cl:
            v.append({'class': 'dbscan-empty-cluster', 'what': 'empty cluster'})
            continue
        seeds = [p for p in cl if core(p)]
        # grown from a core point: some core point of the cluster reaches every member
        ok = False
        for s in seeds:
            reach, todo = {s}, [s]
            while todo:
                x = todo.pop()
                if core(x):
                    for y in N(x):
                        if y not in reach:
                            reach.add(y)
                            todo.append(y)
            if all(p in reach for p in cl):
                ok = True
                break
        if not seeds:
            v.append({'class': 'dbscan-seed-not-core', 'what': 'cluster %s contains no core point' % cl})
        elif not ok:
            v.append({'class': 'dbscan-unreachable-member', 'what': 'cluster %s has a member not density-reachable from its core points' % cl})
    inc = set(flat)
    for p in c['pts']:
        if core(p) and p not in inc:
            v.append({'class': 'dbscan-core-unclustered', 'what': 'core point %d is in no cluster' % p})
            break
    return v


# ---- job-level DBSCAN wrapper: the contract w.r.t. the neighbourhood the wrapper constructs
def jc_located_row(c, row):
    return [(j, cst) for j, cst in row if job_has_locations(c['jobs'][j])]


def jc_estimate_epsilon(c, rows, order, minp):
    """estimate_epsilon over exact rationals (independent of the Coq model)"""
    costs = []
    for j in order:
        acc = Fraction(0)
        for prow in rows:
            taken = jc_located_row(c, prow[j])[:minp]
            acc += Fraction(sum(cst for _, cst in taken), len(taken) + 1)
        costs.append(acc / len(rows))
    costs = sorted(set(costs))
    if not costs:
        return Fraction(0)
    pts = [(Fraction(i), y) for i, y in enumerate(costs)]
    a, b = pts[0], pts[-1]
    best_y, best = Fraction(0), None
    for p_ in pts:
        d = Fraction(0) if a == b else abs((b[0] - a[0]) * (p_[1] - a[1]) - (b[1] - a[1]) * (p_[0] - a[0]))
        if best is None or d > best:
            best_y, best = p_[1], d
    return best_y


def jc_contract(c, rows, order, minp_opt, eps_opt, clusters, prefix, hasloc=None, eps_value=None):
    """pairwise disjoint / grown from a core job / only density-reachable jobs / no core job unclustered, for clusters given as sets
    (costs / epsilon: exact rationals for the integer streams, IEEE doubles - compared only - for the pragmatic `analyze` stream)"""
    v = []
    minp = max(3 if minp_opt is None else minp_opt, 2)
    if hasloc is None:
        def hasloc(j):
            return job_has_locations(c['jobs'][j])
    if eps_value is not None:
        eps = eps_value
    else:
        eps = Fraction(eps_opt[0], eps_opt[1]) if eps_opt is not None else jc_estimate_epsilon(c, rows, order, minp)
    first = rows[0]

    def N(j):
        out = []
        for k, cst in first[j]:
            if not hasloc(k):
                continue
            if not cst < eps:
                break
            out.append(k)
        return out

    def core(j):
        return len(N(j)) >= minp
    flat = [j for cl in clusters for j in cl]
    if len(flat) != len(set(flat)):
        v.append({'class': prefix + '-overlap', 'what': 'a job occurs in two clusters: %s' % clusters})
    for cl in clusters:
        if any(not hasloc(j) for j in cl):
            v.append({'class': prefix + '-job-without-location-clustered', 'what': 'cluster %s contains a job without locations' % cl})
            continue
        seeds = [j for j in cl if core(j)]
        if not seeds:
            v.append({'class': prefix + '-no-core-job-in-cluster', 'what': 'cluster %s contains no core job (min_points %d, epsilon %s)' % (cl, minp, eps)})
            continue
        ok = False
        for s_ in seeds:
            reach, todo = {s_}, [s_]
            while todo:
                x = todo.pop()
                if core(x):
                    for y in N(x):
                        if y not in reach:
                            reach.add(y)
                            todo.append(y)
            if all(j in reach for j in cl):
                ok = True
                break
        if not ok:
            v.append({'class': prefix + '-unreachable-member', 'what': 'cluster %s has a member that is not density-reachable from any of its core jobs' % cl})
    inc = set(flat)
    for j in order:
        if hasloc(j) and core(j) and j not in inc:
            nb = N(j)
            shared = [k for k in nb if k in inc]
            cls = prefix + '-core-point-unclustered'
            if shared:
                cls += ':neighbour-claimed-by-another-cluster'
            v.append({'class': cls, 'what': 'core job %d (%d neighbours %s within epsilon %s, min_points %d) is in no cluster of %s' % (
                j, len(nb), nb, eps, minp, clusters)})
            break
    return v


def jobclusters_oracle(c, impl):
    if 'panic' in impl:
        return [{'class': 'job-clusters-panic', 'what': 'create_job_clusters / Problem construction panicked: ' + impl['panic']}]
    if impl['err'] is not None:
        return [{'class': 'job-clusters-error-with-profiles', 'what': 'create_job_clusters returned Err(%s) for a fleet with profiles %s' % (impl['err'], impl['profiles'])}]
    v = jc_contract(c, impl['rows'], c['order'], c['minp'], c['eps'], impl['clusters'], 'job-clusters')
    # what the solver (cluster-removal ruin) reads: Jobs::new with min_points 3 and an estimated epsilon, all jobs
    v += jc_contract(c, impl['rows'], list(range(len(c['jobs']))), 3, None, impl['solver_clusters'], 'solver-job-clusters')
    return v


def f64_of_bits(b):
    import struct
    return struct.unpack('<d', struct.pack('<Q', int(b)))[0]


def float_estimate_epsilon(rows, order, minp):
    """estimate_epsilon mirrored operation by operation in IEEE doubles (Python floats; no fused operations on either side)"""
    import math
    costs = [0.0] * len(order)
    for prow in rows:
        for idx, j in enumerate(order):
            s_, cnt = 0.0, 1
            for _, cst in prow[j][:minp]:
                s_ = s_ + cst
                cnt += 1
            costs[idx] = costs[idx] + s_ / float(cnt)
    costs = sorted(x / float(len(rows)) for x in costs)
    ded = []
    for x in costs:
        if not ded or ded[-1] != x:
            ded.append(x)
    if not ded:
        return 0.0
    pts = [(float(i), y) for i, y in enumerate(ded)]
    a, b = pts[0], pts[-1]
    dx, dy = a[0] - b[0], a[1] - b[1]
    ab = math.sqrt(dx * dx + dy * dy)
    best_y, best = 0.0, -1.7976931348623157e308
    for p_ in pts:
        if ab == 0.0:
            d = 0.0
        else:
            cross = (b[0] - a[0]) * (p_[1] - a[1]) - (b[1] - a[1]) * (p_[0] - a[0])
            d = abs(cross / ab)
        if d > best:
            best_y, best = p_[1], d
    return best_y


def analyze_oracle(c, impl):
    """`vrp-cli analyze dbscan|kmedoids` on a pragmatic document: termination (watchdog), the DBSCAN contract of the reported
    clusters w.r.t. the neighbourhoods the job index reports (float costs are only compared), partition + directed nearest clause
    of the reported k-medoids clusters"""
    if 'panic' in impl:
        return [{'class': 'analyze-panic', 'what': 'analyze path panicked: ' + impl['panic']}]
    if 'read_error' in impl:
        return []
    v = []
    ids = {name: i for i, name in enumerate(impl['jobs'])}
    n = len(ids)
    rows = [[[(k, f64_of_bits(b)) for k, b in row] for row in prow] for prow in impl['rows']]
    minp = max(3 if c['minp'] is None else c['minp'], 2)
    db = impl['dbscan']
    if isinstance(db, dict):
        v.append({'class': 'analyze-dbscan-error', 'what': 'get_dbscan_clusters returned Err(%s)' % db['err']})
    else:
        by_cluster = {}
        for name, _loc, cidx in db:
            if name not in ids:
                v.append({'class': 'analyze-dbscan-unknown-job', 'what': 'unknown job id %s' % name})
                continue
            by_cluster.setdefault(cidx, set()).add(ids[name])
        clusters = [sorted(by_cluster[k]) for k in sorted(by_cluster)]
        eps = float(c['eps']) if c['eps'] is not None else float_estimate_epsilon(rows, list(range(n)), minp)
        v += jc_contract(c, rows, list(range(n)), c['minp'], None, clusters, 'analyze-dbscan', hasloc=lambda j: True, eps_value=eps)
        if c['eps'] is None and minp == 3 and as_sets(clusters) != as_sets([[ids[x] for x in cl] for cl in impl['solver_clusters']]):
            v.append({'class': 'analyze-dbscan-differs-from-solver-clusters',
                      'what': 'same arguments as Jobs::new, but clusters %s vs Jobs::clusters() %s' % (clusters, impl['solver_clusters'])})
    eps3 = float_estimate_epsilon(rows, list(range(n)), 3)
    v += jc_contract(c, rows, list(range(n)), 3, None, [[ids[x] for x in cl] for cl in impl['solver_clusters']],
                     'analyze-solver-job-clusters', hasloc=lambda j: True, eps_value=eps3)
    km = impl['kmedoids']
    if isinstance(km, dict):
        v.append({'class': 'analyze-kmedoids-error', 'what': 'get_k_medoids_clusters returned Err(%s)' % km['err']})
    else:
        d = [[f64_of_bits(b) for b in row] for row in impl['dist']]
        pts = sorted(loc for _n, loc, _m in km if loc is not None)
        if pts != list(range(impl['size'])):
            v.append({'class': 'analyze-kmedoids-not-partition', 'what': 'locations reported %s, matrix has %d' % (pts, impl['size'])})
        meds = sorted(set(m for _n, _l, m in km))
        for _n, loc, m in km:
            if loc is None:
                continue
            for m2 in meds:
                if d[loc][m2] < d[loc][m]:
                    v.append({'class': 'analyze-kmedoids-closer-to-other-medoid',
                              'what': 'location %d is in the cluster of medoid %d (d=%r) but medoid %d is closer (d=%r)' % (loc, m, d[loc][m], m2, d[loc][m2])})
                    return v
    return v


MULTI_TIER_KS = [2, 3, 4, 5, 8, 10, 12, 16, 32, 64]


def multitier_oracle(c, impl):
    if 'panic' in impl:
        return [{'class': 'multi-tier-panic', 'what': 'create_multi_tier_clusters panicked: ' + impl['panic']}]
    if 'err' in impl:
        return [{'class': 'multi-tier-error', 'what': 'create_multi_tier_clusters returned Err(%s)' % impl['err']}]
    v = []
    ks = [k for k in MULTI_TIER_KS if k <= c['size'] // 3]
    if len(impl['tiers']) != len(ks):
        v.append({'class': 'multi-tier-tier-count', 'what': '%d tiers returned for %d locations, expected one per k in %s' % (len(impl['tiers']), c['size'], ks)})
    cc = {'op': 'kmedoids', 'pts': list(range(c['size'])), 'k': 0, 'dist': c['dist'][c['profile']]}
    for t in impl['tiers']:
        for x in km_check(cc, t):
            x = dict(x)
            x['class'] = 'multi-tier-' + x['class']
            v.append(x)
    return v


def cyc_cost(cost, p):
    return sum(cost[p[i]][p[(i + 1) % len(p)]] for i in range(len(p))) if p else 0


def is_symmetric(m):
    return all(m[i][j] == m[j][i] for i in range(len(m)) for j in range(len(m)))


def lkh_oracle(c, impl):
    if impl.get('skipped'):
        return []       # the harness stops running the search after several timeouts (it cannot kill the threads)
    if 'panic' in impl:
        return [{'class': 'lkh-panic', 'what': 'lkh_optimize panicked: ' + impl['panic']}]
    if impl.get('timeout') and not is_symmetric(c['cost']):
        return []       # the property quantifies over symmetric matrices only
    if impl.get('timeout'):
        return [{'class': 'lkh-no-termination', 'what': 'lkh_optimize did not return within the time limit'}]
    inp = c['path']
    v = []
    if len(set(inp)) != len(inp):
        return v        # repeated nodes: not a tour; only termination / no panic is required
    if not impl['paths']:
        v.append({'class': 'lkh-no-path-returned', 'what': 'empty result vector'})
    for out in impl['paths']:
        if sorted(out) != sorted(inp):
            v.append({'class': 'lkh-not-permutation', 'what': 'output %s is not a permutation of %s' % (out, inp)})
            continue
        if inp and out[0] != inp[0]:
            if inp[0] != 0 and out[0] == 0:
                cls = 'lkh-start-moved-to-node-0:input-path-not-starting-at-node-0'
            else:
                cls = 'lkh-start-changed'
            v.append({'class': cls, 'what': 'input starts at node %d, output %s starts at node %d' % (inp[0], out, out[0])})
        if is_symmetric(c['cost']) and cyc_cost(c['cost'], out) > cyc_cost(c['cost'], inp):
            v.append({'class': 'lkh-cost-increased', 'what': 'closed-tour cost %d > input cost %d' % (
                cyc_cost(c['cost'], out), cyc_cost(c['cost'], inp))})
    return v


def km_partition_class(c):
    if len(set(c['pts'])) < (c['k'] if c['op'] == 'kmedoids' else 2) or len(set(c['pts'])) != len(c['pts']) and c['op'] == 'hkmedoids':
        return 'kmedoids-k-exceeds-distinct-points'
    return 'kmedoids-not-partition'


def km_check(c, clusters, nearest=True):
    """clusters: [[medoid, [points]], ...]"""
    v = []
    d = c['dist']
    allp = sorted(p for _, ps in clusters for p in ps)
    if allp != sorted(c['pts']):
        v.append({'class': km_partition_class(c), 'what': 'clusters %s are not a partition of %s' % (clusters, c['pts'])})
    if nearest:
        for m, ps in clusters:
            for p_ in ps:
                for m2, _ in clusters:
                    # directed: distance_fn(point, medoid), FROM the point TO the medoid
                    if d[p_][m2] < d[p_][m]:
                        cls = 'kmedoids-closer-to-other-medoid'
                        if not d[m2][p_] < d[m][p_]:
                            cls += ':only-in-point-to-medoid-direction'      # invisible to symmetric distance functions
                        v.append({'class': cls,
                                  'what': 'point %d is in the cluster of medoid %d (d(point,medoid)=%d) but medoid %d is closer (d=%d)' % (
                                      p_, m, d[p_][m], m2, d[p_][m2])})
                        return v
    return v


def kmedoids_oracle(c, impl):
    if 'panic' in impl:
        if c['op'] == 'hkmedoids' and len(c['pts']) == 1 and c['tiers'] >= 1 and 'should be set' in impl['panic']:
            return [{'class': 'hkmedoids-single-point-panic', 'what': 'create_hierarchical_kmedoids panics on a single point: ' + impl['panic']}]
        return [{'class': 'kmedoids-panic', 'what': '%s panicked: %s' % (c['op'], impl['panic'])}]
    if c['op'] == 'kmedoids':
        return km_check(c, impl['clusters'])
    v = []
    for i, t in enumerate(impl['tiers']):
        v += km_check(c, t, nearest=(i == 0))
    return v


_SEEN = []   # (case, impl) pairs of this run, for the Coq-side checkers in extra_checks


def oracle(c, impl):
    if not re.match(r'^s\d+$', str(c.get('id', ''))):      # shrink candidates are not part of the campaign
        _SEEN.append((c, impl))
    op = c['op']
    if op != 'lkh' and impl.get('timeout'):
        # every clustering call runs under a 20 s watchdog in the harness; no delta debugging of such a case (every candidate
        # would spin for the watchdog limit again)
        c['watchdog_fired'] = True
        return [{'class': 'clustering-does-not-terminate', 'what': '%s did not return within the watchdog limit' % op}]
    if op != 'lkh' and impl.get('skipped'):
        return []
    if op == 'analyze':
        return analyze_oracle(c, impl)
    if op == 'dbscan':
        return dbscan_oracle(c, impl)
    if op == 'lkh':
        return lkh_oracle(c, impl)
    if op == 'jobclusters':
        return jobclusters_oracle(c, impl)
    if op == 'multitier':
        return multitier_oracle(c, impl)
    return kmedoids_oracle(c, impl)


def nontrivial_key(c, impl):
    if 'panic' in impl or c['op'] != 'lkh' and (impl.get('timeout') or impl.get('skipped')):
        return None
    if c['op'] == 'analyze':
        if 'read_error' in impl:
            return None
        return ('an', json.dumps([c['problem'], c.get('matrices'), c['minp'], c['eps'], c['k']]))
    if c['op'] == 'dbscan':
        if any(len(cl) > 1 for cl in impl['clusters']):
            return ('dbscan', json.dumps([c['nbr'], c['minp'], c['pts']]))
        return None
    if c['op'] == 'lkh':
        if impl.get('paths') and impl['paths'] != [c['path']]:
            return ('lkh', json.dumps([c['path'], c['cost'], c['nbr']]))
        return None
    if c['op'] == 'kmedoids':
        return ('km', json.dumps([c['pts'], c['k'], c['dist']])) if len(impl['clusters']) > 1 else None
    if c['op'] == 'hkmedoids':
        return ('hkm', json.dumps([c['pts'], c['tiers'], c['dist']])) if impl['tiers'] else None
    if c['op'] == 'jobclusters':
        if impl.get('clusters') or impl.get('solver_clusters'):
            return ('jc', json.dumps([c['jobs'], c['dist'], c['dur'], c['vehicles'], c['order'], c['minp'], c['eps']]))
        return None
    if c['op'] == 'multitier':
        return ('mt', json.dumps([c['size'], c['dist'], c['profile']])) if impl.get('tiers') else None
    return None


def classify(c, impl):
    labs = ['op=' + c['op']]
    if c['op'] != 'lkh' and (impl.get('timeout') or impl.get('skipped')):
        return labs + ['watchdog:' + ('timeout' if impl.get('timeout') else 'skipped')]
    if c['op'] == 'analyze':
        labs.append('analyze:' + c.get('shape', '?'))
        labs.append('analyze-epsilon:' + ('estimated' if c['eps'] is None else 'given'))
        if 'read_error' in impl:
            labs.append('analyze-read-error')
        elif 'panic' not in impl:
            labs.append('analyze-dbscan-clustered-jobs=%s' % (0 if isinstance(impl['dbscan'], dict) or not impl['dbscan'] else '1+'))
            labs.append('analyze-solver-clusters=%d' % len(impl['solver_clusters']))
        return labs
    if c['op'] == 'dbscan':
        labs.append('dbscan:' + c.get('kind', '?'))
        if 'panic' not in impl:
            k = len(impl['clusters'])
            labs.append('dbscan-clusters=%s' % (k if k < 3 else '3+'))
    if c['op'] == 'lkh':
        labs.append('lkh-cost:' + c['kind'])
        labs.append('lkh-path:' + c['shape'])
        if 'panic' not in impl and impl.get('paths'):
            labs.append('lkh-improved=%s' % (impl['paths'] != [c['path']]))
    if c['op'] in ('kmedoids', 'hkmedoids'):
        labs.append('km-dist:' + c['kind'])
        labs.append('km-points:' + c['shape'])
        if c['op'] == 'kmedoids':
            labs.append('km-pool=%s' % ('1-thread' if c.get('threads', 1) == 1 else 'default'))
    if c['op'] == 'jobclusters':
        labs.append('jc-shape:' + c.get('shape', '?'))
        labs.append('jc-epsilon:' + ('estimated' if c['eps'] is None else 'given'))
        labs.append('jc-min-points:%s' % ('default' if c['minp'] is None else c['minp']))
        labs.append('jc-profiles=%d' % len(c['dist']))
        if 'panic' not in impl and impl.get('err') is None:
            k = len(impl['clusters'])
            labs.append('jc-clusters=%s' % (k if k < 3 else '3+'))
            labs.append('jc-solver-clusters=%s' % (len(impl['solver_clusters']) if len(impl['solver_clusters']) < 3 else '3+'))
            mp = max(3 if c['minp'] is None else c['minp'], 2)
            if any(len(cl) <= mp for cl in impl['clusters']):
                labs.append('jc-cluster-not-larger-than-min-points')
    if c['op'] == 'multitier':
        labs.append('mt-dist:' + c['kind'])
        if 'tiers' in impl:
            labs.append('mt-tiers=%d' % len(impl['tiers']))
    return labs


# ------------------------------------------------------------------ Coq-side checkers on the implementation's outputs
def checker_term(c, impl):
    """Gallina term evaluating the verified boolean contract checker on the implementation's output; None to skip"""
    if 'panic' in impl or c['op'] != 'lkh' and (impl.get('timeout') or impl.get('skipped')) or c['op'] == 'analyze':
        return None
    if c['op'] == 'dbscan':
        return 'check_dbscan %s %d%%nat %s %s' % (nll(c['nbr']), c['minp'], nl(c['pts']), nll(impl['clusters']))
    if c['op'] == 'lkh':
        if impl.get('timeout') or impl.get('skipped') or not impl['paths'] or len(set(c['path'])) != len(c['path']) or not is_symmetric(c['cost']):
            return None
        return 'check_lkh %s %s %s' % (zll(c['cost']), nl(c['path']), nl(impl['paths'][-1]))   # the tour the callers take: .last()
    if c['op'] == 'kmedoids':
        return 'check_kmedoids %s %s %s' % (zll(c['dist']), nl(c['pts']), cmap_term(impl['clusters']))
    if c['op'] == 'hkmedoids' and impl['tiers']:
        return 'check_kmedoids %s %s %s' % (zll(c['dist']), nl(c['pts']), cmap_term(impl['tiers'][0]))
    if c['op'] == 'multitier' and impl.get('tiers'):
        # the verified k-medoids checker on the finest tier, with the directed distance of the requested profile
        return 'check_kmedoids %s %s %s' % (zll(c['dist'][c['profile']]), nl(list(range(c['size']))), cmap_term(impl['tiers'][0]))
    return None


def cmap_term(clusters):
    return '[' + '; '.join('(%d, [%s])' % (m, '; '.join('%d' % p for p in ps)) for m, ps in clusters) + ']%nat'


def checker_failure_class(c, impl, value):
    """map the checker's value to a violation class (None = passed)"""
    if c['op'] == 'dbscan':
        return None if value == 'true' else 'dbscan-coq-checker'
    if c['op'] == 'lkh':
        out = []
        for code in value:
            if code == 1:
                out.append('lkh-not-permutation')
            elif code == 2:
                inp, o = c['path'], impl['paths'][-1]
                out.append('lkh-start-moved-to-node-0:input-path-not-starting-at-node-0' if inp and o and inp[0] != 0 and o[0] == 0 else 'lkh-start-changed')
            else:
                out.append('lkh-cost-increased')
        return out or None
    if c['op'] in ('kmedoids', 'hkmedoids'):
        out = []
        for code in value:
            out.append(km_partition_class(c) if code == 1 else 'kmedoids-closer-to-other-medoid')
        return out or None
    if c['op'] == 'multitier':
        return ['multi-tier-kmedoids-not-partition' if code == 1 else 'multi-tier-kmedoids-closer-to-other-medoid' for code in value] or None
    return None


def extra_checks(ctx):
    items = []
    for c, impl in _SEEN:
        t = checker_term(c, impl)
        if t is not None:
            items.append((c, impl, t))
    del _SEEN[:]
    if not items:
        return
    wd = ctx['wd']
    coq = os.environ.get('VERIF_COQ', os.path.join(os.path.dirname(os.path.dirname(os.path.dirname(os.path.abspath(__file__)))), 'coq'))
    shard = 300
    shards = [items[k:k + shard] for k in range(0, len(items), shard)]

    def one(k):
        f = os.path.join(wd, 'checker_%d.v' % k)
        with open(f, 'w') as fh:
            fh.write(COQ_IMPORTS + '\nSet Printing Width 1000000.\nSet Printing Depth 1000000.\n')
            for _, _, t in shards[k]:
                fh.write('Eval vm_compute in (%s).\n' % t)
        p = subprocess.run(['timeout', '600', 'coqc', '-noglob', '-Q', os.path.join(coq, 'theories'), 'VRP', '-w', '-all', f],
                           cwd=wd, stdout=subprocess.PIPE, stderr=subprocess.STDOUT, text=True)
        if p.returncode != 0:
            raise RuntimeError('coq checker evaluation failed: ' + p.stdout[-1500:])
        vals = coqterm.parse_eval_output(p.stdout)
        if len(vals) != len(shards[k]):
            raise RuntimeError('coq checker evaluation: expected %d values got %d' % (len(shards[k]), len(vals)))
        return vals

    with ThreadPoolExecutor(max_workers=8) as ex:
        allvals = list(ex.map(one, range(len(shards))))
    n = 0
    for sh, vals in zip(shards, allvals):
        for (c, impl, _), val in zip(sh, vals):
            n += 1
            cls = checker_failure_class(c, impl, val)
            if cls is None:
                continue
            classes = cls if isinstance(cls, list) else [cls]
            for cl in classes:
                fid = None
                for e in ctx['known']:
                    if e.get('kind') == 'finding' and e.get('property') == ID and e.get('class') == cl:
                        fid = e['id']
                if fid:
                    ctx['verdict'].known_hits[fid] = ctx['verdict'].known_hits.get(fid, 0) + 1
                else:
                    rp = ctx['write_replay'](ID, {'property': ID, 'kind': 'oracle-violation',
                                                  'what': {'class': cl, 'what': 'verified Coq contract checker rejects the implementation output: %r' % (val,)},
                                                  'case': c, 'impl': impl, 'seed': ctx['stats']['seed']})
                    ctx['verdict'].violation(rp)
    ctx['stats']['coq_checked_outputs'] = n
    _EXTRA['implementation_outputs_checked_by_verified_coq_checker'] = n


_EXTRA = {}


def extra_coverage():
    return dict(_EXTRA)


def shrink_candidates(c):
    if c.get('watchdog_fired'):
        return
    if c['op'] == 'dbscan':
        pts = c['pts']
        for i in range(len(pts)):
            d = dict(c)
            d['pts'] = pts[:i] + pts[i + 1:]
            yield d
        for i in range(len(c['nbr'])):
            for j in range(len(c['nbr'][i])):
                d = dict(c)
                d['nbr'] = [list(r) for r in c['nbr']]
                del d['nbr'][i][j]
                yield d


MANIFEST_TEXT = ('Machine-checked proof (Coq, no axioms) over executable models of dbscan::create_clusters, lkh (Tour, KOpt; over exact integer costs '
                 'and, generically, over any cost arithmetic incl. IEEE binary64 = Coq primitive floats), k-medoids (create_kmedoids / '
                 'create_hierarchical_kmedoids, directed distance function) and of the wrappers the solver uses '
                 '(construction::clustering::dbscan::create_job_clusters incl. the epsilon estimate, '
                 'construction::clustering::kmedoids::create_multi_tier_clusters, solver::search::lkh_search optimize_route / CostMatrix / '
                 'rearrange_route); models tied to /repo on every run by vm_compute evaluation on the same generated inputs as the real '
                 'public functions (the job-level wrapper on a real Problem, also through Jobs::clusters(); lkh_optimize on integer and on '
                 'non-integer f64 costs under a deterministic call budget; LKHSearch::search on a real Problem), and contract checkers '
                 '(verified boolean checkers in Coq for the algorithms, a Python oracle with the directed distance / the constructed '
                 'neighbourhood / exact square-root arithmetic for the wrappers and the float stream) evaluated on the implementation outputs. '
                 'Termination of lkh_optimize over f64 is refuted (finding C17-F4) and proved for the proposed repair.')
MANIFEST_NOTE = 'see notes/C17.md'
MANIFEST_TECHNIQUE = 'Coq proof over executable model + vm_compute differential correspondence with the Rust implementation'
