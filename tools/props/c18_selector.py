"""C18 sub-stream `c18_selector` — the adaptive selector itself: the real DynamicSelective (rosomaxa/src/hyper/dynamic_selective.rs:
SearchAgent::{new, search, update, save_params}, SearchAction::take, HeuristicTracker, compare_to_best) driven through its public API
(new / search / search_many / Display telemetry) over a scripted HeuristicContext, compared with the state machine of Model/Selector.v
instantiated with the primitive-float slot machines and the binary64 twin of the reward estimation (Model/SelectorF.v :: run_selectorF):
which operator every search picks (arg-max over the sampler outputs of EVERY slot of the row of the from-state), the from/to states,
the reward bit for bit (incl. the performance multiplier from the running remedian of the measured durations), the sampler arguments
of every slot bit for bit, and the learned parameters of every (state, operator) slot after the run bit for bit.
Randomness: the Environment's Random hands out the repeatable RandomGen, each run happens on one fresh thread; the sampler draws inside
DynamicSelective are replayed by a shadow (real SlotMachine + recording sampler + real random_argmax) on a second fresh thread and are
the oracle arguments of the model (MODEL_NEEDS_IMPL).  Second op: RemedianUsize alone against Model/Selector.v :: rem_add / rem_median.
Registered by `SUBSTREAMS = ['c18_selector', ...]` in tools/props/c18.py; theorems C18_selector_* in Properties/C18.v."""
import math
from fractions import Fraction as Fr
from coqterm import z, zlist, nat, boolean
from props.floats import bits, of_bits
from props import c18 as P

ID = 'C18'            # set by the driver
HARNESS = 'c18_selector'
COQ_IMPORTS = ('From Coq Require Import Floats Uint63.\n'
               'From VRP Require Import Base.Tac Model.SlotF Model.Selector Model.SelectorF.\nOpen Scope Z_scope.\nOpen Scope uint63_scope.')
MODEL_TARGETS = ['theories/Model/Selector.vo', 'theories/Model/SelectorF.vo']
MODEL_NEEDS_IMPL = True
SHARD = 30
SIZES = {'quick': 200, 'thorough': 3000, 'search': 1500}
RULE = ('cases: (selector) DynamicSelective with 1-5 scripted operators (rarely 0), 1-3 objectives, 2-16 rounds (thorough: up to 40) of '
        'search (one solution) or search_many (1-4 solutions; the last round always, so that the learned parameters are reported), best '
        'known / handed-in / returned fitness drawn from a small pool (dyadic values, mixed signs, whole case scaled by 2^0, 2^+-10, '
        '2^+-300, 2^+-900), improvement ratios on and next to 0.05 / 0.15, one case in six with operators that sleep 0-3 ms (non-zero '
        'durations: remedian and performance multiplier); (remedian) RemedianUsize::new(base, exponent) with base in {1,2,3,5,11}, '
        'exponent in {1,2,3,7}, up to 400 observations (cascades into higher buffers, full estimator). non-trivial = a selector case '
        'with >= 2 positive rewards that visits both states / a remedian case with a cascade.')
TRUSTED = ['c18_selector: the sampler draws inside DynamicSelective are not observable; they are replayed by a shadow in the harness (real '
           'SlotMachine with a recording sampler around the public DefaultDistributionSampler::sample_gamma / sample_normal, real random_argmax, '
           'same repeatable thread-local RNG on a fresh thread, updated with the rewards the real run reported); a divergence between the '
           'shadow and the real run shows up as a choice / parameter mismatch',
           'c18_selector: the objective is the lexicographic order of the harness (Model/SelectorF.v :: flex); measured durations are read from '
           'the telemetry and are oracle arguments of the model']
ASSUMPTIONS = ['c18_selector: fitness values are finite (no NaN distance arises, so `x.total_cmp(&0.) == Greater` is `0 < x`); '
               'f64-level theorems C18_selector_float_*: |fitness| <= 2^1022, fewer than 2^50 objectives, at most 2^52 updates per slot']


# ------------------------------------------------------------------ generation
def gen_pool(rng, nobj):
    pool = []
    base = [P.gen_fit_component(rng) for _ in range(nobj)]
    pool.append(base)
    for _ in range(rng.range(2, 5)):
        pool.append(P.vary(rng, rng.choice(pool)))
    return pool


def gen_selector(rng, tier):
    nops = rng.choice([1, 2, 2, 3, 3, 3, 4, 5]) if rng.chance(39, 40) else 0
    nobj = rng.choice([1, 1, 2, 3])
    scale = Fr(2) ** rng.choice([0, 0, 0, 0, 0, 10, -10, 300, -300, 900, -900])
    pool = gen_pool(rng, nobj)
    slow = rng.chance(1, 6)
    nrounds = rng.range(2, 16) if tier == 'quick' or rng.chance(2, 3) else rng.range(16, 40)
    if slow:
        nrounds = min(nrounds, 14)
    rounds = []
    best = None if rng.chance(1, 3) else rng.choice(pool)

    def enc(f):
        return P.sb(bits(float(x * scale)) for x in f)
    for k in range(nrounds):
        if rng.chance(1, 3):
            best = rng.choice(pool) if rng.chance(9, 10) else None
        many = rng.chance(1, 3) or k == nrounds - 1
        jobs = []
        for _ in range(rng.choice([1, 2, 2, 3, 4]) if many else 1):
            init = list(best) if (best is not None and rng.chance(2, 5)) else rng.choice(pool)
            new = rng.choice(pool) if rng.chance(2, 3) else P.vary(rng, init)
            job = {'init': enc(init), 'new': enc(new)}
            if slow:
                job['sleep_ms'] = rng.choice([0, 0, 1, 1, 2, 3])
            jobs.append(job)
            if rng.chance(1, 4) and (best is None or P.lex(new, best) < 0):
                pool.append(new)
        rounds.append({'best': None if best is None else enc(best), 'ratio': str(bits(rng.choice(P.RATIOS))), 'many': many, 'jobs': jobs})
    return {'op': 'selector', 'nops': nops, 'rounds': rounds, 'slow': slow}


def gen_remedian(rng, tier):
    base = rng.choice([1, 2, 3, 3, 5, 11, 11])
    exponent = rng.choice([1, 2, 3, 7, 7])
    n = rng.range(1, 40) if rng.chance(1, 2) else rng.range(40, 400)
    mode = rng.below(4)
    if mode == 0:
        vals = [rng.range(0, 5) for _ in range(n)]
    elif mode == 1:
        vals = [rng.range(0, 1000) for _ in range(n)]
    elif mode == 2:
        vals = [i if rng.chance(3, 4) else rng.range(0, n) for i in range(n)]
    else:
        vals = [rng.choice([0, 0, 0, 1, 2, 50]) for _ in range(n)]
    return {'op': 'remedian', 'base': base, 'exponent': exponent, 'values': vals}


def generate(rng, tier, n):
    return [gen_selector(rng, tier) if rng.chance(5, 6) else gen_remedian(rng, tier) for _ in range(n)]


def corpus():
    one, two, half = str(bits(1.0)), str(bits(2.0)), str(bits(0.5))
    r = str(bits(0.1))
    return [
        # no operator configured: the expect of SearchAgent::search panics, the model returns None
        {'op': 'selector', 'nops': 0, 'slow': False, 'rounds': [{'best': [one], 'ratio': r, 'many': False, 'jobs': [{'init': [one], 'new': [half]}]}]},
        # both rows are used: from = best (handed-in solution equals the best known) and from = diverse
        {'op': 'selector', 'nops': 2, 'slow': False, 'rounds': [
            {'best': [one], 'ratio': r, 'many': False, 'jobs': [{'init': [one], 'new': [half]}]},
            {'best': [half], 'ratio': r, 'many': False, 'jobs': [{'init': [two], 'new': [one]}]},
            {'best': [half], 'ratio': r, 'many': True, 'jobs': [{'init': [half], 'new': [one]}, {'init': [two], 'new': [str(bits(0.25))]}]}]},
        {'op': 'remedian', 'base': 11, 'exponent': 7, 'values': [3, 1, 2, 5, 4, 9, 8, 7, 6, 10, 11, 0, 0, 0]},
        {'op': 'remedian', 'base': 3, 'exponent': 2, 'values': [5, 1, 3, 9, 9, 9, 2, 2, 2, 7, 7, 7]},
    ]


# ------------------------------------------------------------------ model term
def job_samples(c):
    """[(round index, job index, global index)]"""
    out, t = [], 0
    for k, rd in enumerate(c['rounds']):
        for j in range(len(rd['jobs'])):
            out.append((k, j, t))
            t += 1
    return out


def bl(xs):
    return P.blist([int(x) for x in xs])


def b1(x):
    x = int(x)
    return ('(bn %d%%uint63)' % (x - P.SIGN)) if x >= P.SIGN else ('(bp %d%%uint63)' % x)


def model_term(c, impl):
    if c['op'] == 'remedian':
        return 'run_remedian %s %s %s%%Z' % (nat(c['base']), nat(c['exponent']), zlist(c['values']))
    if 'panic' in impl:
        return None
    search = impl['search']
    sh = impl['shadow']
    sjobs = sh.get('jobs', []) if 'panic' not in sh else []
    rounds = []
    t = 0
    for rd in c['rounds']:
        jobs = []
        for job in rd['jobs']:
            dur = search[t]['duration'] if t < len(search) else 0
            slots = sjobs[t]['slots'] if t < len(sjobs) else []
            gs = [int(s[2]) for s in slots]
            xs = [int(s[5]) for s in slots]
            jobs.append('(%s, %s, %d%%Z, %s, %s, @nil bool)' % (bl(job['init']), bl(job['new']), dur, bl(gs), bl(xs)))
            t += 1
        b = '[]' if rd['best'] is None else '[%s]' % bl(rd['best'])
        rounds.append('(%s, %s, [%s])' % (b, b1(rd['ratio']), '; '.join(jobs)))
    return 'run_selectorF %s [%s]' % (nat(c['nops']), '; '.join(rounds))


# ------------------------------------------------------------------ compare
def dec(mag, flag):
    """(low 63 bits, 0 / 1 = sign set / 2 = NaN) -> bit pattern, NaN -> -1 (as props.c18.nanmap)"""
    if flag == 2:
        return -1
    return mag + (P.SIGN if flag == 1 else 0)


def decs(xs):
    return [dec(xs[i], xs[i + 1]) for i in range(0, len(xs), 2)]


STATE = {0: 'best', 1: 'diverse'}


def op_index(name):
    if isinstance(name, str) and name.startswith('op') and name[2:].isdigit():
        return int(name[2:])
    return None


def nanmap(b):
    return P.nanmap(b)


def compare(c, impl, model):
    if 'panic' in impl:
        return 'harness panicked: %s' % impl['panic']
    if c['op'] == 'remedian':
        want = [m - 1 for m in model]
        return None if want == list(impl['medians']) else 'approx_median after each observation: impl %s model %s' % (impl['medians'], want)
    total = sum(len(rd['jobs']) for rd in c['rounds'])
    if model == 'None':
        if impl['panic_at'] is None:
            return 'the model panics (no slot machine / index out of range), DynamicSelective did not'
        return None
    if impl['panic_at'] is not None:
        return 'DynamicSelective panicked in round %s: %s (the model does not)' % (impl['panic_at']['round'], impl['panic_at']['msg'])
    out, (mbest, mdiv) = model[1]
    search = impl['search']
    sh = impl['shadow']
    if 'panic' in sh:
        return 'shadow replay panicked: %s' % sh['panic']
    if len(search) != total or sh.get('replayed') != total or len(sh['jobs']) != total:
        return 'telemetry has %d samples, shadow replayed %s, case has %d jobs' % (len(search), sh.get('replayed'), total)
    t = 0
    for k, (rd, mr) in enumerate(zip(c['rounds'], out)):
        med, margs, mfbs = mr
        if len(mfbs) != len(rd['jobs']):
            return 'round %d: model has %d feedbacks for %d jobs' % (k, len(mfbs), len(rd['jobs']))
        for j, (fb, args) in enumerate(zip(mfbs, margs)):
            s = search[t]
            sj = sh['jobs'][t]
            mfrom, mto, midx, mdur = fb[:4]
            mrew = dec(fb[4], fb[5])
            args = [decs(args[i:i + 8]) for i in range(0, len(args), 8)]
            where = 'round %d job %d' % (k, j)
            if s['generation'] != k:
                return '%s: telemetry sample %d belongs to generation %d' % (where, t, s['generation'])
            if s['from'] != STATE[mfrom]:
                return '%s: searched from state %s, model %s' % (where, s['from'], STATE[mfrom])
            sargs = [[nanmap(x[0]), nanmap(x[1]), nanmap(x[3]), nanmap(x[4])] for x in sj['slots']]
            if sj['calls'] != 2 * c['nops'] or sargs != [list(a) for a in args]:
                return '%s: sampler arguments of the slots of row %s: shadow %s (%d calls) model %s' % (where, s['from'], sargs, sj['calls'], args)
            if not sj['tie']:
                if op_index(s['name']) != midx:
                    return '%s: picked %s, arg-max of the sampled values in the model: op%d' % (where, s['name'], midx)
                if sj['idx'] != midx:
                    return '%s: shadow arg-max %d, model %d' % (where, sj['idx'], midx)
            elif op_index(s['name']) != midx:
                return None          # a tie between two sampled values: the tie bits are not observable, nothing after it is comparable
            if s['to'] != STATE[mto]:
                return '%s: transition to %s, model %s' % (where, s['to'], STATE[mto])
            if nanmap(s['reward']) != mrew:
                return '%s: reward impl %r model %r (median approximation of the model: %s, duration %d)' % (
                    where, of_bits(int(s['reward'])), of_bits(mrew) if mrew >= 0 else 'NaN', med - 1 if med else None, s['duration'])
            t += 1
    # learned parameters after the last round (reported by save_params when the last round is a search_many)
    if c['rounds'] and c['rounds'][-1]['many']:
        last = len(c['rounds']) - 1
        got = {(p['state'], p['name']): [nanmap(p['alpha']), nanmap(p['beta']), nanmap(p['mu']), nanmap(p['v']), p['n']]
               for p in impl['params'] if p['generation'] == last}
        want = {}
        for st, row in (('best', mbest), ('diverse', mdiv)):
            for i, sl in enumerate(row):
                want[(st, 'op%d' % i)] = decs(sl[:8]) + [sl[8]]
        if got != want:
            for key in sorted(set(got) | set(want)):
                if got.get(key) != want.get(key):
                    return 'learned parameters of slot %s/%s after the run: impl %s model %s' % (key[0], key[1], got.get(key), want.get(key))
        shp = {}
        for st in ('best', 'diverse'):
            for i, sl in enumerate(sh[st]):
                shp[(st, 'op%d' % i)] = [nanmap(x) for x in sl[:4]] + [sl[4]]
        if shp != want:
            return 'learned parameters of the shadow differ from the model: %s vs %s' % (shp, want)
    return None


# ------------------------------------------------------------------ oracle (property on the implementation's own output)
def fits(xs):
    return None if xs is None else [of_bits(int(x)) for x in xs]


def oracle(c, impl):
    if 'panic' in impl:
        return [{'class': 'panic-' + c['op'], 'what': 'panicked: ' + impl['panic']}]
    v = []
    if c['op'] == 'remedian':
        seen = set()
        for k, m in enumerate(impl['medians']):
            seen.add(c['values'][k])
            if m != -1 and m not in seen:
                v.append({'class': 'remedian-not-an-observation', 'what': 'approx_median %s after %d observations is not an observed value' % (m, k + 1)})
                break
        return v
    nops = c['nops']
    names = {'op%d' % k for k in range(nops)}
    search = impl['search']
    total = sum(len(rd['jobs']) for rd in c['rounds'])
    if impl['panic_at'] is not None:
        if nops == 0 and 'cannot get slot machine' in impl['panic_at']['msg']:
            return []
        return [{'class': 'selection-panic', 'what': 'DynamicSelective panicked in round %s: %s' % (impl['panic_at']['round'], impl['panic_at']['msg'])}]
    if len(search) != total:
        return [{'class': 'selection-missing', 'what': '%d samples for %d searches' % (len(search), total)}]
    if [op_index(s['name']) for s in search] != list(impl['calls']):
        v.append({'class': 'operator-invoked-differs-from-recorded',
                  'what': 'operators invoked %s, feedback recorded for %s' % (impl['calls'], [s['name'] for s in search])})
    t = 0
    routed = {}
    for k, rd in enumerate(c['rounds']):
        best = fits(rd['best'])
        for job in rd['jobs']:
            s = search[t]
            t += 1
            init, new = fits(job['init']), fits(job['new'])
            if s['name'] not in names or s['from'] not in ('best', 'diverse') or s['to'] not in ('best', 'diverse'):
                v.append({'class': 'unconfigured-operator', 'what': 'round %d picked %r (%s -> %s)' % (k, s['name'], s['from'], s['to'])})
                continue
            wfrom = 'best' if (best is not None and P.lex(init, best) == 0) else 'diverse'
            wto = 'best' if (best is None or P.lex(new, best) < 0) else 'diverse'
            if (s['from'], s['to']) != (wfrom, wto):
                v.append({'class': 'transition-wrong-state', 'what': 'round %d: transition %s -> %s, the fitness relation to the best known says %s -> %s'
                          % (k, s['from'], s['to'], wfrom, wto)})
            if not P.finite(s['reward']):
                v.append({'class': 'reward-nonfinite', 'what': 'round %d: reward %r for finite fitness' % (k, of_bits(int(s['reward'])))})
                continue
            r = of_bits(int(s['reward']))
            N = len(new)
            if r < 0:
                v.append({'class': 'reward-negative', 'what': 'round %d: reward %r' % (k, r)})
            if r > 9 * (2 * N + 1):
                v.append({'class': 'reward-above-proved-bound', 'what': 'round %d: reward %r > 9(2N+1), N=%d' % (k, r, N)})
            routed.setdefault((s['from'], s['name']), []).append((k, r))
        if v:
            return v
    # every parameter snapshot (search_many rounds): only the chosen slots changed, every slot is a valid learning state
    gens = sorted({p['generation'] for p in impl['params']})
    for g in gens:
        snap = [p for p in impl['params'] if p['generation'] == g]
        if {(p['state'], p['name']) for p in snap} != {(st, nm) for st in ('best', 'diverse') for nm in names}:
            v.append({'class': 'unconfigured-operator', 'what': 'parameters reported for %s' % sorted({(p['state'], p['name']) for p in snap})})
            break
        for p in snap:
            seen = [r for (k, r) in routed.get((p['state'], p['name']), []) if k <= g]
            what = 'slot %s/%s after round %d' % (p['state'], p['name'], g)
            if p['n'] != len(seen):
                v.append({'class': 'slot-count-not-routed-updates',
                          'what': '%s: n=%d, but %d feedbacks were routed to it (only the chosen slot of the from-state may change)' % (what, p['n'], len(seen))})
                continue
            v += P.state_violations([p['alpha'], p['beta'], p['mu'], p['v'], p['n']], seen, 1.0, what)
        if v:
            break
    return v


def nontrivial_key(c, impl):
    if 'panic' in impl:
        return None
    if c['op'] == 'remedian':
        return ('remedian', c['base'], c['exponent'], tuple(c['values'])) if len(c['values']) >= c['base'] else None
    pos = sum(1 for s in impl['search'] if P.finite(s['reward']) and of_bits(int(s['reward'])) > 0)
    both = {s['from'] for s in impl['search']} == {'best', 'diverse'}
    return ('selector', str(c['rounds'])) if pos >= 2 and both else None


def classify(c, impl):
    labs = ['op=' + c['op']]
    if c['op'] == 'selector' and 'panic' not in impl:
        labs.append('operators=%d' % c['nops'])
        n = sum(len(rd['jobs']) for rd in c['rounds'])
        labs.append('searches:' + ('<=5' if n <= 5 else '<=20' if n <= 20 else '>20'))
        if any(rd['many'] and len(rd['jobs']) > 1 for rd in c['rounds']):
            labs.append('search_many-with-several-solutions')
        if any(s['duration'] != 0 for s in impl['search']):
            labs.append('nonzero-duration-observed')
        if {s['from'] for s in impl['search']} == {'best', 'diverse'}:
            labs.append('both-rows-used')
        if 'panic' not in impl['shadow'] and any(j['tie'] for j in impl['shadow'].get('jobs', [])):
            labs.append('tie-between-sampled-values')
    return labs


def shrink_candidates(c):
    if c['op'] == 'selector' and len(c['rounds']) > 1:
        for cut in (len(c['rounds']) // 2, len(c['rounds']) - 1):
            if cut >= 1:
                d = dict(c)
                d['rounds'] = [dict(r) for r in c['rounds'][:cut]]
                d['rounds'][-1]['many'] = True
                yield d
    if c['op'] == 'remedian' and len(c['values']) > 1:
        d = dict(c)
        d['values'] = c['values'][:len(c['values']) // 2]
        yield d
